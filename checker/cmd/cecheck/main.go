// cecheck decides the properties of /verif/properties.jsonl for go-concise-encoding by
// static analysis of /repo's current working tree.
//
//	cecheck Cxx [--thorough] [--replay file] [--repo dir] [--verif dir] [--no-selftest]
package main

import (
	"encoding/json"
	"sort"
	"fmt"
	"os"
	"runtime/debug"
	"strconv"
	"strings"

	"verif/checker/core"
	"verif/checker/rules"
)

func main() {
	os.Exit(realMain())
}

func realMain() (code int) {
	args := os.Args[1:]
	if len(args) == 0 {
		fmt.Println("usage: cecheck Cxx [--thorough] [--replay file] [--repo dir] [--verif dir]")
		return 2
	}
	prop := args[0]
	if prop == "ALL" || strings.Contains(prop, ",") {
		return multiMain(prop, args[1:])
	}
	repo, verif, replay := "/repo", "/verif", ""
	tier := "quick"
	selftest := true
	if os.Getenv("VERIF_TIER") == "thorough" {
		tier = "thorough"
	}
	for i := 1; i < len(args); i++ {
		switch args[i] {
		case "--thorough":
			tier = "thorough"
		case "--quick":
			tier = "quick"
		case "--no-selftest":
			selftest = false
		case "--replay":
			i++
			replay = args[i]
		case "--repo":
			i++
			repo = args[i]
		case "--verif":
			i++
			verif = args[i]
		default:
			fmt.Println("unknown argument", args[i])
			return 2
		}
	}
	seed, _ := strconv.Atoi(os.Getenv("VERIF_SEED"))
	fn := rules.Registry[prop]
	if fn == nil {
		fmt.Printf("no check registered for %s\n", prop)
		return 2
	}
	run := core.NewRun(prop, tier, seed, verif)
	defer func() {
		if r := recover(); r != nil {
			fmt.Printf("CHECKER-BROKEN: panic in rule code: %v\n%s\n", r, debug.Stack())
			code = 2
		}
	}()
	replayKey := ""
	if replay != "" {
		b, err := os.ReadFile(replay)
		if err != nil {
			fmt.Println("CHECKER-BROKEN:", err)
			return 2
		}
		var rf struct {
			Key string `json:"key"`
		}
		if err := json.Unmarshal(b, &rf); err != nil || rf.Key == "" {
			fmt.Println("CHECKER-BROKEN: bad replay file", err)
			return 2
		}
		replayKey = rf.Key
	}
	variants := []core.Variant{core.DefaultVariant}
	if tier == "thorough" {
		variants = append(variants, core.ThoroughVariants...)
	}
	for _, v := range variants {
		prog, err := core.Load(repo, v)
		if err != nil {
			// A tree that does not build cannot be judged.
			run.BrokenF("load %s: %v", v.Name, err)
			continue
		}
		run.Prog = prog
		run.Variants = append(run.Variants, v.Name)
		run.Count("packages", len(prog.Pkgs))
		fn(run, prog)
		rules.RunIncludes(run, prog, prop)
	}
	if tier == "thorough" && selftest && replayKey == "" {
		rules.SelfTest(run, prop, repo, verif)
	}
	_ = strings.TrimSpace
	return run.Finish(replayKey)
}

// multiMain evaluates several properties in one process on one loaded program (used by the corpus tools; the registered
// commands always run one property). Prints one summary line per property; exit code is the worst one.
func multiMain(list string, args []string) int {
	repo, verif := "/repo", "/verif"
	for i := 0; i < len(args); i++ {
		switch args[i] {
		case "--repo":
			i++
			repo = args[i]
		case "--verif":
			i++
			verif = args[i]
		}
	}
	var props []string
	if list == "ALL" {
		for p := range rules.Registry {
			props = append(props, p)
		}
	} else {
		props = strings.Split(list, ",")
	}
	sort.Strings(props)
	prog, err := core.Load(repo, core.DefaultVariant)
	if err != nil {
		fmt.Println("CHECKER-BROKEN: load:", err)
		return 2
	}
	worst := 0
	for _, prop := range props {
		code := func() (code int) {
			defer func() {
				if r := recover(); r != nil {
					fmt.Printf("CHECKER-BROKEN: %s: panic in rule code: %v\n", prop, r)
					code = 2
				}
			}()
			own := rules.OwnRun(prop, prog, "quick", 0, verif)
			run := core.NewRun(prop, "quick", 0, verif)
			run.Prog = prog
			run.Variants = []string{core.DefaultVariant.Name}
			run.AdoptFrom(own)
			rules.RunIncludes(run, prog, prop)
			return run.Finish("")
		}()
		if code > worst {
			worst = code
		}
	}
	return worst
}
