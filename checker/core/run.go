package core

import (
	"crypto/sha1"
	"encoding/json"
	"fmt"
	"go/token"
	"os"
	"path/filepath"
	"sort"
	"strings"
	"time"
)

// Obl is one obligation: a rule applied to one construct of the repository.
// Keys are rule|construct and never contain line numbers.
type Obl struct {
	Rule      string `json:"rule"`
	Construct string `json:"construct"`
	Pos       string `json:"pos,omitempty"`
	OK        bool   `json:"ok"`
	Detail    string `json:"detail,omitempty"`
	Variant   string `json:"variant,omitempty"`
	// KnownVia: the obligation is shared from another property's check and is an open known finding recorded there.
	KnownVia string `json:"known_via,omitempty"`
}

func (o Obl) Key() string { return o.Rule + "|" + o.Construct }

// Run collects what one check of one property analysed and found.
type Run struct {
	Prop        string
	Tier        string
	Seed        int
	Level       string
	VerifDir    string
	Prog        *Program
	Obls        []Obl
	Analysed    map[string]int
	RuleTexts   map[string]string
	Assumptions []string
	NotDecided  []string
	Variants    []string
	Broken      []string
	Extra       map[string]interface{}
	start       time.Time
	seen        map[string]int
}

func NewRun(prop, tier string, seed int, verifDir string) *Run {
	return &Run{Prop: prop, Tier: tier, Seed: seed, Level: "other", VerifDir: verifDir,
		Analysed: map[string]int{}, RuleTexts: map[string]string{}, Extra: map[string]interface{}{},
		start: time.Now(), seen: map[string]int{}}
}

// Rule registers the text of a rule (printed in evidence).
func (r *Run) Rule(id, text string) { r.RuleTexts[id] = text }

// Count records how many things of a kind were analysed.
func (r *Run) Count(what string, n int) { r.Analysed[what] += n }

// Check records an obligation. construct must be stable under unrelated edits.
func (r *Run) Check(rule, construct string, pos token.Pos, ok bool, detail string) {
	ps := ""
	if r.Prog != nil && pos.IsValid() {
		ps = r.Prog.Pos(pos)
	}
	variant := ""
	if r.Prog != nil && r.Prog.Variant.Name != DefaultVariant.Name {
		variant = r.Prog.Variant.Name
	}
	r.add(Obl{Rule: rule, Construct: construct, Pos: ps, OK: ok, Detail: detail, Variant: variant})
}

// Share re-files an obligation of another property's check under this run. rule is "<P>.shared/<Q.rule>".
func (r *Run) Share(rule, construct, pos string, ok bool, detail, knownVia string) {
	variant := ""
	if r.Prog != nil && r.Prog.Variant.Name != DefaultVariant.Name {
		variant = r.Prog.Variant.Name
	}
	r.add(Obl{Rule: rule, Construct: construct, Pos: pos, OK: ok, Detail: detail, Variant: variant, KnownVia: knownVia})
}

// CheckAt records an obligation whose position is already rendered (obligations re-filed from a shared sub-run).
func (r *Run) CheckAt(rule, construct, pos string, ok bool, detail string) {
	variant := ""
	if r.Prog != nil && r.Prog.Variant.Name != DefaultVariant.Name {
		variant = r.Prog.Variant.Name
	}
	r.add(Obl{Rule: rule, Construct: construct, Pos: pos, OK: ok, Detail: detail, Variant: variant})
}

func (r *Run) add(o Obl) {
	ok := o.OK
	// The same obligation may be evaluated under several build variants; keep the worst.
	if i, dup := r.seen[o.Key()]; dup {
		if r.Obls[i].OK && !ok {
			r.Obls[i] = o
		}
		return
	}
	r.seen[o.Key()] = len(r.Obls)
	r.Obls = append(r.Obls, o)
}

// Fail / Pass are shorthands.
func (r *Run) Fail(rule, construct string, pos token.Pos, detail string) {
	r.Check(rule, construct, pos, false, detail)
}
func (r *Run) Pass(rule, construct string, pos token.Pos, detail string) {
	r.Check(rule, construct, pos, true, detail)
}

// Undecided: an anchor the rule is tied to cannot be resolved. An obligation that
// cannot be discharged fails; it never passes vacuously.
func (r *Run) Undecided(rule, anchor string) {
	r.Check(rule, "anchor:"+anchor, token.NoPos, false, "undecided: anchor "+anchor+" not found in the current tree, the rule cannot be evaluated")
}

// Floor fails the rule when it matched fewer instances than were confirmed by hand.
func (r *Run) Floor(rule, what string, got, min int) {
	r.Count(rule+" "+what, 0)
	r.Analysed[rule+" "+what] = got
	if got < min {
		r.Check(rule, "floor:"+what, token.NoPos, false,
			fmt.Sprintf("undecided: rule matched %d %s, fewer than the %d confirmed on the reference tree — it would pass vacuously", got, what, min))
	}
}

// BrokenF records a failure of the checker itself (exit 2).
func (r *Run) BrokenF(format string, a ...interface{}) {
	r.Broken = append(r.Broken, fmt.Sprintf(format, a...))
}

func (r *Run) Assume(s string)    { r.Assumptions = appendUniq(r.Assumptions, s) }
func (r *Run) NotDecide(s string) { r.NotDecided = appendUniq(r.NotDecided, s) }

func appendUniq(l []string, s string) []string {
	for _, x := range l {
		if x == s {
			return l
		}
	}
	return append(l, s)
}

// KnownFinding is one entry of /verif/known_findings.json.
type KnownFinding struct {
	Property  string `json:"property"`
	Rule      string `json:"rule"`
	Construct string `json:"construct"`
	What      string `json:"what"`
	Status    string `json:"status"` // "open" | "fixed"
	Commit    string `json:"commit,omitempty"`
}

func LoadKnown(verifDir string) ([]KnownFinding, error) {
	b, err := os.ReadFile(filepath.Join(verifDir, "known_findings.json"))
	if err != nil {
		if os.IsNotExist(err) {
			return nil, nil
		}
		return nil, err
	}
	var f struct {
		Findings []KnownFinding `json:"findings"`
	}
	if err := json.Unmarshal(b, &f); err != nil {
		return nil, err
	}
	return f.Findings, nil
}

// Finish prints the report, writes evidence and replay files and returns the exit code.
// replayKey, when non-empty, restricts the verdict to one obligation key.
func (r *Run) Finish(replayKey string) int {
	known, err := LoadKnown(r.VerifDir)
	if err != nil {
		r.BrokenF("known_findings.json: %v", err)
	}
	open := map[string]KnownFinding{}
	for _, k := range known {
		if k.Property == r.Prop && k.Status == "open" {
			open[k.Rule+"|"+k.Construct] = k
		}
	}
	sort.SliceStable(r.Obls, func(i, j int) bool { return r.Obls[i].Key() < r.Obls[j].Key() })
	var violated, knownHit, discharged int
	var vioLines []string
	for _, o := range r.Obls {
		if replayKey != "" && o.Key() != replayKey {
			continue
		}
		if o.OK {
			discharged++
			continue
		}
		if o.KnownVia != "" {
			knownHit++
			fmt.Printf("KNOWN-FINDING: property=%s %s %s: %s\n", r.Prop, o.Rule, o.Construct, o.KnownVia)
			continue
		}
		if k, ok := open[o.Key()]; ok {
			knownHit++
			fmt.Printf("KNOWN-FINDING: property=%s %s %s: %s\n", r.Prop, o.Rule, o.Construct, k.What)
			continue
		}
		violated++
		fmt.Printf("%s: %s: %s: %s\n", orQ(o.Pos), o.Rule, o.Construct, o.Detail)
		path := r.writeReplay(o)
		vioLines = append(vioLines, fmt.Sprintf("VIOLATION property=%s replay=%s", r.Prop, path))
	}
	if replayKey != "" && discharged+knownHit+violated == 0 {
		// the obligation no longer exists in the tree: report it as still failing (cannot be discharged)
		fmt.Printf("replay: obligation %q not found in the current tree\n", replayKey)
		violated++
		vioLines = append(vioLines, fmt.Sprintf("VIOLATION property=%s replay=%s", r.Prop, "-"))
	}
	total := discharged + knownHit + violated
	fmt.Printf("%s [%s]: %d obligations, %d discharged, %d known findings, %d violated; analysed: %s\n",
		r.Prop, r.Tier, total, discharged, knownHit, violated, r.analysedString())
	for _, b := range r.Broken {
		fmt.Printf("CHECKER-BROKEN: %s\n", b)
	}
	for _, l := range vioLines {
		fmt.Println(l)
	}
	if replayKey == "" {
		if err := r.writeEvidence(total, discharged, knownHit, violated); err != nil {
			fmt.Printf("CHECKER-BROKEN: evidence: %v\n", err)
			return 2
		}
	}
	if len(r.Broken) > 0 {
		return 2
	}
	if violated > 0 {
		return 1
	}
	return 0
}

func orQ(s string) string {
	if s == "" {
		return "-"
	}
	return s
}

func (r *Run) analysedString() string {
	var ks []string
	for k := range r.Analysed {
		ks = append(ks, k)
	}
	sort.Strings(ks)
	var parts []string
	for _, k := range ks {
		parts = append(parts, fmt.Sprintf("%s=%d", k, r.Analysed[k]))
	}
	return strings.Join(parts, ", ")
}

func (r *Run) writeReplay(o Obl) string {
	h := sha1.Sum([]byte(o.Key()))
	dir := filepath.Join(r.VerifDir, "replays")
	os.MkdirAll(dir, 0o755)
	path := filepath.Join(dir, fmt.Sprintf("%s-%x.json", r.Prop, h[:6]))
	b, _ := json.MarshalIndent(map[string]interface{}{
		"property": r.Prop, "key": o.Key(), "rule": o.Rule, "construct": o.Construct, "pos": o.Pos,
		"detail": o.Detail, "variant": o.Variant, "rule_text": r.RuleTexts[o.Rule],
	}, "", " ")
	os.WriteFile(path, b, 0o644)
	return path
}

func (r *Run) writeEvidence(total, discharged, knownHit, violated int) error {
	dir := filepath.Join(r.VerifDir, "evidence")
	os.MkdirAll(dir, 0o755)
	var samples []interface{}
	perRule := map[string]map[string]int{}
	shown := map[string]int{}
	for _, o := range r.Obls {
		m := perRule[o.Rule]
		if m == nil {
			m = map[string]int{}
			perRule[o.Rule] = m
		}
		m["obligations"]++
		if o.OK {
			m["discharged"]++
		} else {
			m["not_discharged"]++
		}
		if shown[o.Rule] < 4 || !o.OK {
			if shown[o.Rule] < 12 {
				samples = append(samples, o)
				shown[o.Rule]++
			}
		}
	}
	var ruleIDs []string
	for id := range r.RuleTexts {
		ruleIDs = append(ruleIDs, id)
	}
	sort.Strings(ruleIDs)
	var expl strings.Builder
	expl.WriteString("Static analysis of /repo's current source (type-checked AST + go/ssa of the 16 library packages; nothing is executed). ")
	expl.WriteString("Each obligation is one rule applied to one construct (function, call site, table entry, path). Rules: ")
	for _, id := range ruleIDs {
		expl.WriteString(id + ": " + r.RuleTexts[id] + " ")
	}
	if len(r.NotDecided) > 0 {
		expl.WriteString("NOT decided by this check (runtime-valued): " + strings.Join(r.NotDecided, "; ") + ".")
	}
	cov := map[string]interface{}{
		"explanation":         expl.String(),
		"obligations":         total,
		"discharged":          discharged + knownHit,
		"known_findings":      knownHit,
		"violated":            violated,
		"evaluations":         total,
		"distinct_nontrivial": len(r.seen),
		"rule":                "one obligation per (rule, construct) pair found in the current tree; distinct = distinct rule|construct keys; all are non-trivial in that each names a construct the rule had to inspect",
		"samples":             samples,
		"analysed":            r.Analysed,
		"per_rule":            perRule,
		"rules":               r.RuleTexts,
		"build_variants":      r.Variants,
		"exhaustive":          true,
		"checker_cmd":         "/verif/bin/cecheck " + r.Prop,
		"trusted_base":        []string{"go/types", "golang.org/x/tools v0.29.0 go/packages, go/ssa", "the rule implementations in /verif/checker", "reference tables in the checker (listed in DESIGN.md)"},
		"not_decided":         r.NotDecided,
	}
	for k, v := range r.Extra {
		cov[k] = v
	}
	ev := map[string]interface{}{
		"property_id": r.Prop,
		"tier":        r.Tier,
		"seed":        r.Seed,
		"level":       r.Level,
		"coverage":    cov,
		"assumptions": r.Assumptions,
		"wall_s":      time.Since(r.start).Seconds(),
		"violations":  violated,
	}
	if r.Assumptions == nil {
		ev["assumptions"] = []string{}
	}
	b, err := json.MarshalIndent(ev, "", " ")
	if err != nil {
		return err
	}
	return os.WriteFile(filepath.Join(dir, r.Prop+".json"), b, 0o644)
}

// AdoptFrom copies the obligations, counts, rule texts and notes of another run of the same property.
func (r *Run) AdoptFrom(o *Run) {
	for _, ob := range o.Obls {
		r.add(ob)
	}
	for k, v := range o.Analysed {
		r.Analysed[k] = v
	}
	for k, v := range o.RuleTexts {
		r.RuleTexts[k] = v
	}
	r.Assumptions = append(r.Assumptions, o.Assumptions...)
	r.NotDecided = append(r.NotDecided, o.NotDecided...)
	r.Broken = append(r.Broken, o.Broken...)
	for k, v := range o.Extra {
		r.Extra[k] = v
	}
	r.Level = o.Level
}
