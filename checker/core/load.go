// Package core holds the plumbing shared by all rules: loading the resolved
// program from /repo's current working tree, recording obligations, matching
// known findings and writing evidence.
package core

import (
	"fmt"
	"go/ast"
	"go/token"
	"go/types"
	"os"
	"path/filepath"
	"sort"
	"strings"

	"golang.org/x/tools/go/packages"
	"golang.org/x/tools/go/ssa"
	"golang.org/x/tools/go/ssa/ssautil"
)

const ModulePath = "github.com/kstenerud/go-concise-encoding"

// LibraryPackages is the fixed set of library packages analysed. test/, tests/,
// bugreport/ and codegen/ are not library code.
var LibraryPackages = []string{
	"builder", "cbe", "ce", "ce/events", "configuration", "conversions", "cte", "cte/parser",
	"internal/arrays", "internal/chars", "internal/common", "iterator", "nullevent", "rules",
	"types", "version",
}

// Variant is a build configuration under which the tree is loaded.
type Variant struct {
	Name string
	Env  []string
	Tags string
}

var DefaultVariant = Variant{Name: "linux/amd64"}
// The 32-bit variant planned in DESIGN.md is not loaded: the pinned tree does not type-check under
// GOARCH=386 (configuration/encoder.go assigns math.MaxUint64 to a uint, rules_event_rcv.go compares
// len() with 0xffffffff), so 32-bit hosts are outside what the repository supports.
var ThoroughVariants = []Variant{
	{Name: "linux/amd64,purego", Tags: "purego"},
	{Name: "linux/arm64", Env: []string{"GOARCH=arm64"}},
}

// Program is the resolved program of one build variant.
type Program struct {
	RepoDir string
	Variant Variant
	Fset    *token.FileSet
	Pkgs    map[string]*packages.Package // keyed by path relative to the module ("rules", "ce/events")
	SSA     *ssa.Program
	SSAPkgs map[string]*ssa.Package

	funcDecls map[*types.Func]*ast.FuncDecl
	allFuncs  []*ssa.Function
}

// Load type-checks the library packages of repoDir and builds SSA for them.
// Any load/type error is returned (the caller treats it as "checker broken",
// never as a verdict).
func Load(repoDir string, v Variant) (*Program, error) {
	env := append(os.Environ(), "GOFLAGS=-mod=mod", "GOPROXY=off", "GOSUMDB=off", "GOTOOLCHAIN=local", "GOWORK=off")
	env = append(env, v.Env...)
	cfg := &packages.Config{
		Mode: packages.NeedName | packages.NeedFiles | packages.NeedCompiledGoFiles | packages.NeedImports |
			packages.NeedDeps | packages.NeedTypes | packages.NeedSyntax | packages.NeedTypesInfo | packages.NeedTypesSizes,
		Dir:   repoDir,
		Env:   env,
		Tests: false,
	}
	if v.Tags != "" {
		cfg.BuildFlags = []string{"-tags=" + v.Tags}
	}
	var patterns []string
	for _, p := range LibraryPackages {
		patterns = append(patterns, "./"+p)
	}
	pkgs, err := packages.Load(cfg, patterns...)
	if err != nil {
		return nil, fmt.Errorf("packages.Load: %v", err)
	}
	var errs []string
	packages.Visit(pkgs, nil, func(p *packages.Package) {
		for _, e := range p.Errors {
			errs = append(errs, e.Error())
		}
	})
	if len(errs) > 0 {
		sort.Strings(errs)
		if len(errs) > 10 {
			errs = errs[:10]
		}
		return nil, fmt.Errorf("load/type errors in %s:\n  %s", repoDir, strings.Join(errs, "\n  "))
	}
	prog := &Program{RepoDir: repoDir, Variant: v, Pkgs: map[string]*packages.Package{}, SSAPkgs: map[string]*ssa.Package{},
		funcDecls: map[*types.Func]*ast.FuncDecl{}}
	for _, p := range pkgs {
		if !strings.HasPrefix(p.PkgPath, ModulePath) {
			return nil, fmt.Errorf("unexpected package %s", p.PkgPath)
		}
		rel := strings.TrimPrefix(strings.TrimPrefix(p.PkgPath, ModulePath), "/")
		prog.Pkgs[rel] = p
		prog.Fset = p.Fset
	}
	for _, want := range LibraryPackages {
		if prog.Pkgs[want] == nil {
			return nil, fmt.Errorf("library package %q not loaded (got %d packages)", want, len(pkgs))
		}
	}
	if len(prog.Pkgs) != len(LibraryPackages) {
		return nil, fmt.Errorf("expected %d packages, loaded %d", len(LibraryPackages), len(prog.Pkgs))
	}
	sprog, spkgs := ssautil.Packages(pkgs, ssa.InstantiateGenerics)
	for i, sp := range spkgs {
		if sp == nil {
			return nil, fmt.Errorf("no SSA package for %s", pkgs[i].PkgPath)
		}
		rel := strings.TrimPrefix(strings.TrimPrefix(pkgs[i].PkgPath, ModulePath), "/")
		prog.SSAPkgs[rel] = sp
	}
	sprog.Build()
	prog.SSA = sprog
	for _, p := range prog.Pkgs {
		for _, f := range p.Syntax {
			for _, d := range f.Decls {
				if fd, ok := d.(*ast.FuncDecl); ok {
					if obj, ok := p.TypesInfo.Defs[fd.Name].(*types.Func); ok {
						prog.funcDecls[obj] = fd
					}
				}
			}
		}
	}
	return prog, nil
}

// Pkg returns the loaded package with the given module-relative path.
func (p *Program) Pkg(rel string) *packages.Package { return p.Pkgs[rel] }

// Rel returns the module-relative path of a types.Package ("" if foreign).
func Rel(pkg *types.Package) string {
	if pkg == nil {
		return ""
	}
	if pkg.Path() == ModulePath {
		return "."
	}
	if strings.HasPrefix(pkg.Path(), ModulePath+"/") {
		return strings.TrimPrefix(pkg.Path(), ModulePath+"/")
	}
	return ""
}

// InModule reports whether the object belongs to the analysed module.
func InModule(obj types.Object) bool {
	return obj != nil && obj.Pkg() != nil && strings.HasPrefix(obj.Pkg().Path(), ModulePath)
}

// Pos renders a position relative to the repository root.
func (p *Program) Pos(pos token.Pos) string {
	if !pos.IsValid() {
		return "?"
	}
	ps := p.Fset.Position(pos)
	rel, err := filepath.Rel(p.RepoDir, ps.Filename)
	if err != nil {
		rel = ps.Filename
	}
	return fmt.Sprintf("%s:%d", rel, ps.Line)
}

// FuncDecl returns the syntax of a module function (nil if none).
func (p *Program) FuncDecl(f *types.Func) *ast.FuncDecl { return p.funcDecls[f] }

// LookupFunc finds a package-level function or a method "T.m" / "(*T).m" by name
// in the given package; nil if absent.
func (p *Program) LookupFunc(rel, name string) *types.Func {
	pkg := p.Pkgs[rel]
	if pkg == nil {
		return nil
	}
	if i := strings.Index(name, "."); i >= 0 {
		tn, mn := name[:i], name[i+1:]
		obj, _ := pkg.Types.Scope().Lookup(tn).(*types.TypeName)
		if obj == nil {
			return nil
		}
		m, _, _ := types.LookupFieldOrMethod(types.NewPointer(obj.Type()), true, pkg.Types, mn)
		f, _ := m.(*types.Func)
		return f
	}
	f, _ := pkg.Types.Scope().Lookup(name).(*types.Func)
	return f
}

// LookupType finds a named type in a package.
func (p *Program) LookupType(rel, name string) *types.TypeName {
	pkg := p.Pkgs[rel]
	if pkg == nil {
		return nil
	}
	tn, _ := pkg.Types.Scope().Lookup(name).(*types.TypeName)
	return tn
}

// SSAFunc returns the SSA function of a types.Func (nil if it has no body here).
func (p *Program) SSAFunc(f *types.Func) *ssa.Function {
	if f == nil {
		return nil
	}
	return p.SSA.FuncValue(f)
}

// AllFuncs returns every SSA function (incl. anonymous) whose source is in the module packages.
func (p *Program) AllFuncs() []*ssa.Function {
	if p.allFuncs != nil {
		return p.allFuncs
	}
	seen := map[*ssa.Function]bool{}
	var add func(f *ssa.Function)
	add = func(f *ssa.Function) {
		if f == nil || seen[f] || f.Blocks == nil {
			return
		}
		seen[f] = true
		p.allFuncs = append(p.allFuncs, f)
		for _, a := range f.AnonFuncs {
			add(a)
		}
	}
	for _, sp := range p.SSAPkgs {
		for _, m := range sp.Members {
			switch m := m.(type) {
			case *ssa.Function:
				add(m)
			case *ssa.Type:
				for _, t := range []types.Type{m.Type(), types.NewPointer(m.Type())} {
					ms := p.SSA.MethodSets.MethodSet(t)
					for i := 0; i < ms.Len(); i++ {
						fn := p.SSA.MethodValue(ms.At(i))
						if fn != nil && fn.Synthetic == "" {
							add(fn)
						}
					}
				}
			}
		}
	}
	sort.Slice(p.allFuncs, func(i, j int) bool { return p.allFuncs[i].String() < p.allFuncs[j].String() })
	return p.allFuncs
}

// FuncName gives a stable, line-independent name of a function for construct keys:
// "rules.(*Context).beginContainer", "iterator.newPointerIterator$1".
func FuncName(f *ssa.Function) string {
	s := f.String()
	s = strings.ReplaceAll(s, ModulePath+"/", "")
	s = strings.ReplaceAll(s, ModulePath, "ce_root")
	return s
}

// ObjName gives a stable name for a types.Func.
func ObjName(f *types.Func) string {
	s := f.FullName()
	s = strings.ReplaceAll(s, ModulePath+"/", "")
	return s
}

// PkgOf returns the loaded package that declares obj, nil if it is not one of the loaded library packages.
func (p *Program) PkgOf(obj types.Object) *packages.Package {
	if obj == nil || obj.Pkg() == nil {
		return nil
	}
	for _, pkg := range p.Pkgs {
		if pkg.Types == obj.Pkg() {
			return pkg
		}
	}
	return nil
}

// DepPkg returns the types.Package of a dependency (e.g. "reflect") as imported by the loaded packages.
func (p *Program) DepPkg(path string) *types.Package {
	for _, pkg := range p.Pkgs {
		for ip, imp := range pkg.Imports {
			if ip == path && imp.Types != nil {
				return imp.Types
			}
		}
	}
	return nil
}
