package rules

import (
	"go/ast"
	"go/constant"
	"go/token"
	"go/types"
	"strings"

	"verif/checker/core"
)

func init() { Registry["C20"] = checkC20 }

func checkC20(r *core.Run, p *core.Program) {
	r.Rule("C20.check-before-descend", "every iterator for a kind that has pointer identity (pointer, slice, map) asks the reference tracker (TryAddLocalReference) before it descends into the value and returns at once when a reference was emitted; so a shared or cyclic value is written once and referenced afterwards, and marshaling terminates.")
	r.Rule("C20.tracker", "the reference tracker is sound: it only takes the pointer of kinds that have one (kind guard before TypedPointerOfRV), looks the value up in the duplicate set and in the name table under the same typed (type, address) key - never a bare address, which conflates an object with a pointer to its first field -, emits a marker on the first visit and a reference on later visits, returns true only when it emitted a reference, numbers markers from a counter that advances (pointer receiver), and both tables are rebuilt for every Iterate call.")
	//r.Rule("C20.deferred-fill", "on the building side: every builder rejects, delegates or registers a local reference with the reference filler; setters of growable containers resolve their element when called; the filler calls or queues the setter and runs and clears the queue when the marker arrives; marker and reference identifiers are copied before they are kept; the marked-object builder reports scalars and containers to the filler (C06.references, C06.retained-bytes).")
	r.Rule("C20.setter-pointers", "the deferred setter can store a referenced object into a pointer-typed destination of a different pointer depth (graphs with pointers to shared pointers).")
	r.NotDecide("isomorphism of the rebuilt graph; completeness of the third-party duplicate finder (empty containers are skipped by it); equality of all other values")

	it := p.Pkg("iterator")
	info := it.TypesInfo

	// ---- check before descend ------------------------------------------------------------------------------
	nIt := 0
	for _, name := range []string{"newPointerIterator", "newSliceOrArrayAsListIterator", "newMapIterator"} {
		f := findFn(p, "iterator", name)
		if f == nil {
			r.Undecided("C20.check-before-descend", "iterator."+name)
			continue
		}
		var fl *ast.FuncLit
		ast.Inspect(f.Decl.Body, func(n ast.Node) bool {
			if ret, ok := n.(*ast.ReturnStmt); ok && len(ret.Results) == 1 {
				if l, ok := ret.Results[0].(*ast.FuncLit); ok {
					fl = l
				}
			}
			return true
		})
		if fl == nil {
			r.Fail("C20.check-before-descend", "iterator."+name+"|returns the iterating closure", f.Decl.Pos(), "no returned function literal found")
			continue
		}
		nIt++
		// position of the tracker test and of the first descent (call of a captured iterator / event that opens the value)
		var trackPos, descendPos token.Pos
		returnsAfter := false
		for _, st := range fl.Body.List {
			if ifs, ok := st.(*ast.IfStmt); ok {
				if call, ok := stripParens(ifs.Cond).(*ast.CallExpr); ok {
					if fv := fieldOf(info, call.Fun); fv != nil && fv.Name() == "TryAddLocalReference" && trackPos == token.NoPos {
						trackPos = ifs.Pos()
						if len(ifs.Body.List) == 1 {
							_, returnsAfter = ifs.Body.List[0].(*ast.ReturnStmt)
						}
						continue
					}
				}
			}
			if descendPos == token.NoPos {
				ast.Inspect(st, func(n ast.Node) bool {
					call, ok := n.(*ast.CallExpr)
					if !ok || descendPos != token.NoPos {
						return true
					}
					// a call through a local variable of function type (captured element iterator), or a container-opening event
					if id, ok := call.Fun.(*ast.Ident); ok {
						if v, ok := info.ObjectOf(id).(*types.Var); ok {
							if _, isSig := v.Type().Underlying().(*types.Signature); isSig {
								descendPos = call.Pos()
							}
						}
					}
					if c := callee(info, call); c != nil && (c.Name() == "OnList" || c.Name() == "OnMap") {
						descendPos = call.Pos()
					}
					return true
				})
			}
		}
		ok := trackPos != token.NoPos && returnsAfter && (descendPos == token.NoPos || trackPos < descendPos)
		r.Check("C20.check-before-descend", "iterator."+name+"$1|tracker consulted before descending, returns on a reference", fl.Pos(), ok,
			"the iterator must test context.TryAddLocalReference(v) and return when it reports true before it emits or descends into the value: otherwise shared values are duplicated and cyclic values recurse forever")
	}
	r.Floor("C20.check-before-descend", "reference-aware iterators", nIt, 3)
	// slice rows that are marshaled as typed arrays never reach the tracker
	if itf := findFn(p, "iterator", "Session.getDefaultIteratorForType"); itf != nil {
		var untracked []string
		for _, row := range extractKindDispatch(itf) {
			if row.Outer != "Slice" || !strings.HasPrefix(row.Sub, "elem:") {
				continue
			}
			if len(emitsTypedArray(p, row.Fn)) == 0 {
				continue
			}
			a := newAnalysis(p)
			tracks := a.reaches(row.Fn, func(g *types.Func) bool { return false }) // placeholder to warm the cache
			_ = tracks
			uses := false
			if d := p.FuncDecl(row.Fn); d != nil {
				ast.Inspect(d.Body, func(n ast.Node) bool {
					if sel, ok := n.(*ast.SelectorExpr); ok && sel.Sel.Name == "TryAddLocalReference" {
						uses = true
					}
					return true
				})
			}
			if !uses {
				untracked = append(untracked, strings.TrimPrefix(row.Sub, "elem:"))
			}
		}
		r.Check("C20.check-before-descend", "iterator typed-array slice rows|consult the reference tracker", itf.Decl.Pos(), len(untracked) == 0,
			"slices of "+strings.Join(untracked, ", ")+" are marshaled as typed arrays by iterators that never consult the reference tracker: a slice shared between two fields is written twice and comes back as two separate slices")
	}

	// ---- tracker ---------------------------------------------------------------------------------------------
	tr := findFn(p, "iterator", "RootObjectIterator.addLocalReference")
	if tr == nil {
		r.Undecided("C20.tracker", "iterator.RootObjectIterator.addLocalReference")
	} else {
		// kind guard before TypedPointerOfRV: the statements in front of the call are evaluated for every
		// reflect.Kind; the kinds that get through must have pointer identity and include pointer, slice and map
		var ptrPos token.Pos
		inspectCalls(info, tr.Decl.Body, func(call *ast.CallExpr, c *types.Func) {
			if c != nil && c.Name() == "TypedPointerOfRV" && !ptrPos.IsValid() {
				ptrPos = call.Pos()
			}
		})
		passing, decidable := kindsReaching(p, info, tr, ptrPos)
		okKinds := decidable && ptrPos.IsValid()
		for k := range passing {
			switch k {
			case "Ptr", "Pointer", "Slice", "Map", "Chan", "Func", "UnsafePointer":
			default:
				okKinds = false
			}
		}
		r.Check("C20.tracker", "addLocalReference|kind guard before taking the pointer", tr.Decl.Pos(), okKinds,
			"the tracker must return false for kinds without pointer identity before it calls TypedPointerOfRV (reflect.Value.Pointer panics on arrays, structs and scalars)")
		r.Check("C20.tracker", "addLocalReference|tracks pointers, slices and maps", tr.Decl.Pos(), (passing["Ptr"] || passing["Pointer"]) && passing["Slice"] && passing["Map"],
			"the tracker ignores one of the kinds pointer, slice, map: values of that kind that are shared are duplicated and cyclic ones recurse forever")
		// typed keys
		tn := p.LookupType("iterator", "RootObjectIterator")
		if st, ok := tn.Type().Underlying().(*types.Struct); ok {
			nMaps := 0
			for i := 0; i < st.NumFields(); i++ {
				m, ok := st.Field(i).Type().Underlying().(*types.Map)
				if !ok {
					continue
				}
				nMaps++
				r.Check("C20.tracker", "RootObjectIterator."+st.Field(i).Name()+"|keyed by (type, address)", st.Field(i).Pos(), typeIs(m.Key(), "github.com/kstenerud/go-duplicates", "TypedPointer"),
					"the table "+st.Field(i).Name()+" is keyed by "+m.Key().String()+": a bare address conflates an object with a pointer to its first field or element, so one of them is written as a reference to the other")
			}
			r.Floor("C20.tracker", "reference tables of the root iterator", nMaps, 2)
		}
		// marker on first visit (return false), reference later (return true)
		src := stmtString(tr.Decl.Body)
		firstMarker := strings.Contains(src, "OnMarker(") && strings.Contains(src, "OnReferenceLocal(")
		r.Check("C20.tracker", "addLocalReference|marker on the first visit, reference afterwards", tr.Decl.Pos(), firstMarker && c20MarkerThenRef(info, tr),
			"the tracker must emit OnMarker and return false on the first visit of a shared value, and emit OnReferenceLocal and return true on later visits")
		// found set consulted
		usesFound := false
		ast.Inspect(tr.Decl.Body, func(n ast.Node) bool {
			if ix, ok := n.(*ast.IndexExpr); ok {
				if fv := fieldOf(info, ix.X); fv != nil && fv.Name() == "foundReferences" {
					usesFound = true
				}
			}
			return true
		})
		r.Check("C20.tracker", "addLocalReference|only values the duplicate finder reported are marked", tr.Decl.Pos(), usesFound, "the tracker does not consult the set of duplicate pointers")
	}
	if f := findFn(p, "iterator", "RootObjectIterator.getNamedLocalReference"); f != nil {
		sig := f.Obj.Type().(*types.Signature)
		_, isPtr := sig.Recv().Type().(*types.Pointer)
		inc := false
		// the counter may be advanced in a pointer-receiver helper of the iterator that this method calls
		bodies := []ast.Node{f.Decl.Body}
		inspectCalls(info, f.Decl.Body, func(call *ast.CallExpr, c *types.Func) {
			if c != nil && c.Pkg() == f.Pkg.Types && recvNamed(c) != nil && recvNamed(c) == recvNamed(f.Obj) {
				if _, ptrRecv := c.Type().(*types.Signature).Recv().Type().(*types.Pointer); ptrRecv {
					if hd := p.FuncDecl(c); hd != nil && hd.Body != nil {
						bodies = append(bodies, hd.Body)
					}
				}
			}
		})
		for _, body := range bodies {
			ast.Inspect(body, func(n ast.Node) bool {
				switch s := n.(type) {
				case *ast.IncDecStmt:
					if fv := fieldOf(info, s.X); s.Tok == token.INC && fv != nil && fv.Name() == "nextMarkerName" {
						inc = true
					}
				case *ast.AssignStmt:
					if len(s.Lhs) == 1 && s.Tok == token.ADD_ASSIGN {
						if fv := fieldOf(info, s.Lhs[0]); fv != nil && fv.Name() == "nextMarkerName" {
							if k, isC := constInt(info, s.Rhs[0]); isC && k == 1 {
								inc = true
							}
						}
					}
				}
				return true
			})
		}
		r.Check("C20.tracker", "getNamedLocalReference|marker numbers advance", f.Decl.Pos(), isPtr && inc, "each newly named shared value must get the next number from a counter stored through a pointer receiver: otherwise two shared values get the same marker ID")
	} else {
		r.Undecided("C20.tracker", "iterator.RootObjectIterator.getNamedLocalReference")
	}
	if f := findFn(p, "iterator", "RootObjectIterator.Iterate"); f != nil {
		reb := map[string]bool{}
		ast.Inspect(f.Decl.Body, func(n ast.Node) bool {
			if as, ok := n.(*ast.AssignStmt); ok {
				for _, l := range as.Lhs {
					if fv := fieldOf(info, l); fv != nil {
						reb[fv.Name()] = true
					}
				}
			}
			return true
		})
		r.Check("C20.tracker", "Iterate|both reference tables rebuilt per document", f.Decl.Pos(), reb["foundReferences"] && reb["namedReferences"], "Iterate must recompute the duplicate set and start a new name table for every value it marshals")
	}

	// ---- setter pointers ----------------------------------------------------------------------------------------
	if f := findFn(p, "builder", "setAnythingFromAnything"); f == nil {
		r.Undecided("C20.setter-pointers", "builder.setAnythingFromAnything")
	} else {
		binfo := f.Pkg.TypesInfo
		todo := false
		ast.Inspect(f.Decl.Body, func(n ast.Node) bool {
			sw, ok := n.(*ast.SwitchStmt)
			if !ok {
				return true
			}
			for _, c := range switchTable(binfo, sw) {
				for _, e := range c.Exprs {
					if o := objOf(binfo, e); o != nil && (o.Name() == "Ptr" || o.Name() == "Pointer") {
						if newAnalysis(p).alwaysPanics(binfo, c.Body) {
							todo = true
						}
					}
				}
			}
			return true
		})
		r.Check("C20.setter-pointers", "builder.setAnythingFromAnything|pointer destinations", f.Decl.Pos(), !todo,
			"the deferred setter rejects every pointer-typed destination whose type differs from the referenced object's type (TODO): a graph in which a **T points at a pointer that is itself shared marshals to `$id` in that place and cannot be unmarshaled")
	}
}

// c20MarkerThenRef: in addLocalReference the branch that emits OnMarker returns false and the final path emits
// OnReferenceLocal and returns true.
func c20MarkerThenRef(info *types.Info, f *fn) bool {
	markerFalse, refTrue := false, false
	list := f.Decl.Body.List
	for i, st := range list {
		if ifs, ok := st.(*ast.IfStmt); ok {
			hasMarker := false
			inspectCalls(info, ifs.Body, func(call *ast.CallExpr, c *types.Func) {
				if c != nil && c.Name() == "OnMarker" {
					hasMarker = true
				}
			})
			if hasMarker && len(ifs.Body.List) > 0 {
				if ret, ok := ifs.Body.List[len(ifs.Body.List)-1].(*ast.ReturnStmt); ok && len(ret.Results) == 1 {
					if cv := constVal(info, ret.Results[0]); cv != nil && !constant.BoolVal(cv) {
						markerFalse = true
					}
				}
			}
		}
		if es, ok := st.(*ast.ExprStmt); ok && i+1 < len(list) {
			if call, ok := es.X.(*ast.CallExpr); ok {
				if c := callee(info, call); c != nil && c.Name() == "OnReferenceLocal" {
					if ret, ok := list[i+1].(*ast.ReturnStmt); ok && len(ret.Results) == 1 {
						if cv := constVal(info, ret.Results[0]); cv != nil && constant.BoolVal(cv) {
							refTrue = true
						}
					}
				}
			}
		}
	}
	return markerFalse && refTrue
}

// kindsReaching evaluates, for each reflect.Kind, the top-level statements of f that precede pos: guards of the
// forms `switch v.Kind() { case …: …; default: return … }` and `if <boolean combination of comparisons of
// v.Kind() (or a local holding it) with Kind constants> { …return }`. It returns the kinds for which no guard
// leaves the function, and whether every statement in front of pos could be evaluated.
func kindsReaching(p *core.Program, info *types.Info, f *fn, pos token.Pos) (map[string]bool, bool) {
	out := map[string]bool{}
	rp := p.DepPkg("reflect")
	if rp == nil {
		return out, false
	}
	var kinds []*types.Const
	for _, n := range rp.Scope().Names() {
		if c, ok := rp.Scope().Lookup(n).(*types.Const); ok {
			if nt := namedOf(c.Type()); nt != nil && nt.Obj().Name() == "Kind" {
				kinds = append(kinds, c)
			}
		}
	}
	isKindExpr := func(e ast.Expr) bool {
		e = stripParens(e)
		if id, ok := e.(*ast.Ident); ok {
			if init := singleInit(info, f, info.ObjectOf(id)); init != nil {
				e = stripParens(init)
			}
		}
		call, ok := e.(*ast.CallExpr)
		if !ok {
			return false
		}
		c := callee(info, call)
		return c != nil && c.Name() == "Kind" && typeIs(recvType(c), "reflect", "Value")
	}
	leaves := func(body []ast.Stmt) bool {
		if len(body) == 0 {
			return false
		}
		_, isRet := body[len(body)-1].(*ast.ReturnStmt)
		return isRet
	}
	decidable := true
	for _, k := range kinds {
		var eval func(e ast.Expr) (bool, bool)
		eval = func(e ast.Expr) (bool, bool) {
			e = stripParens(e)
			switch x := e.(type) {
			case *ast.UnaryExpr:
				if x.Op == token.NOT {
					v, ok := eval(x.X)
					return !v, ok
				}
			case *ast.BinaryExpr:
				switch x.Op {
				case token.LAND, token.LOR:
					a, ok1 := eval(x.X)
					b, ok2 := eval(x.Y)
					if x.Op == token.LAND {
						return a && b, ok1 && ok2
					}
					return a || b, ok1 && ok2
				case token.EQL, token.NEQ:
					var other ast.Expr
					if isKindExpr(x.X) {
						other = x.Y
					} else if isKindExpr(x.Y) {
						other = x.X
					}
					if other != nil {
						if c, ok := objOf(info, other).(*types.Const); ok {
							eq := constant.Compare(c.Val(), token.EQL, k.Val())
							if x.Op == token.NEQ {
								return !eq, true
							}
							return eq, true
						}
					}
				}
			}
			return false, false
		}
		reaches := true
		for _, st := range f.Decl.Body.List {
			if pos.IsValid() && st.Pos() > pos {
				break
			}
			if pos.IsValid() && st.Pos() <= pos && pos <= st.End() {
				break // the statement containing the call
			}
			switch x := st.(type) {
			case *ast.SwitchStmt:
				if x.Tag == nil || !isKindExpr(x.Tag) {
					continue
				}
				var chosen *ast.CaseClause
				var deflt *ast.CaseClause
				for _, c := range x.Body.List {
					cc := c.(*ast.CaseClause)
					if cc.List == nil {
						deflt = cc
					}
					for _, e := range cc.List {
						if c, ok := objOf(info, e).(*types.Const); ok && constant.Compare(c.Val(), token.EQL, k.Val()) {
							chosen = cc
						}
					}
				}
				if chosen == nil {
					chosen = deflt
				}
				if chosen != nil && leaves(chosen.Body) {
					reaches = false
				}
			case *ast.IfStmt:
				mentionsKind := false
				ast.Inspect(x.Cond, func(n ast.Node) bool {
					if e, ok := n.(ast.Expr); ok && isKindExpr(e) {
						mentionsKind = true
					}
					return true
				})
				if !mentionsKind {
					continue
				}
				v, ok := eval(x.Cond)
				if !ok {
					decidable = false
					continue
				}
				if v && leaves(x.Body.List) {
					reaches = false
				}
				if !v && x.Else != nil {
					if eb, ok := x.Else.(*ast.BlockStmt); ok && leaves(eb.List) {
						reaches = false
					}
				}
			}
			if !reaches {
				break
			}
		}
		if reaches {
			out[k.Name()] = true
		}
	}
	return out, decidable
}
