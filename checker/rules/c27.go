package rules

import (
	"fmt"
	"go/ast"
	"go/constant"
	"go/token"
	"go/types"
	"sort"
	"strings"

	"verif/checker/core"
)

func init() { Registry["C27"] = checkC27 }

// C27 — format detection and version headers are handled consistently.
func checkC27(r *core.Run, p *core.Program) {
	r.Rule("C27.dispatch", "every switch over a document's first byte in package ce has exactly the cases {first characters of the CTE lexer's VERSION token} -> a cte constructor and {cbe.CBESignatureByte} -> a cbe constructor, and a default that yields an error; sibling choosers agree.")
	r.Rule("C27.peek", "a universal entry point inspects the first byte without consuming it: document[0] only under an empty-document guard that returns an error, Peek(1) with its error checked; the same reader/slice that was inspected is handed to the chosen decoder.")
	r.Rule("C27.version-map", "every decoder call of OnVersion applies the same pre-release normalisation (1 -> version.ConciseEncodingVersion) and nothing else; the validator's VersionRule rejects every version different from ConciseEncodingVersion; the lexer's CTE_VERSION set equals {0,1}.")
	r.Rule("C27.write-version", "every OnVersion call made by the marshaling side passes version.ConciseEncodingVersion (== 0), encoders write the version argument unchanged, the CBE encoder writes CBESignatureByte and the CBE decoder compares against the same constant, the CTE encoder writes a header letter of the lexer's VERSION token.")
	r.NotDecide("equality of results between universal and format-specific entry points for arbitrary documents (follows from the delegation that is checked)")

	ce := p.Pkg("ce")
	info := ce.TypesInfo
	a := newAnalysis(p)

	g, gerr := LoadLexerGrammar(p.RepoDir)
	var cteFirst map[rune]bool
	if gerr != nil {
		r.Undecided("C27.dispatch", "codegen/cte/CTELexer.g4 ("+gerr.Error()+")")
	} else {
		cteFirst = g.FirstASCII("VERSION")
		if len(cteFirst) == 0 {
			r.Undecided("C27.dispatch", "lexer token VERSION")
		}
	}
	sigObj, _ := p.Pkg("cbe").Types.Scope().Lookup("CBESignatureByte").(*types.Const)
	if sigObj == nil {
		r.Undecided("C27.dispatch", "cbe.CBESignatureByte")
		return
	}
	sigVal, _ := constant.Int64Val(constant.ToInt(sigObj.Val()))

	// ---- C27.dispatch
	type chooser struct {
		f     *fn
		cases map[int64]string // byte -> format package
	}
	var choosers []chooser
	chooserObjs := map[*types.Func]bool{}
	for _, f := range funcsOf(ce) {
		// an if / else-if chain over `b == K [|| b == K2]` on a byte is read as the equivalent switch
		var synth []*ast.SwitchStmt
		if sw := ifChainAsByteSwitch(info, f.Decl.Body.List); sw != nil {
			synth = append(synth, sw)
		}
		visitSwitch := func(n ast.Node) bool {
			sw, ok := n.(*ast.SwitchStmt)
			if !ok || sw.Tag == nil {
				return true
			}
			bt, ok := info.TypeOf(sw.Tag).Underlying().(*types.Basic)
			if !ok || bt.Kind() != types.Uint8 {
				return true
			}
			ch := chooser{f: f, cases: map[int64]string{}}
			hasDefaultErr := false
			for _, c := range switchTable(info, sw) {
				if c.Default {
					hasDefaultErr = yieldsError(info, c.Body)
					continue
				}
				format := ""
				inspectCalls(info, c.Clause, func(call *ast.CallExpr, cal *types.Func) {
					if cal == nil {
						return
					}
					switch core.Rel(cal.Pkg()) {
					case "cte", "cbe":
						if format == "" {
							format = core.Rel(cal.Pkg())
						} else if format != core.Rel(cal.Pkg()) {
							format = "mixed"
						}
					}
				})
				for _, cv := range c.Consts {
					if cv == nil {
						r.Fail("C27.dispatch", f.Name()+"|non-constant case", c.Clause.Pos(), "case expression is not a constant")
						continue
					}
					v, _ := constant.Int64Val(constant.ToInt(cv))
					ch.cases[v] = format
				}
			}
			choosers = append(choosers, ch)
			chooserObjs[f.Obj] = true
			r.Check("C27.dispatch", f.Name()+"|default-is-error", sw.Pos(), hasDefaultErr,
				"the switch over the first byte has no default clause producing an error: an unknown format would yield a nil decoder")
			// oracle
			var wantCTE []int64
			for c := range cteFirst {
				wantCTE = append(wantCTE, int64(c))
			}
			sort.Slice(wantCTE, func(i, j int) bool { return wantCTE[i] < wantCTE[j] })
			for _, c := range wantCTE {
				got := ch.cases[c]
				r.Check("C27.dispatch", fmt.Sprintf("%s|%q->cte", f.Name(), rune(c)), sw.Pos(), got == "cte",
					fmt.Sprintf("the CTE lexer accepts a document starting with %q (token VERSION) but this chooser maps it to %q", rune(c), orNone(got)))
			}
			got := ch.cases[sigVal]
			r.Check("C27.dispatch", fmt.Sprintf("%s|0x%02x->cbe", f.Name(), sigVal), sw.Pos(), got == "cbe",
				fmt.Sprintf("CBESignatureByte 0x%02x is mapped to %q, expected a cbe constructor", sigVal, orNone(got)))
			var keys []int64
			for k := range ch.cases {
				keys = append(keys, k)
			}
			sort.Slice(keys, func(i, j int) bool { return keys[i] < keys[j] })
			for _, k := range keys {
				if k == sigVal || cteFirst[rune(k)] {
					continue
				}
				r.Fail("C27.dispatch", fmt.Sprintf("%s|extra case 0x%02x", f.Name(), k), sw.Pos(),
					fmt.Sprintf("first byte 0x%02x is dispatched to %s although neither format starts with it", k, ch.cases[k]))
			}
			return true
		}
		ast.Inspect(f.Decl.Body, visitSwitch)
		for _, sw := range synth {
			visitSwitch(sw)
		}
	}
	r.Floor("C27.dispatch", "first-byte switches in package ce", len(choosers), 2)
	r.Count("C27.dispatch choosers", len(choosers))

	// ---- C27.peek
	nEntry := 0
	for _, f := range funcsOf(ce) {
		var chooseCalls []*ast.CallExpr
		inspectCalls(info, f.Decl.Body, func(call *ast.CallExpr, cal *types.Func) {
			if cal != nil && chooserObjs[cal] {
				chooseCalls = append(chooseCalls, call)
			}
		})
		for _, call := range chooseCalls {
			nEntry++
			checkPeek(r, a, f, info, call)
		}
	}
	r.Floor("C27.peek", "universal entry points calling a chooser", nEntry, 4)

	// ---- C27.version-map
	checkVersionMap(r, p, a, g)

	// ---- C27.write-version
	checkWriteVersion(r, p, a, g, sigObj, cteFirst)
}

func orNone(s string) string {
	if s == "" {
		return "nothing"
	}
	return s
}

// yieldsError: the statements assign a non-nil value to an error variable or return a non-nil error / panic.
func yieldsError(info *types.Info, body []ast.Stmt) bool {
	found := false
	for _, s := range body {
		ast.Inspect(s, func(n ast.Node) bool {
			switch n := n.(type) {
			case *ast.AssignStmt:
				for i, lhs := range n.Lhs {
					if t := info.TypeOf(lhs); t != nil && isErrorType(t) && i < len(n.Rhs) {
						if !isNilExpr(info, n.Rhs[i]) {
							found = true
						}
					}
				}
			case *ast.ReturnStmt:
				for _, res := range n.Results {
					if t := info.TypeOf(res); t != nil && isErrorType(t) && !isNilExpr(info, res) {
						found = true
					}
				}
			case *ast.CallExpr:
				if id, ok := n.Fun.(*ast.Ident); ok {
					if b, ok := info.Uses[id].(*types.Builtin); ok && b.Name() == "panic" {
						found = true
					}
				}
			}
			return true
		})
	}
	return found
}

func isErrorType(t types.Type) bool {
	return types.Identical(t, types.Universe.Lookup("error").Type())
}

func isNilExpr(info *types.Info, e ast.Expr) bool {
	tv, ok := info.Types[e]
	return ok && tv.IsNil()
}

// checkPeek verifies one universal entry point (function f calling chooser at call).
func checkPeek(r *core.Run, a *analysis, f *fn, info *types.Info, call *ast.CallExpr) {
	name := f.Name()
	if len(call.Args) == 0 {
		return
	}
	idx, ok := stripConv(info, call.Args[0]).(*ast.IndexExpr)
	if !ok {
		r.Fail("C27.peek", name+"|first-byte", call.Pos(), "the byte handed to the chooser is not an index expression x[0]; shape not recognised")
		return
	}
	if v, ok := constInt(info, idx.Index); !ok || v != 0 {
		r.Fail("C27.peek", name+"|first-byte", call.Pos(), "the byte handed to the chooser is not element 0 of the document")
		return
	}
	base, _ := stripParens(idx.X).(*ast.Ident)
	if base == nil {
		r.Fail("C27.peek", name+"|first-byte", call.Pos(), "indexed expression is not a variable")
		return
	}
	baseObj := info.ObjectOf(base)
	var handed types.Object // the object that must be handed on
	if paramIndex(f.Obj, baseObj) >= 0 {
		// document []byte parameter: needs an emptiness guard before the index
		guarded := false
		ast.Inspect(f.Decl.Body, func(n ast.Node) bool {
			ifs, ok := n.(*ast.IfStmt)
			if !ok || ifs.Pos() > idx.Pos() {
				return true
			}
			if condTestsEmpty(info, ifs.Cond, baseObj) && branchLeaves(a, info, ifs.Body.List) && !(ifs.Body.Pos() <= idx.Pos() && idx.Pos() < ifs.Body.End()) {
				guarded = true
			}
			return true
		})
		r.Check("C27.peek", name+"|empty-document-guard", idx.Pos(), guarded,
			fmt.Sprintf("%s[0] is evaluated without a preceding `len(%s) == 0` guard that returns an error: an empty document panics with index out of range instead of returning an error like the format-specific entry point", base.Name, base.Name))
		handed = baseObj
	} else {
		// must come from Peek on a bufio.Reader, error checked
		var peekRecv types.Object
		var errObj types.Object
		ast.Inspect(f.Decl.Body, func(n ast.Node) bool {
			as, ok := n.(*ast.AssignStmt)
			if !ok || len(as.Rhs) != 1 || len(as.Lhs) != 2 {
				return true
			}
			if id, ok := as.Lhs[0].(*ast.Ident); !ok || info.ObjectOf(id) != baseObj {
				return true
			}
			c, ok := as.Rhs[0].(*ast.CallExpr)
			if !ok {
				return true
			}
			cal := callee(info, c)
			if cal != nil && cal.Name() == "Peek" && typeIs(recvType(cal), "bufio", "Reader") {
				if sel, ok := c.Fun.(*ast.SelectorExpr); ok {
					peekRecv = objOf(info, sel.X)
				}
				if id, ok := as.Lhs[1].(*ast.Ident); ok {
					errObj = info.ObjectOf(id)
				}
			}
			return true
		})
		if peekRecv == nil {
			r.Fail("C27.peek", name+"|peek", idx.Pos(), "the inspected byte does not come from bufio.Reader.Peek: the first byte may be consumed before the format decoder sees it")
			return
		}
		errChecked := false
		ast.Inspect(f.Decl.Body, func(n ast.Node) bool {
			ifs, ok := n.(*ast.IfStmt)
			if !ok || ifs.Pos() > idx.Pos() || errObj == nil {
				return true
			}
			if mentionsObj(info, ifs.Cond, errObj) && branchLeaves(a, info, ifs.Body.List) {
				errChecked = true
			}
			return true
		})
		r.Check("C27.peek", name+"|peek-error-checked", idx.Pos(), errChecked,
			"the error of Peek(1) is not checked before indexing the peeked slice: an empty stream panics")
		handed = peekRecv
	}
	// the chosen object's method must receive `handed`
	var chosen types.Object
	ast.Inspect(f.Decl.Body, func(n ast.Node) bool {
		as, ok := n.(*ast.AssignStmt)
		if ok && len(as.Rhs) == 1 && as.Rhs[0] == call && len(as.Lhs) >= 1 {
			chosen = objOf(info, as.Lhs[0])
		}
		return true
	})
	okHand, sawCall := false, false
	var callPos token.Pos
	ast.Inspect(f.Decl.Body, func(n ast.Node) bool {
		c, ok := n.(*ast.CallExpr)
		if !ok {
			return true
		}
		sel, ok := c.Fun.(*ast.SelectorExpr)
		if !ok || chosen == nil || objOf(info, sel.X) != chosen {
			return true
		}
		sawCall = true
		callPos = c.Pos()
		if len(c.Args) > 0 && objOf(info, stripParens(c.Args[0])) == handed {
			okHand = true
		}
		return true
	})
	if !sawCall {
		r.Fail("C27.peek", name+"|delegates", call.Pos(), "the chosen decoder/unmarshaler is never invoked")
		return
	}
	r.Check("C27.peek", name+"|hands-on-inspected-source", callPos, okHand,
		"the chosen decoder/unmarshaler is not given the very reader/slice whose first byte was inspected (bytes would be lost or re-read)")
}

func recvType(f *types.Func) types.Type {
	sig, _ := f.Type().(*types.Signature)
	if sig == nil || sig.Recv() == nil {
		return nil
	}
	return sig.Recv().Type()
}

func mentionsObj(info *types.Info, e ast.Node, obj types.Object) bool {
	found := false
	ast.Inspect(e, func(n ast.Node) bool {
		if id, ok := n.(*ast.Ident); ok && info.ObjectOf(id) == obj {
			found = true
		}
		return true
	})
	return found
}

// condTestsEmpty: cond is len(x) == 0, len(x) < 1, 0 == len(x), len(x) <= 0 (possibly inside ||).
func condTestsEmpty(info *types.Info, cond ast.Expr, obj types.Object) bool {
	cond = stripParens(cond)
	be, ok := cond.(*ast.BinaryExpr)
	if !ok {
		return false
	}
	if be.Op == token.LOR {
		return condTestsEmpty(info, be.X, obj) || condTestsEmpty(info, be.Y, obj)
	}
	isLen := func(e ast.Expr) bool {
		c, ok := stripParens(e).(*ast.CallExpr)
		if !ok || len(c.Args) != 1 {
			return false
		}
		id, ok := c.Fun.(*ast.Ident)
		if !ok {
			return false
		}
		if b, ok := info.Uses[id].(*types.Builtin); !ok || b.Name() != "len" {
			return false
		}
		return objOf(info, stripParens(c.Args[0])) == obj
	}
	cv := func(e ast.Expr) (int64, bool) { return constInt(info, e) }
	if isLen(be.X) {
		if k, ok := cv(be.Y); ok {
			return (be.Op == token.EQL && k == 0) || (be.Op == token.LSS && k == 1) || (be.Op == token.LEQ && k == 0)
		}
	}
	if isLen(be.Y) {
		if k, ok := cv(be.X); ok {
			return (be.Op == token.EQL && k == 0) || (be.Op == token.GTR && k == 1) || (be.Op == token.GEQ && k == 0)
		}
	}
	return false
}

// branchLeaves: the branch ends in return or panic.
func branchLeaves(a *analysis, info *types.Info, body []ast.Stmt) bool {
	if len(body) == 0 {
		return false
	}
	if a.alwaysPanics(info, body) {
		return true
	}
	_, ok := body[len(body)-1].(*ast.ReturnStmt)
	return ok
}

// checkVersionMap: decoders normalise the version identically.
func checkVersionMap(r *core.Run, p *core.Program, a *analysis, g *Grammar) {
	verConst, _ := p.Pkg("version").Types.Scope().Lookup("ConciseEncodingVersion").(*types.Const)
	if verConst == nil {
		r.Undecided("C27.version-map", "version.ConciseEncodingVersion")
		return
	}
	verVal, _ := constant.Int64Val(constant.ToInt(verConst.Val()))
	sites := 0
	for _, rel := range []string{"cbe", "cte"} {
		pkg := p.Pkg(rel)
		info := pkg.TypesInfo
		for _, f := range funcsOf(pkg) {
			if f.Decl.Name.Name == "OnVersion" {
				continue // encoders
			}
			inspectCalls(info, f.Decl.Body, func(call *ast.CallExpr, cal *types.Func) {
				if cal == nil || cal.Name() != "OnVersion" || !typeIs(recvType(cal), "ce/events", "DataEventReceiver") {
					return
				}
				sites++
				m, ok := versionNormalisation(p, info, f, call)
				name := f.Name()
				if !ok {
					r.Fail("C27.version-map", name+"|normalisation", call.Pos(), "cannot determine how the decoded version is normalised before OnVersion (shape not recognised)")
					return
				}
				to, has := m[1]
				r.Check("C27.version-map", name+"|1->current", call.Pos(), has && to == verVal,
					fmt.Sprintf("this decoder does not map the pre-release version 1 to version %d before OnVersion (the validator then rejects it) although its sibling decoder does: the two formats do not accept 0 and 1 alike; found map %v", verVal, m))
				for from, to := range m {
					if from == 1 {
						continue
					}
					r.Fail("C27.version-map", fmt.Sprintf("%s|extra %d->%d", name, from, to), call.Pos(),
						fmt.Sprintf("version %d is rewritten to %d: a version other than 0/1 would be accepted", from, to))
				}
			})
		}
	}
	r.Floor("C27.version-map", "decoder OnVersion sites", sites, 2)

	// the CBE version field is one ULEB128 number: the reader must consume it with exactly one ULEB128 read and
	// nothing else (a second/partial read would mis-read multi-byte versions such as 0x85 0x01 as version 1)
	if f := findFn(p, "cbe", "Reader.ReadVersion"); f == nil {
		r.Undecided("C27.version-map", "cbe.Reader.ReadVersion")
	} else {
		reads := 0
		other := ""
		inspectCalls(f.Pkg.TypesInfo, f.Decl.Body, func(call *ast.CallExpr, cal *types.Func) {
			if cal == nil {
				return
			}
			if rn := recvNamed(cal); rn != nil && rn.Obj().Name() == "Reader" {
				if cal.Name() == "readSmallULEB128" {
					reads++
				} else {
					other = cal.Name()
				}
			}
			if cal.Name() == "Read" {
				other = "Read"
			}
		})
		r.Check("C27.version-map", "cbe.Reader.ReadVersion|single ULEB128 read", f.Decl.Pos(), reads == 1 && other == "",
			fmt.Sprintf("the version field must be consumed by exactly one ULEB128 read; found %d ULEB128 reads and an additional %q: multi-byte version numbers are mis-read and wrongly accepted", reads, other))
	}
	// the CTE version digits are parsed from the header text without its letter: versionStr[1:]
	if f := findFn(p, "cte", "cteListener.ExitVersion"); f != nil {
		okSlice := false
		ast.Inspect(f.Decl.Body, func(n ast.Node) bool {
			if sl, ok := n.(*ast.SliceExpr); ok && sl.Low != nil && sl.High == nil {
				if k, isC := constInt(f.Pkg.TypesInfo, sl.Low); isC && k == 1 {
					okSlice = true
				}
			}
			return true
		})
		r.Check("C27.version-map", "cte.cteListener.ExitVersion|skips exactly the header letter", f.Decl.Pos(), okSlice, "the version number must be parsed from the header text after exactly one header letter")
	}

	// validator: VersionRule.OnVersion rejects != expected; expected assigned from the constant only
	rules := p.Pkg("rules")
	vr := findFn(p, "rules", "VersionRule.OnVersion")
	if vr == nil {
		r.Undecided("C27.version-map", "rules.VersionRule.OnVersion")
	} else {
		info := rules.TypesInfo
		okGuard := false
		sig := vr.Obj.Type().(*types.Signature)
		var verParam types.Object
		for i := 0; i < sig.Params().Len(); i++ {
			if b, ok := sig.Params().At(i).Type().Underlying().(*types.Basic); ok && b.Kind() == types.Uint64 {
				verParam = sig.Params().At(i)
			}
		}
		ast.Inspect(vr.Decl.Body, func(n ast.Node) bool {
			ifs, ok := n.(*ast.IfStmt)
			if !ok {
				return true
			}
			be, ok := stripParens(ifs.Cond).(*ast.BinaryExpr)
			if !ok || be.Op != token.NEQ {
				return true
			}
			x, y := be.X, be.Y
			if objOf(info, stripParens(y)) == verParam {
				x, y = y, x
			}
			if objOf(info, stripParens(x)) != verParam {
				return true
			}
			if expectedVersionExpr(p, info, y, verConst) && a.alwaysPanics(info, ifs.Body.List) {
				okGuard = true
			}
			return true
		})
		// the same guard written the other way round: `if version == expected { …; return }; panic(…)`
		resolveLocal := func(e ast.Expr) ast.Expr {
			if id, ok := stripParens(e).(*ast.Ident); ok {
				if init := singleInit(info, vr, info.ObjectOf(id)); init != nil {
					return init
				}
			}
			return e
		}
		ast.Inspect(vr.Decl.Body, func(n ast.Node) bool {
			blk, ok := n.(*ast.BlockStmt)
			if !ok {
				return true
			}
			for i, st := range blk.List {
				ifs, ok := st.(*ast.IfStmt)
				if !ok || ifs.Else != nil || len(ifs.Body.List) == 0 {
					continue
				}
				be, ok := stripParens(ifs.Cond).(*ast.BinaryExpr)
				if !ok || be.Op != token.EQL {
					continue
				}
				x, y := be.X, be.Y
				if objOf(info, stripParens(y)) == verParam {
					x, y = y, x
				}
				if objOf(info, stripParens(x)) != verParam {
					continue
				}
				if _, isRet := ifs.Body.List[len(ifs.Body.List)-1].(*ast.ReturnStmt); !isRet {
					continue
				}
				if expectedVersionExpr(p, info, resolveLocal(y), verConst) && a.alwaysPanics(info, blk.List[i+1:]) {
					okGuard = true
				}
			}
			return true
		})
		r.Check("C27.version-map", "rules.VersionRule.OnVersion|reject-other-versions", vr.Decl.Pos(), okGuard,
			"VersionRule.OnVersion has no `version != <ConciseEncodingVersion> => reject` guard: other versions would be accepted")
	}
	if g != nil {
		set := g.ASCIISetOf("CTE_VERSION")
		var got []string
		for c := range set {
			got = append(got, string(c))
		}
		sort.Strings(got)
		r.Check("C27.version-map", "CTELexer.g4|CTE_VERSION", token.NoPos, strings.Join(got, "") == "01",
			"the lexer's CTE_VERSION set is {"+strings.Join(got, ",")+"}, expected {0,1}")
	}
}

// expectedVersionExpr: e is version.ConciseEncodingVersion or a Context field that is only ever assigned that constant.
func expectedVersionExpr(p *core.Program, info *types.Info, e ast.Expr, verConst *types.Const) bool {
	e = stripConv(info, e)
	if objOf(info, e) == verConst {
		return true
	}
	fld := fieldOf(info, e)
	if fld == nil {
		return false
	}
	// every assignment to the field in the module assigns the constant
	n, good := 0, 0
	for _, pkg := range p.Pkgs {
		for _, file := range pkg.Syntax {
			ast.Inspect(file, func(nd ast.Node) bool {
				as, ok := nd.(*ast.AssignStmt)
				if !ok {
					return true
				}
				for i, lhs := range as.Lhs {
					if fieldOf(pkg.TypesInfo, lhs) == fld && i < len(as.Rhs) {
						n++
						if objOf(pkg.TypesInfo, stripConv(pkg.TypesInfo, as.Rhs[i])) == verConst {
							good++
						}
					}
				}
				return true
			})
		}
	}
	return n > 0 && n == good
}

// versionNormalisation returns the constant rewrites applied to the OnVersion argument in function f:
// `if v == K1 { v = K2 }` before the call. A helper call as argument is followed one level.
func versionNormalisation(p *core.Program, info *types.Info, f *fn, call *ast.CallExpr) (map[int64]int64, bool) {
	m := map[int64]int64{}
	if len(call.Args) != 1 {
		return nil, false
	}
	arg := stripConv(info, call.Args[0])
	var body *ast.BlockStmt = f.Decl.Body
	var v types.Object
	limit := call.Pos()
	switch e := arg.(type) {
	case *ast.Ident:
		v = info.ObjectOf(e)
	case *ast.CallExpr:
		// helper: normalisation may live inside a module function taking/returning the version
		cal := callee(info, e)
		if cal == nil || !core.InModule(cal) {
			return m, true
		}
		fd := p.FuncDecl(cal)
		if fd == nil || fd.Body == nil {
			return m, true
		}
		hinfo := p.Pkgs[core.Rel(cal.Pkg())].TypesInfo
		// collect `if x == K1 { x = K2 }` or `if x == K1 { return K2 }` for any local x
		collectNormalisations(hinfo, fd.Body, nil, token.Pos(1<<40), m)
		return m, true
	default:
		return nil, false
	}
	collectNormalisations(info, body, v, limit, m)
	return m, true
}

func collectNormalisations(info *types.Info, body *ast.BlockStmt, v types.Object, limit token.Pos, m map[int64]int64) {
	ast.Inspect(body, func(n ast.Node) bool {
		ifs, ok := n.(*ast.IfStmt)
		if !ok || ifs.Pos() > limit {
			return true
		}
		be, ok := stripParens(ifs.Cond).(*ast.BinaryExpr)
		if !ok || be.Op != token.EQL {
			return true
		}
		x, y := stripConv(info, be.X), stripConv(info, be.Y)
		if _, isConst := constInt(info, x); isConst {
			x, y = y, x
		}
		k1, ok := constInt(info, y)
		if !ok {
			return true
		}
		xo := objOf(info, x)
		if xo == nil || (v != nil && xo != v) {
			return true
		}
		for _, s := range ifs.Body.List {
			switch s := s.(type) {
			case *ast.AssignStmt:
				if len(s.Lhs) == 1 && len(s.Rhs) == 1 && objOf(info, s.Lhs[0]) == xo {
					if k2, ok := constInt(info, s.Rhs[0]); ok {
						m[k1] = k2
					}
				}
			case *ast.ReturnStmt:
				if v == nil && len(s.Results) == 1 {
					if k2, ok := constInt(info, s.Results[0]); ok {
						m[k1] = k2
					}
				}
			}
		}
		return true
	})
}

func checkWriteVersion(r *core.Run, p *core.Program, a *analysis, g *Grammar, sigObj *types.Const, cteFirst map[rune]bool) {
	verConst, _ := p.Pkg("version").Types.Scope().Lookup("ConciseEncodingVersion").(*types.Const)
	if verConst == nil {
		return
	}
	verVal, _ := constant.Int64Val(constant.ToInt(verConst.Val()))
	r.Check("C27.write-version", "version.ConciseEncodingVersion==0", verConst.Pos(), verVal == 0,
		fmt.Sprintf("ConciseEncodingVersion is %d; every encoder must write version 0", verVal))
	n := 0
	for _, rel := range []string{"iterator", "builder", "ce", "rules", "."} {
		pkg := p.Pkg(rel)
		if pkg == nil {
			continue
		}
		info := pkg.TypesInfo
		for _, f := range funcsOf(pkg) {
			if f.Decl.Name.Name == "OnVersion" {
				continue // receivers that forward their own parameter are covered by C15
			}
			inspectCalls(info, f.Decl.Body, func(call *ast.CallExpr, cal *types.Func) {
				if cal == nil || cal.Name() != "OnVersion" || len(call.Args) != 1 {
					return
				}
				n++
				okc := objOf(info, stripConv(info, call.Args[0])) == verConst
				r.Check("C27.write-version", f.Name()+"|OnVersion-argument", call.Pos(), okc,
					"OnVersion is called with "+exprStr(call.Args[0])+" instead of version.ConciseEncodingVersion")
			})
		}
	}
	r.Floor("C27.write-version", "marshal-side OnVersion calls", n, 1)

	// encoders write the parameter unchanged
	for _, spec := range []struct{ rel, typ string }{{"cbe", "Encoder"}, {"cte", "EncoderEventReceiver"}} {
		f := findFn(p, spec.rel, spec.typ+".OnVersion")
		if f == nil {
			r.Undecided("C27.write-version", spec.rel+"."+spec.typ+".OnVersion")
			continue
		}
		info := f.Pkg.TypesInfo
		param := f.Obj.Type().(*types.Signature).Params().At(0)
		calls, passes := 0, 0
		inspectCalls(info, f.Decl.Body, func(call *ast.CallExpr, cal *types.Func) {
			if cal == nil {
				return
			}
			calls++
			for _, arg := range call.Args {
				if objOf(info, stripParens(arg)) == param {
					passes++
				}
			}
		})
		reassigned := false
		ast.Inspect(f.Decl.Body, func(n ast.Node) bool {
			switch s := n.(type) {
			case *ast.AssignStmt:
				for _, lhs := range s.Lhs {
					if objOf(info, lhs) == param {
						reassigned = true
					}
				}
			case *ast.IncDecStmt:
				if objOf(info, s.X) == param {
					reassigned = true
				}
			}
			return true
		})
		r.Check("C27.write-version", f.Name()+"|writes-its-argument", f.Decl.Pos(), calls >= 1 && passes >= 1 && !reassigned,
			"the encoder's OnVersion does not hand its version parameter unchanged to the writer")
	}
	// signature byte on both sides
	enc := findFn(p, "cbe", "Encoder.OnBeginDocument")
	if enc == nil {
		r.Undecided("C27.write-version", "cbe.Encoder.OnBeginDocument")
	} else {
		info := enc.Pkg.TypesInfo
		okSig := false
		inspectCalls(info, enc.Decl.Body, func(call *ast.CallExpr, cal *types.Func) {
			for _, arg := range call.Args {
				if objOf(info, stripConv(info, arg)) == sigObj {
					okSig = true
				}
			}
		})
		r.Check("C27.write-version", enc.Name()+"|writes-signature", enc.Decl.Pos(), okSig, "the CBE encoder does not write CBESignatureByte at document begin")
	}
	dec := findFn(p, "cbe", "Decoder.Decode")
	if dec == nil {
		r.Undecided("C27.write-version", "cbe.Decoder.Decode")
	} else {
		info := dec.Pkg.TypesInfo
		okSig := false
		// the header may be read and checked in an unexported helper method of the decoder
		bodies := []ast.Node{dec.Decl.Body}
		inspectCalls(info, dec.Decl.Body, func(call *ast.CallExpr, cal *types.Func) {
			if cal != nil && !cal.Exported() && cal.Pkg() == dec.Pkg.Types && recvNamed(cal) != nil && recvNamed(cal) == recvNamed(dec.Obj) {
				if hd := p.FuncDecl(cal); hd != nil && hd.Body != nil {
					bodies = append(bodies, hd.Body)
				}
			}
		})
		for _, body := range bodies {
			ast.Inspect(body, func(n ast.Node) bool {
				ifs, ok := n.(*ast.IfStmt)
				if !ok {
					return true
				}
				be, ok := stripParens(ifs.Cond).(*ast.BinaryExpr)
				if ok && be.Op == token.NEQ && (objOf(info, stripConv(info, be.X)) == sigObj || objOf(info, stripConv(info, be.Y)) == sigObj) && a.alwaysPanics(info, ifs.Body.List) {
					okSig = true
				}
				return true
			})
		}
		r.Check("C27.write-version", dec.Name()+"|checks-signature", dec.Decl.Pos(), okSig, "the CBE decoder does not reject a first byte different from CBESignatureByte")
	}
	cteEnc := findFn(p, "cte", "EncoderEventReceiver.OnBeginDocument")
	if cteEnc == nil {
		r.Undecided("C27.write-version", "cte.EncoderEventReceiver.OnBeginDocument")
	} else if cteFirst != nil {
		info := cteEnc.Pkg.TypesInfo
		okHdr, seen := false, ""
		inspectCalls(info, cteEnc.Decl.Body, func(call *ast.CallExpr, cal *types.Func) {
			for _, arg := range call.Args {
				if v, ok := constInt(info, arg); ok && info.TypeOf(arg) != nil {
					if b, ok := info.TypeOf(arg).Underlying().(*types.Basic); ok && (b.Kind() == types.Uint8 || b.Kind() == types.Int32 || b.Kind() == types.UntypedRune) {
						seen = fmt.Sprintf("%q", rune(v))
						if cteFirst[rune(v)] {
							okHdr = true
						}
					}
				}
			}
		})
		r.Check("C27.write-version", cteEnc.Name()+"|writes-header-letter", cteEnc.Decl.Pos(), okHdr,
			"the CTE encoder's document header letter "+seen+" is not a first character of the lexer's VERSION token")
	}
}

// ifChainAsByteSwitch reads a top-level `if b == K1 || b == K2 { A } else if b == K3 { B } else { D }` chain (or
// guards that return, followed by the default statements) over one byte-typed variable as the switch
// `switch b { case K1, K2: A; case K3: B; default: D }`; nil when the statements are not of that form.
func ifChainAsByteSwitch(info *types.Info, list []ast.Stmt) *ast.SwitchStmt {
	cases, ok := orderedCases(list)
	if !ok || len(cases) < 2 {
		// the chain may be one statement among others (a trailing `return` of named results)
		ok = false
		for _, st := range list {
			if ifs, isIf := st.(*ast.IfStmt); isIf && ifs.Else != nil {
				if cs, ok2 := orderedCases([]ast.Stmt{ifs}); ok2 && len(cs) >= 2 {
					cases, ok = cs, true
					break
				}
			}
		}
		if !ok {
			return nil
		}
	}
	var tag ast.Expr
	sw := &ast.SwitchStmt{Switch: list[0].Pos(), Body: &ast.BlockStmt{Lbrace: list[0].Pos()}}
	for _, c := range cases {
		cc := &ast.CaseClause{Case: c.Pos, Colon: c.Pos, Body: c.Body}
		if c.List != nil {
			if len(c.List) != 1 {
				return nil
			}
			good := true
			var walk func(e ast.Expr)
			walk = func(e ast.Expr) {
				e = stripParens(e)
				be, isBin := e.(*ast.BinaryExpr)
				if !isBin {
					good = false
					return
				}
				switch be.Op {
				case token.LOR:
					walk(be.X)
					walk(be.Y)
				case token.EQL:
					x, k := be.X, be.Y
					if constVal(info, x) != nil {
						x, k = k, x
					}
					if constVal(info, k) == nil || objOf(info, x) == nil {
						good = false
						return
					}
					if tag != nil && objOf(info, tag) != objOf(info, x) {
						good = false
						return
					}
					tag = x
					cc.List = append(cc.List, k)
				default:
					good = false
				}
			}
			walk(c.List[0])
			if !good {
				return nil
			}
		}
		sw.Body.List = append(sw.Body.List, cc)
	}
	if tag == nil {
		return nil
	}
	if bt, ok := info.TypeOf(tag).Underlying().(*types.Basic); !ok || bt.Kind() != types.Uint8 {
		return nil
	}
	sw.Tag = tag
	return sw
}
