package rules

// E6 (boundary part): which public entry points convert panics into returned errors.

import (
	"go/ast"
	"go/token"
	"go/types"
	"sort"
	"strings"

	"verif/checker/core"
)

// entryPoints: exported functions/methods of ce, cbe, cte whose last result is error and whose name starts with
// Marshal, Unmarshal or Decode — the error-returning public API. (The event-level API — Encoder.On*, rules.On*,
// cte.ParseDocument — is documented as panicking and is reached only through these.)
func entryPoints(p *core.Program) []*fn {
	var out []*fn
	for _, rel := range []string{"ce", "cbe", "cte"} {
		for _, f := range funcsOf(p.Pkg(rel)) {
			if !f.Obj.Exported() {
				continue
			}
			if rn := recvNamed(f.Obj); rn != nil && !rn.Obj().Exported() {
				continue
			}
			sig := f.Obj.Type().(*types.Signature)
			if sig.Results().Len() == 0 || !isErrorType(sig.Results().At(sig.Results().Len()-1).Type()) {
				continue
			}
			n := f.Obj.Name()
			if strings.HasPrefix(n, "Marshal") || strings.HasPrefix(n, "Unmarshal") || strings.HasPrefix(n, "Decode") {
				out = append(out, f)
			}
		}
	}
	sort.Slice(out, func(i, j int) bool { return out[i].Name() < out[j].Name() })
	return out
}

type recoverFrame struct {
	deferStmt  *ast.DeferStmt
	guardedBy  string // "" or "PassThroughPanics"
	assignsErr bool   // the named error result is assigned on every non-nil recover
	firstStmt  bool   // the frame is installed before anything else runs
	problem    string
}

// findRecoverFrame looks for `defer func(){ if r := recover(); r != nil { … err = … } }()` in either accepted form.
func findRecoverFrame(info *types.Info, f *fn) *recoverFrame {
	sig := f.Obj.Type().(*types.Signature)
	var errRes *types.Var
	for i := 0; i < sig.Results().Len(); i++ {
		if isErrorType(sig.Results().At(i).Type()) && sig.Results().At(i).Name() != "" {
			errRes = sig.Results().At(i)
		}
	}
	body := f.Decl.Body.List
	if len(body) == 0 {
		return nil
	}
	analyse := func(d *ast.DeferStmt, guard string, first bool) *recoverFrame {
		var inner []ast.Stmt
		// what counts as the error result inside the deferred code: the named result itself in a closure, `*p` in a
		// named helper that is deferred with `&err` (recover() works there: the helper is the deferred function)
		isErrTarget := func(e ast.Expr) bool { return errRes != nil && objOf(info, e) == errRes }
		if lit, ok := d.Call.Fun.(*ast.FuncLit); ok {
			inner = lit.Body.List
		} else {
			cal := callee(info, d.Call)
			if cal == nil || cal.Pkg() != f.Pkg.Types {
				return nil
			}
			var decl *ast.FuncDecl
			for _, file := range f.Pkg.Syntax {
				for _, dd := range file.Decls {
					if fd, ok := dd.(*ast.FuncDecl); ok && info.Defs[fd.Name] == cal && fd.Body != nil {
						decl = fd
					}
				}
			}
			if decl == nil {
				return nil
			}
			var ptrParam *types.Var
			csig := cal.Type().(*types.Signature)
			for i, arg := range d.Call.Args {
				if u, ok := stripParens(arg).(*ast.UnaryExpr); ok && u.Op == token.AND && errRes != nil && objOf(info, u.X) == errRes && i < csig.Params().Len() {
					ptrParam = csig.Params().At(i)
				}
			}
			inner = decl.Body.List
			isErrTarget = func(e ast.Expr) bool {
				st, ok := stripParens(e).(*ast.StarExpr)
				return ok && ptrParam != nil && objOf(info, st.X) == ptrParam
			}
		}
		fr := &recoverFrame{deferStmt: d, guardedBy: guard, firstStmt: first}
		// optional `if !cfg.Debug.PassThroughPanics { … }` wrapper inside the closure
		if len(inner) == 1 {
			if ifs, ok := inner[0].(*ast.IfStmt); ok && ifs.Init == nil && mentionsName(ifs.Cond, "PassThroughPanics") {
				fr.guardedBy = "PassThroughPanics"
				inner = ifs.Body.List
			}
		}
		// or `if cfg.Debug.PassThroughPanics { return }` in front of the recover test
		if len(inner) == 2 {
			if ifs, ok := inner[0].(*ast.IfStmt); ok && ifs.Init == nil && ifs.Else == nil && mentionsName(ifs.Cond, "PassThroughPanics") && len(ifs.Body.List) == 1 {
				if ret, isRet := ifs.Body.List[0].(*ast.ReturnStmt); isRet && len(ret.Results) == 0 {
					if u, isNot := stripParens(ifs.Cond).(*ast.UnaryExpr); !isNot || u.Op != token.NOT {
						fr.guardedBy = "PassThroughPanics"
						inner = inner[1:]
					}
				}
			}
		}
		if len(inner) != 1 {
			fr.problem = "deferred closure has an unexpected shape"
			return fr
		}
		ifs, ok := inner[0].(*ast.IfStmt)
		if !ok || ifs.Init == nil {
			fr.problem = "deferred closure does not test recover()"
			return fr
		}
		as, ok := ifs.Init.(*ast.AssignStmt)
		if !ok || len(as.Rhs) != 1 {
			fr.problem = "deferred closure does not test recover()"
			return fr
		}
		call, ok := as.Rhs[0].(*ast.CallExpr)
		if !ok {
			return nil
		}
		if id, ok := call.Fun.(*ast.Ident); !ok || id.Name != "recover" {
			return nil
		}
		if _, isB := info.Uses[call.Fun.(*ast.Ident)].(*types.Builtin); !isB {
			return nil
		}
		rObj := objOf(info, as.Lhs[0])
		be, ok := stripParens(ifs.Cond).(*ast.BinaryExpr)
		if !ok || be.Op != token.NEQ || objOf(info, be.X) != rObj || !isNilExpr(info, be.Y) {
			fr.problem = "the recover() result is not tested with `!= nil`"
			return fr
		}
		if errRes == nil {
			fr.problem = "the function has no named error result the recovered value could be stored in"
			return fr
		}
		// assigns: every path through the statements stores into the error result
		var assigns func(stmts []ast.Stmt) bool
		assigns = func(stmts []ast.Stmt) bool {
			for _, s := range stmts {
				switch x := s.(type) {
				case *ast.AssignStmt:
					for _, l := range x.Lhs {
						if isErrTarget(l) {
							return true
						}
					}
				case *ast.BlockStmt:
					if assigns(x.List) {
						return true
					}
				case *ast.IfStmt:
					if x.Else != nil && assigns(x.Body.List) {
						switch e := x.Else.(type) {
						case *ast.BlockStmt:
							if assigns(e.List) {
								return true
							}
						case *ast.IfStmt:
							if assigns([]ast.Stmt{e}) {
								return true
							}
						}
					}
				case *ast.TypeSwitchStmt, *ast.SwitchStmt:
					var body *ast.BlockStmt
					if ts, ok := x.(*ast.TypeSwitchStmt); ok {
						body = ts.Body
					} else {
						body = x.(*ast.SwitchStmt).Body
					}
					all, hasDefault := true, false
					for _, c := range body.List {
						cc := c.(*ast.CaseClause)
						if cc.List == nil {
							hasDefault = true
						}
						if !assigns(cc.Body) {
							all = false
						}
					}
					if all && hasDefault {
						return true
					}
				}
			}
			return false
		}
		fr.assignsErr = assigns(ifs.Body.List)
		if !fr.assignsErr {
			fr.problem = "not every non-nil recovered value is stored in the named error result (a panic would be swallowed and success reported)"
		}
		return fr
	}
	switch s := body[0].(type) {
	case *ast.DeferStmt:
		if fr := analyse(s, "", true); fr != nil {
			return fr
		}
	case *ast.IfStmt:
		if s.Init == nil && s.Else == nil && mentionsName(s.Cond, "PassThroughPanics") && len(s.Body.List) == 1 {
			if d, ok := s.Body.List[0].(*ast.DeferStmt); ok {
				if fr := analyse(d, "PassThroughPanics", true); fr != nil {
					return fr
				}
			}
		}
	}
	// a frame installed later than the first statement
	var late *recoverFrame
	ast.Inspect(f.Decl.Body, func(n ast.Node) bool {
		if d, ok := n.(*ast.DeferStmt); ok && late == nil {
			if fr := analyse(d, "", false); fr != nil {
				late = fr
			}
		}
		return true
	})
	return late
}

func mentionsName(n ast.Node, name string) bool {
	found := false
	ast.Inspect(n, func(x ast.Node) bool {
		if id, ok := x.(*ast.Ident); ok && id.Name == name {
			found = true
		}
		return true
	})
	return found
}

// classifyEntry: "protected", "delegating" or "" with a reason.
type boundaryModel struct {
	p      *core.Program
	a      *analysis
	eps    map[*types.Func]*fn
	status map[*types.Func]string
	reason map[*types.Func]string
}

func newBoundaryModel(p *core.Program, a *analysis) *boundaryModel {
	m := &boundaryModel{p: p, a: a, eps: map[*types.Func]*fn{}, status: map[*types.Func]string{}, reason: map[*types.Func]string{}}
	for _, f := range entryPoints(p) {
		m.eps[f.Obj] = f
	}
	return m
}

var safeStdPkgs = map[string]bool{"bufio": true, "bytes": true, "fmt": true, "io": true, "errors": true, "strings": true}

func (m *boundaryModel) classify(f *fn) (string, string) {
	if s, ok := m.status[f.Obj]; ok {
		return s, m.reason[f.Obj]
	}
	m.status[f.Obj] = "delegating" // provisional, for recursion
	info := f.Pkg.TypesInfo
	set := func(s, r string) (string, string) {
		m.status[f.Obj], m.reason[f.Obj] = s, r
		return s, r
	}
	if fr := findRecoverFrame(info, f); fr != nil {
		switch {
		case fr.problem != "":
			return set("", fr.problem)
		case !fr.firstStmt:
			return set("", "the recover frame is not installed as the first statement: code running before it can panic out of the entry point")
		}
		return set("protected", "")
	}
	// delegating: every call must be to another entry point, a constructor/chooser, an interface method whose
	// implementations are entry points, or a stdlib helper
	bad := ""
	inspectCalls(info, f.Decl.Body, func(call *ast.CallExpr, cal *types.Func) {
		if bad != "" {
			return
		}
		if cal == nil {
			if id, ok := call.Fun.(*ast.Ident); ok {
				if _, isB := info.Uses[id].(*types.Builtin); isB {
					if id.Name == "panic" {
						bad = "explicit panic outside any recover frame"
					}
					return
				}
			}
			if tv, ok := info.Types[call.Fun]; ok && tv.IsType() {
				return
			}
			bad = "call through a function value outside any recover frame"
			return
		}
		if !core.InModule(cal) {
			if cal.Pkg() != nil && safeStdPkgs[cal.Pkg().Path()] {
				return
			}
			bad = "call to " + cal.FullName() + " outside any recover frame"
			return
		}
		if g, ok := m.eps[cal]; ok {
			if s, r := m.classify(g); s == "" {
				bad = "delegates to " + g.Name() + ", which is not protected: " + r
			}
			return
		}
		// interface method of ce.Marshaler / Unmarshaler / Decoder: all module implementations must be entry points
		if rt := recvType(cal); rt != nil {
			if it, isI := rt.Underlying().(*types.Interface); isI {
				for _, g := range m.eps {
					if rn := recvNamed(g.Obj); rn != nil && g.Obj.Name() == cal.Name() && types.Implements(types.NewPointer(rn), it) {
						if s, r := m.classify(g); s == "" {
							bad = "may dispatch to " + g.Name() + ", which is not protected: " + r
						}
					}
				}
				return
			}
		}
		name := cal.Name()
		if strings.HasPrefix(name, "New") || strings.HasPrefix(name, "choose") || name == "Init" {
			// constructors: must not be able to panic on their own (no explicit panic reachable through module code)
			if m.a.reaches(cal, func(h *types.Func) bool { return m.a.funcAlwaysPanics(h) }) {
				bad = "constructor " + core.ObjName(cal) + " can reach a panic"
			}
			return
		}
		bad = "calls " + core.ObjName(cal) + " outside any recover frame (not an entry point, constructor or stdlib helper)"
	})
	if bad != "" {
		return set("", bad)
	}
	return set("delegating", "")
}
