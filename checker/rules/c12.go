package rules

import (
	"fmt"
	"go/ast"
	"go/token"
	"go/types"
	"sort"
	"strings"

	"verif/checker/core"
)

func init() { Registry["C12"] = checkC12 }

// keyClass classifies a Go type that can be boxed into a key.
func keyClass(t types.Type) string {
	if nt, ok := t.(*types.Named); ok {
		switch nt.Obj().Name() {
		case "negint":
			return "int"
		case "rid":
			return "rid"
		case "Time":
			return "time"
		}
	}
	if typeIs(t, "math/big", "Int") {
		return "int"
	}
	switch u := t.Underlying().(type) {
	case *types.Basic:
		switch {
		case u.Info()&types.IsInteger != 0:
			return "int"
		case u.Info()&types.IsBoolean != 0:
			return "bool"
		case u.Info()&types.IsString != 0:
			return "string"
		}
	case *types.Slice:
		return "uid"
	case *types.Interface:
		return "iface"
	}
	return "other:" + t.String()
}

func checkC12(r *core.Run, p *core.Program) {
	r.Rule("C12.normalise", "every concrete type that is boxed into a map/record-type key (collected from all calls of EventRule.OnKeyableObject and Context.NotifyKey) and belongs to the integer family has a case in NotifyKey's type switch that rewrites it to the canonical integer key (uint64 when >= 0, int64 when negative and fitting, sign+words array otherwise; the negative-magnitude type must be negated); for *big.Int the uint64 test comes first; non-comparable key types are converted to comparable values.")
	r.Rule("C12.disjoint", "the canonical key representations of different kinds of key (integer, boolean, UID, time, string, resource ID) are pairwise different Go types, so keys that denote different values can never be reported as duplicates of each other.")
	r.Rule("C12.lookup", "NotifyKey looks the canonical key up in the current container's key set, rejects on a hit, and inserts it otherwise; (that every key-position handler reaches NotifyKey and that each container gets a fresh key set is part of the C10 table).")
	r.Rule("C12.routes", "every route by which a key can be completed in a map-key or record-type context (scalar, whole array, string-like array, end of a chunked array, marked key) registers it with NotifyKey in the representation of its kind (string vs resource ID), and a marked key is re-dispatched to the key context with its real data type: the complete rows of MapKeyRule, RecordTypeRule and MarkedObjectKeyableRule equal the reference specification, and the Context helpers they use keep the data type and buffer intact.")
	r.NotDecide("collisions inside one Go type (Go map key equality is trusted); which encodings a codec chooses for a value")

	{
		a0 := newAnalysis(p)
		n := checkTableRows(r, p, a0, "C12.routes", []string{"MapKeyRule", "RecordTypeRule", "MarkedObjectKeyableRule"}, nil)
		r.Floor("C12.routes", "key-context cells", n, 3*23)
		checkCtxPrimitives(r, p, a0, "C12.routes", "endContainerLike", "tryEndArray", "GetBuiltArrayAsString", "AddBuiltArrayBytes", "beginArray", "MarkEndedContainer", "UnstackRule", "BeginArrayKeyable", "ValidateFullArrayKeyable", "ValidateFullArrayStringlikeKeyable")
	}
	pkg := p.Pkg("rules")
	info := pkg.TypesInfo
	nk := findFn(p, "rules", "Context.NotifyKey")
	if nk == nil {
		r.Undecided("C12.normalise", "rules.Context.NotifyKey")
		return
	}
	// K: concrete key types
	K := map[string]types.Type{}
	sites := 0
	for _, f := range funcsOf(pkg) {
		inspectCalls(info, f.Decl.Body, func(call *ast.CallExpr, cal *types.Func) {
			if cal == nil {
				return
			}
			var arg ast.Expr
			if cal == nk.Obj && len(call.Args) == 1 {
				arg = call.Args[0]
			} else if cal.Name() == "OnKeyableObject" && len(call.Args) == 3 && namedOf(recvType(cal)) != nil && namedOf(recvType(cal)).Obj().Name() == "EventRule" {
				arg = call.Args[2]
			} else {
				return
			}
			sites++
			t := info.TypeOf(arg)
			if tv, ok := info.Types[arg]; ok && tv.Value != nil {
				t = types.Default(t)
			}
			if _, isIface := t.Underlying().(*types.Interface); isIface {
				return
			}
			K[types.TypeString(t, func(p *types.Package) string { return p.Name() })] = t
		})
	}
	r.Floor("C12.normalise", "key boxing sites", sites, 20)
	// type switch of NotifyKey
	var ts *ast.TypeSwitchStmt
	ast.Inspect(nk.Decl.Body, func(n ast.Node) bool {
		if s, ok := n.(*ast.TypeSwitchStmt); ok && ts == nil {
			ts = s
		}
		return true
	})
	if ts == nil {
		r.Undecided("C12.normalise", "the type switch in rules.Context.NotifyKey")
		return
	}
	keyParam := nk.Obj.Type().(*types.Signature).Params().At(0)
	caseOf := func(t types.Type) *ast.CaseClause {
		for _, s := range ts.Body.List {
			cc := s.(*ast.CaseClause)
			for _, e := range cc.List {
				if ct := info.TypeOf(e); ct != nil && types.Identical(ct, t) {
					return cc
				}
			}
		}
		return nil
	}
	// canonical types produced for a source type
	var canon func(t types.Type, depth int) map[string]types.Type
	canon = func(t types.Type, depth int) map[string]types.Type {
		out := map[string]types.Type{}
		cc := caseOf(t)
		if cc == nil || depth > 3 {
			out[t.String()] = t
			return out
		}
		assigned := false
		ast.Inspect(cc, func(n ast.Node) bool {
			switch s := n.(type) {
			case *ast.AssignStmt:
				for i, lhs := range s.Lhs {
					if objOf(info, lhs) == keyParam && i < len(s.Rhs) {
						assigned = true
						rt := info.TypeOf(s.Rhs[i])
						out[rt.String()] = rt
					}
				}
			case *ast.CallExpr:
				if callee(info, s) == nk.Obj && len(s.Args) == 1 {
					assigned = true
					for k, v := range canon(info.TypeOf(s.Args[0]), depth+1) {
						out[k] = v
					}
				}
			}
			return true
		})
		if !assigned {
			out[t.String()] = t
		}
		return out
	}
	var names []string
	for n := range K {
		names = append(names, n)
	}
	sort.Strings(names)
	classCanon := map[string]map[string]bool{}
	for _, n := range names {
		t := K[n]
		cls := keyClass(t)
		cs := canon(t, 0)
		if classCanon[cls] == nil {
			classCanon[cls] = map[string]bool{}
		}
		var cnames []string
		for cn, ct := range cs {
			if _, isIface := ct.Underlying().(*types.Interface); isIface {
				continue
			}
			classCanon[cls][cn] = true
			cnames = append(cnames, cn)
		}
		sort.Strings(cnames)
		cc := caseOf(t)
		switch cls {
		case "int":
			isCanon := func() bool {
				b, ok := t.(*types.Basic)
				return ok && b.Kind() == types.Uint64
			}()
			if isCanon {
				r.Pass("C12.normalise", "key type "+n, token.NoPos, "canonical already")
				continue
			}
			if cc == nil {
				r.Fail("C12.normalise", "key type "+n, nk.Decl.Pos(), "integer keys of type "+n+" reach NotifyKey but its type switch has no case for them: the same number delivered in this form and in another integer form is not recognised as a duplicate")
				continue
			}
			okTypes := true
			for _, cn := range cnames {
				if cn != "uint64" && cn != "int64" && !strings.Contains(cn, "big.Word") {
					okTypes = false
				}
			}
			detail := ""
			shapeOK := true
			switch {
			case typeIs(t, "math/big", "Int"):
				// first test must be IsUint64
				first := ""
				ast.Inspect(cc, func(nd ast.Node) bool {
					if ifs, ok := nd.(*ast.IfStmt); ok && first == "" {
						if c, ok := stripParens(ifs.Cond).(*ast.CallExpr); ok {
							if cal := callee(info, c); cal != nil {
								first = cal.Name()
							}
						}
					}
					return true
				})
				if first != "IsUint64" {
					shapeOK, detail = false, "the first test on a *big.Int key must be IsUint64 (values 0..2^63-1 satisfy IsInt64 too and must become uint64)"
				}
			case t.String() == core.ModulePath+"/rules.negint":
				neg := false
				ast.Inspect(cc, func(nd ast.Node) bool {
					switch x := nd.(type) {
					case *ast.UnaryExpr:
						if x.Op == token.SUB {
							neg = true
						}
					case *ast.CallExpr:
						if cal := callee(info, x); cal != nil && cal.Name() == "Neg" {
							neg = true
						}
					}
					return true
				})
				if !neg {
					shapeOK, detail = false, "the negative-magnitude key is not negated before being canonicalised"
				}
			default:
				b, _ := t.Underlying().(*types.Basic)
				if b != nil && b.Info()&types.IsUnsigned == 0 {
					// signed: needs `if v >= 0 { key = uint64(v) }`
					found := false
					ast.Inspect(cc, func(nd ast.Node) bool {
						ifs, ok := nd.(*ast.IfStmt)
						if !ok {
							return true
						}
						be, ok := stripParens(ifs.Cond).(*ast.BinaryExpr)
						if !ok || be.Op != token.GEQ {
							return true
						}
						if k, isC := constInt(info, be.Y); !isC || k != 0 {
							return true
						}
						for _, s := range ifs.Body.List {
							if as, ok := s.(*ast.AssignStmt); ok && len(as.Rhs) == 1 {
								if rt, ok := info.TypeOf(as.Rhs[0]).(*types.Basic); ok && rt.Kind() == types.Uint64 {
									found = true
								}
							}
						}
						return true
					})
					if !found {
						shapeOK, detail = false, "a signed key must become uint64 when >= 0 (`if v >= 0 { key = uint64(v) }`)"
					}
				}
			}
			r.Check("C12.normalise", "key type "+n, cc.Pos(), okTypes && shapeOK,
				fmt.Sprintf("integer key type %s is canonicalised to %v; %s", n, cnames, detail))
		default:
			// comparable?
			comparable := true
			for _, ct := range cs {
				if !types.Comparable(ct) {
					comparable = false
				}
			}
			r.Check("C12.normalise", "key type "+n, nk.Decl.Pos(), comparable, "keys of type "+n+" are stored in the key set without being converted to a comparable value (map insertion panics)")
		}
	}
	// disjointness
	var classes []string
	for c := range classCanon {
		classes = append(classes, c)
	}
	sort.Strings(classes)
	for i, a := range classes {
		for _, b := range classes[i+1:] {
			var shared []string
			for t := range classCanon[a] {
				if classCanon[b][t] {
					shared = append(shared, t)
				}
			}
			sort.Strings(shared)
			r.Check("C12.disjoint", a+" vs "+b, nk.Decl.Pos(), len(shared) == 0,
				fmt.Sprintf("keys of kind %s and keys of kind %s are both stored as Go type %v: a %s and a %s with the same text are reported as duplicate keys although they denote different values", a, b, shared, a, b))
		}
	}
	r.Floor("C12.disjoint", "key kinds", len(classes), 5)
	r.Count("C12 key types", len(K))

	// lookup-before-insert
	lookupPos, insertPos, rejectOK := token.NoPos, token.NoPos, false
	a := newAnalysis(p)
	ast.Inspect(nk.Decl.Body, func(n ast.Node) bool {
		switch s := n.(type) {
		case *ast.IfStmt:
			if as, ok := s.Init.(*ast.AssignStmt); ok && len(as.Rhs) == 1 {
				if ix, ok := as.Rhs[0].(*ast.IndexExpr); ok {
					if fld := fieldOf(info, ix.X); fld != nil && fld.Name() == "Keys" && objOf(info, ix.Index) == keyParam {
						lookupPos = s.Pos()
						if id, ok := stripParens(s.Cond).(*ast.Ident); ok && len(as.Lhs) == 2 && objOf(info, as.Lhs[1]) == info.ObjectOf(id) {
							rejectOK = a.alwaysPanics(info, s.Body.List)
						}
					}
				}
			}
		case *ast.AssignStmt:
			if len(s.Lhs) == 1 {
				if ix, ok := s.Lhs[0].(*ast.IndexExpr); ok {
					if fld := fieldOf(info, ix.X); fld != nil && fld.Name() == "Keys" && objOf(info, ix.Index) == keyParam {
						insertPos = s.Pos()
					}
				}
			}
		}
		return true
	})
	r.Check("C12.lookup", "rules.Context.NotifyKey|lookup-reject-insert", nk.Decl.Pos(),
		lookupPos.IsValid() && insertPos.IsValid() && rejectOK && lookupPos < insertPos && ts.End() < lookupPos,
		"NotifyKey must, after canonicalising, look the key up in CurrentEntry.Keys, reject when present, and insert it otherwise")
}
