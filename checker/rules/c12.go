package rules

import (
	"fmt"
	"go/ast"
	"go/token"
	"go/types"
	"sort"
	"strings"

	"verif/checker/core"
)

func init() { Registry["C12"] = checkC12 }

// keyClass classifies a Go type that can be boxed into a key.
func keyClass(t types.Type) string {
	if nt, ok := t.(*types.Named); ok {
		switch nt.Obj().Name() {
		case "negint":
			return "int"
		case "rid":
			return "rid"
		case "Time":
			return "time"
		}
	}
	if typeIs(t, "math/big", "Int") {
		return "int"
	}
	switch u := t.Underlying().(type) {
	case *types.Basic:
		switch {
		case u.Info()&types.IsInteger != 0:
			return "int"
		case u.Info()&types.IsBoolean != 0:
			return "bool"
		case u.Info()&types.IsString != 0:
			return "string"
		}
	case *types.Slice:
		return "uid"
	case *types.Interface:
		return "iface"
	}
	return "other:" + t.String()
}

func checkC12(r *core.Run, p *core.Program) {
	r.Rule("C12.normalise", "every concrete type that is boxed into a map/record-type key (collected from all calls of EventRule.OnKeyableObject and Context.NotifyKey) and belongs to the integer family has a case in NotifyKey's type switch that rewrites it to the canonical integer key (uint64 when >= 0, int64 when negative and fitting, sign+words array otherwise; the negative-magnitude type must be negated); for *big.Int the uint64 test comes first; non-comparable key types are converted to comparable values.")
	r.Rule("C12.disjoint", "the canonical key representations of different kinds of key (integer, boolean, UID, time, string, resource ID) are pairwise different Go types, so keys that denote different values can never be reported as duplicates of each other.")
	r.Rule("C12.lookup", "NotifyKey looks the canonical key up in the current container's key set, rejects on a hit, and inserts it otherwise; (that every key-position handler reaches NotifyKey and that each container gets a fresh key set is part of the C10 table).")
	r.Rule("C12.routes", "every route by which a key can be completed in a map-key or record-type context (scalar, whole array, string-like array, end of a chunked array, marked key) registers it with NotifyKey in the representation of its kind (string vs resource ID), and a marked key is re-dispatched to the key context with its real data type: the complete rows of MapKeyRule, RecordTypeRule and MarkedObjectKeyableRule equal the reference specification, and the Context helpers they use keep the data type and buffer intact.")
	r.NotDecide("collisions inside one Go type (Go map key equality is trusted); which encodings a codec chooses for a value")

	{
		a0 := newAnalysis(p)
		n := checkTableRows(r, p, a0, "C12.routes", []string{"MapKeyRule", "RecordTypeRule", "MarkedObjectKeyableRule"}, nil)
		r.Floor("C12.routes", "key-context cells", n, 3*23)
		checkCtxPrimitives(r, p, a0, "C12.routes", "endContainerLike", "tryEndArray", "GetBuiltArrayAsString", "AddBuiltArrayBytes", "beginArray", "MarkEndedContainer", "UnstackRule", "BeginArrayKeyable", "ValidateFullArrayKeyable", "ValidateFullArrayStringlikeKeyable")
	}
	pkg := p.Pkg("rules")
	info := pkg.TypesInfo
	nk := findFn(p, "rules", "Context.NotifyKey")
	if nk == nil {
		r.Undecided("C12.normalise", "rules.Context.NotifyKey")
		return
	}
	// K: concrete key types
	K := map[string]types.Type{}
	sites := 0
	// an interface-typed argument that is a parameter of an unexported helper is traced to the helper's call sites
	var addArg func(arg ast.Expr, depth int)
	addArg = func(arg ast.Expr, depth int) {
		t := info.TypeOf(arg)
		if tv, ok := info.Types[arg]; ok && tv.Value != nil {
			t = types.Default(t)
		}
		if _, isIface := t.Underlying().(*types.Interface); isIface {
			pv, isVar := objOf(info, arg).(*types.Var)
			if !isVar || depth > 3 {
				return
			}
			for _, g := range funcsOf(pkg) {
				if g.Obj.Exported() {
					continue
				}
				sig := g.Obj.Type().(*types.Signature)
				for i := 0; i < sig.Params().Len(); i++ {
					if sig.Params().At(i) != pv {
						continue
					}
					for _, h := range funcsOf(pkg) {
						inspectCalls(info, h.Decl.Body, func(call *ast.CallExpr, cal *types.Func) {
							if cal == g.Obj && i < len(call.Args) {
								addArg(call.Args[i], depth+1)
							}
						})
					}
				}
			}
			return
		}
		K[types.TypeString(t, func(p *types.Package) string { return p.Name() })] = t
	}
	for _, f := range funcsOf(pkg) {
		inspectCalls(info, f.Decl.Body, func(call *ast.CallExpr, cal *types.Func) {
			if cal == nil {
				return
			}
			var arg ast.Expr
			if cal == nk.Obj && len(call.Args) == 1 {
				arg = call.Args[0]
			} else if cal.Name() == "OnKeyableObject" && len(call.Args) == 3 && namedOf(recvType(cal)) != nil && namedOf(recvType(cal)).Obj().Name() == "EventRule" {
				arg = call.Args[2]
			} else {
				return
			}
			sites++
			addArg(arg, 0)
			// the Go type of the key agrees with the data type it is announced under
			if cal.Name() == "OnKeyableObject" {
				if dc, ok := objOf(info, call.Args[1]).(*types.Const); ok {
					want := map[string]string{"DataTypeBool": "bool", "DataTypeInt": "int", "DataTypeUID": "uid", "DataTypeTime": "time", "DataTypeString": "string", "DataTypeResourceID": "rid"}[dc.Name()]
					t := info.TypeOf(arg)
					if tv, ok := info.Types[arg]; ok && tv.Value != nil {
						t = types.Default(t)
					}
					if want != "" && keyClass(t) != "iface" {
						r.Check("C12.disjoint", f.Name()+"|key announced as "+dc.Name(), call.Pos(), keyClass(t) == want,
							fmt.Sprintf("a key announced as %s is handed over as a Go %s (kind %q): it is stored in the key set among the keys of that other kind, so a %s and a %s with the same bytes are reported as duplicates of each other", dc.Name(), t.String(), keyClass(t), want, keyClass(t)))
					}
				}
			}
		})
	}
	r.Floor("C12.normalise", "key boxing sites", sites, 12)
	// type switch of NotifyKey
	var ts *ast.TypeSwitchStmt
	ast.Inspect(nk.Decl.Body, func(n ast.Node) bool {
		if s, ok := n.(*ast.TypeSwitchStmt); ok && ts == nil {
			ts = s
		}
		return true
	})
	if ts == nil {
		r.Undecided("C12.normalise", "the type switch in rules.Context.NotifyKey")
		return
	}
	keyParam := nk.Obj.Type().(*types.Signature).Params().At(0)
	caseOf := func(t types.Type) *ast.CaseClause {
		for _, s := range ts.Body.List {
			cc := s.(*ast.CaseClause)
			for _, e := range cc.List {
				if ct := info.TypeOf(e); ct != nil && types.Identical(ct, t) {
					return cc
				}
			}
		}
		return nil
	}
	// canonical types produced for a source type
	var canon func(t types.Type, depth int) map[string]types.Type
	canon = func(t types.Type, depth int) map[string]types.Type {
		out := map[string]types.Type{}
		cc := caseOf(t)
		if cc == nil || depth > 3 {
			out[t.String()] = t
			return out
		}
		assigned := false
		for _, w := range keyWrites(p, info, cc.Body, keyParam, nk.Obj) {
			assigned = true
			if w.recurse {
				for k, v := range canon(info.TypeOf(w.rhs), depth+1) {
					out[k] = v
				}
				continue
			}
			rt := info.TypeOf(w.rhs)
			if tv, ok := info.Types[w.rhs]; ok && tv.Value != nil {
				rt = types.Default(rt)
			}
			out[rt.String()] = rt
		}
		if !assigned {
			out[t.String()] = t
		}
		return out
	}
	var names []string
	for n := range K {
		names = append(names, n)
	}
	sort.Strings(names)
	classCanon := map[string]map[string]bool{}
	for _, n := range names {
		t := K[n]
		cls := keyClass(t)
		cs := canon(t, 0)
		if classCanon[cls] == nil {
			classCanon[cls] = map[string]bool{}
		}
		var cnames []string
		for cn, ct := range cs {
			if _, isIface := ct.Underlying().(*types.Interface); isIface {
				continue
			}
			classCanon[cls][cn] = true
			cnames = append(cnames, cn)
		}
		sort.Strings(cnames)
		cc := caseOf(t)
		switch cls {
		case "int":
			isCanon := func() bool {
				b, ok := t.(*types.Basic)
				return ok && b.Kind() == types.Uint64
			}()
			if isCanon {
				r.Pass("C12.normalise", "key type "+n, token.NoPos, "canonical already")
				continue
			}
			if cc == nil {
				r.Fail("C12.normalise", "key type "+n, nk.Decl.Pos(), "integer keys of type "+n+" reach NotifyKey but its type switch has no case for them: the same number delivered in this form and in another integer form is not recognised as a duplicate")
				continue
			}
			okTypes := true
			for _, cn := range cnames {
				if cn != "uint64" && cn != "int64" && !strings.Contains(cn, "big.Word") {
					okTypes = false
				}
			}
			detail := ""
			shapeOK := true
			switch {
			case typeIs(t, "math/big", "Int"):
				// the outermost test guarding every rewrite must be IsUint64, and its true side yields uint64
				ok1, n1 := true, 0
				for _, w := range keyWrites(p, info, cc.Body, keyParam, nk.Obj) {
					n1++
					if len(w.guards) == 0 {
						ok1 = false
						continue
					}
					g := w.guards[0]
					c, isCall := stripParens(g.cond).(*ast.CallExpr)
					if !isCall || callee(info, c) == nil || callee(info, c).Name() != "IsUint64" {
						ok1 = false
						continue
					}
					if !g.neg && len(w.guards) == 1 {
						if b, isB := info.TypeOf(w.rhs).(*types.Basic); !isB || b.Kind() != types.Uint64 {
							ok1 = false
						}
					}
				}
				if !ok1 || n1 == 0 {
					shapeOK, detail = false, "the first test on a *big.Int key must be IsUint64 (values 0..2^63-1 satisfy IsInt64 too and must become uint64)"
				}
			case t.String() == core.ModulePath+"/rules.negint" && func() bool {
				// boundary of the negative magnitudes: 2^63 (= -MinInt64) must still be keyed as an integer, and
				// larger magnitudes must not be converted to int64 (decided by evaluating the guards of each rewrite)
				tsv := typeSwitchVar(info, ts, cc)
				if tsv == nil {
					return true
				}
				for _, w := range keyWrites(p, info, cc.Body, keyParam, nk.Obj) {
					var conds []ast.Expr
					var pols []bool
					for _, g := range w.guards {
						conds, pols = append(conds, g.cond), append(pols, !g.neg)
					}
					wt := info.TypeOf(w.rhs)
					_, isArr := wt.Underlying().(*types.Array)
					if isArr && uintPathFeasible(p, info, conds, pols, tsv, 1<<63) {
						shapeOK, detail = false, "the magnitude 2^63 (the number -9223372036854775808, which fits int64) is keyed as a word array: the same number delivered as an int64 or a big integer gets a different key, so the duplicate is missed"
					}
					if b, isB := wt.Underlying().(*types.Basic); isB && b.Kind() == types.Int64 && uintPathFeasible(p, info, conds, pols, tsv, 1<<63+1) {
						shapeOK, detail = false, "magnitudes above 2^63 can reach the int64 conversion, which wraps"
					}
				}
				return true
			}():
				neg := false
				ast.Inspect(cc, func(nd ast.Node) bool {
					switch x := nd.(type) {
					case *ast.UnaryExpr:
						if x.Op == token.SUB {
							neg = true
						}
					case *ast.CallExpr:
						if cal := callee(info, x); cal != nil && cal.Name() == "Neg" {
							neg = true
						}
					}
					return true
				})
				if !neg {
					shapeOK, detail = false, "the negative-magnitude key is not negated before being canonicalised"
				}
			default:
				b, _ := t.Underlying().(*types.Basic)
				if b != nil && b.Info()&types.IsUnsigned == 0 {
					// signed: needs a rewrite to uint64 guarded by `v >= 0` (or the else side of `v < 0`)
					found := false
					for _, w := range keyWrites(p, info, cc.Body, keyParam, nk.Obj) {
						if rt, ok := info.TypeOf(w.rhs).(*types.Basic); !ok || rt.Kind() != types.Uint64 {
							continue
						}
						for _, g := range w.guards {
							be, ok := stripParens(g.cond).(*ast.BinaryExpr)
							if !ok {
								continue
							}
							if k, isC := constInt(info, be.Y); isC && k == 0 && ((be.Op == token.GEQ && !g.neg) || (be.Op == token.LSS && g.neg)) {
								found = true
							}
							if k, isC := constInt(info, be.X); isC && k == 0 && ((be.Op == token.LEQ && !g.neg) || (be.Op == token.GTR && g.neg)) {
								found = true
							}
						}
					}
					if !found {
						shapeOK, detail = false, "a signed key must become uint64 when >= 0 (`if v >= 0 { key = uint64(v) }`)"
					}
				}
			}
			r.Check("C12.normalise", "key type "+n, cc.Pos(), okTypes && shapeOK,
				fmt.Sprintf("integer key type %s is canonicalised to %v; %s", n, cnames, detail))
		default:
			// comparable?
			comparable := true
			for _, ct := range cs {
				if !types.Comparable(ct) {
					comparable = false
				}
			}
			r.Check("C12.normalise", "key type "+n, nk.Decl.Pos(), comparable, "keys of type "+n+" are stored in the key set without being converted to a comparable value (map insertion panics)")
		}
	}
	// disjointness
	var classes []string
	for c := range classCanon {
		classes = append(classes, c)
	}
	sort.Strings(classes)
	for i, a := range classes {
		for _, b := range classes[i+1:] {
			var shared []string
			for t := range classCanon[a] {
				if classCanon[b][t] {
					shared = append(shared, t)
				}
			}
			sort.Strings(shared)
			r.Check("C12.disjoint", a+" vs "+b, nk.Decl.Pos(), len(shared) == 0,
				fmt.Sprintf("keys of kind %s and keys of kind %s are both stored as Go type %v: a %s and a %s with the same text are reported as duplicate keys although they denote different values", a, b, shared, a, b))
		}
	}
	r.Floor("C12.disjoint", "key kinds", len(classes), 5)
	r.Count("C12 key types", len(K))

	// lookup-before-insert
	lookupPos, insertPos, rejectOK := token.NoPos, token.NoPos, false
	a := newAnalysis(p)
	ast.Inspect(nk.Decl.Body, func(n ast.Node) bool {
		switch s := n.(type) {
		case *ast.IfStmt:
			if as, ok := s.Init.(*ast.AssignStmt); ok && len(as.Rhs) == 1 {
				if ix, ok := as.Rhs[0].(*ast.IndexExpr); ok {
					if fld := fieldOf(info, ix.X); fld != nil && fld.Name() == "Keys" && objOf(info, ix.Index) == keyParam {
						lookupPos = s.Pos()
						if id, ok := stripParens(s.Cond).(*ast.Ident); ok && len(as.Lhs) == 2 && objOf(info, as.Lhs[1]) == info.ObjectOf(id) {
							rejectOK = a.alwaysPanics(info, s.Body.List)
						}
					}
				}
			}
		case *ast.AssignStmt:
			if len(s.Lhs) == 1 {
				if ix, ok := s.Lhs[0].(*ast.IndexExpr); ok {
					if fld := fieldOf(info, ix.X); fld != nil && fld.Name() == "Keys" && objOf(info, ix.Index) == keyParam {
						insertPos = s.Pos()
					}
				}
			}
		}
		return true
	})
	r.Check("C12.lookup", "rules.Context.NotifyKey|lookup-reject-insert", nk.Decl.Pos(),
		lookupPos.IsValid() && insertPos.IsValid() && rejectOK && lookupPos < insertPos && ts.End() < lookupPos,
		"NotifyKey must, after canonicalising, look the key up in CurrentEntry.Keys, reject when present, and insert it otherwise")
}

// keyWrite is one value given to the key inside a case of NotifyKey's type switch: directly (`key = X`), through
// an extracted helper whose result is assigned (`key = helper(v)`: each `return X` of the helper), or by a
// recursive NotifyKey(X) call; guards are the conditions that enclose it, outermost first.
type keyGuard struct {
	cond ast.Expr
	neg  bool
}
type keyWrite struct {
	rhs     ast.Expr
	guards  []keyGuard
	recurse bool
}

func keyWrites(p *core.Program, info *types.Info, body []ast.Stmt, keyParam types.Object, notifyKey *types.Func) []keyWrite {
	var out []keyWrite
	var stmts func(list []ast.Stmt, guards []keyGuard, isHelper bool, depth int)
	var value func(e ast.Expr, guards []keyGuard, depth int)
	with := func(g []keyGuard, c ast.Expr, neg bool) []keyGuard {
		return append(append([]keyGuard{}, g...), keyGuard{c, neg})
	}
	value = func(e ast.Expr, guards []keyGuard, depth int) {
		if call, ok := stripParens(e).(*ast.CallExpr); ok && depth < 3 {
			if cal := callee(info, call); cal != nil && core.InModule(cal) && cal.Pkg() == notifyKey.Pkg() {
				if _, isIface := info.TypeOf(e).Underlying().(*types.Interface); isIface {
					if d := p.FuncDecl(cal); d != nil && d.Body != nil {
						stmts(d.Body.List, guards, true, depth+1)
						return
					}
				}
			}
		}
		out = append(out, keyWrite{rhs: e, guards: guards})
	}
	stmts = func(list []ast.Stmt, guards []keyGuard, isHelper bool, depth int) {
		for _, st := range list {
			switch s := st.(type) {
			case *ast.AssignStmt:
				for i, lhs := range s.Lhs {
					if !isHelper && objOf(info, lhs) == keyParam && i < len(s.Rhs) {
						value(s.Rhs[i], guards, depth)
					}
				}
			case *ast.ReturnStmt:
				if isHelper && len(s.Results) == 1 {
					value(s.Results[0], guards, depth)
				}
			case *ast.ExprStmt:
				if call, ok := s.X.(*ast.CallExpr); ok && callee(info, call) == notifyKey && len(call.Args) == 1 {
					out = append(out, keyWrite{rhs: call.Args[0], guards: guards, recurse: true})
				}
			case *ast.IfStmt:
				stmts(s.Body.List, with(guards, s.Cond, false), isHelper, depth)
				g2 := with(guards, s.Cond, true)
				switch e := s.Else.(type) {
				case *ast.BlockStmt:
					stmts(e.List, g2, isHelper, depth)
				case *ast.IfStmt:
					stmts([]ast.Stmt{e}, g2, isHelper, depth)
				case nil:
					// statements after an `if c { ...; return }` in a helper are the else side
					if isHelper && len(s.Body.List) > 0 {
						if _, isRet := s.Body.List[len(s.Body.List)-1].(*ast.ReturnStmt); isRet {
							guards = g2
						}
					}
				}
			case *ast.SwitchStmt:
				g := guards
				for _, c := range s.Body.List {
					cc := c.(*ast.CaseClause)
					if s.Tag == nil && len(cc.List) == 1 {
						stmts(cc.Body, with(g, cc.List[0], false), isHelper, depth)
						g = with(g, cc.List[0], true)
					} else {
						stmts(cc.Body, g, isHelper, depth)
					}
				}
			case *ast.BlockStmt:
				stmts(s.List, guards, isHelper, depth)
			case *ast.ForStmt:
				stmts(s.Body.List, guards, isHelper, depth)
			case *ast.RangeStmt:
				stmts(s.Body.List, guards, isHelper, depth)
			case *ast.TypeSwitchStmt:
				for _, c := range s.Body.List {
					stmts(c.(*ast.CaseClause).Body, guards, isHelper, depth)
				}
			}
		}
	}
	stmts(body, nil, false, 0)
	return out
}

// typeSwitchVar returns the object the type switch binds in the given clause (`switch v := x.(type)`).
func typeSwitchVar(info *types.Info, ts *ast.TypeSwitchStmt, cc *ast.CaseClause) types.Object {
	if o := info.Implicits[cc]; o != nil {
		return o
	}
	return nil
}
