package rules

import (
	"fmt"
	"go/ast"
	"go/constant"
	"go/token"
	"go/types"
	"math/bits"
	"sort"
	"strings"

	"verif/checker/core"
)

func init() { Registry["C22"] = checkC22 }

// predicateBound evaluates a one-parameter predicate `value <= K` or `value == value & M` to its inclusive upper bound.
func predicateBound(p *core.Program, info *types.Info, f *types.Func) (uint64, bool) {
	d := p.FuncDecl(f)
	if d == nil || d.Body == nil || len(d.Body.List) != 1 {
		return 0, false
	}
	ret, ok := d.Body.List[0].(*ast.ReturnStmt)
	if !ok || len(ret.Results) != 1 {
		return 0, false
	}
	be, ok := stripParens(ret.Results[0]).(*ast.BinaryExpr)
	if !ok {
		return 0, false
	}
	param := f.Type().(*types.Signature).Params().At(0)
	isParam := func(e ast.Expr) bool { return objOf(info, stripConv(info, e)) == param }
	switch be.Op {
	case token.LEQ:
		if isParam(be.X) {
			return constUint(info, be.Y)
		}
	case token.LSS:
		if isParam(be.X) {
			if k, ok := constUint(info, be.Y); ok && k > 0 {
				return k - 1, true
			}
		}
	case token.EQL:
		// value == (value & M)
		for _, pair := range [][2]ast.Expr{{be.X, be.Y}, {be.Y, be.X}} {
			if isParam(pair[0]) {
				if and, ok := stripParens(pair[1]).(*ast.BinaryExpr); ok && and.Op == token.AND {
					var maskE ast.Expr
					if isParam(and.X) {
						maskE = and.Y
					} else if isParam(and.Y) {
						maskE = and.X
					}
					if maskE != nil {
						if mk, ok := constUint(info, maskE); ok && mk&(mk+1) == 0 {
							return mk, true
						}
					}
				}
			}
		}
	}
	return 0, false
}

type intForm struct {
	bound  uint64 // inclusive upper bound of the case (MaxUint64 for default)
	exact0 bool   // case `value == 0`
	writer string
	pos    token.Pos
}

// encoded size of a form for a value, and whether it can hold it
func formSize(writer string, v uint64) (size int, capable bool) {
	nbytes := (bits.Len64(v) + 7) / 8
	switch writer {
	case "WriteType":
		return 1, v <= 100
	case "WriteTyped8Bits":
		return 2, v <= 0xff
	case "WriteTyped16Bits":
		return 3, v <= 0xffff
	case "WriteTyped32Bits":
		return 5, v <= 0xffffffff
	case "WriteTyped64Bits":
		return 9, true
	case "WriteTypedInt":
		return 2 + nbytes, true
	}
	return 0, false
}

var allIntWriters = []string{"WriteType", "WriteTyped8Bits", "WriteTyped16Bits", "WriteTyped32Bits", "WriteTyped64Bits", "WriteTypedInt"}

func checkC22(r *core.Run, p *core.Program) {
	r.Rule("C22.int-partition", "Encoder.OnPositiveInt/OnNegativeInt touch the value only through comparisons with constants; the ordered interval partition (bound -> writer) is extracted and, at every critical point of the uint64 domain (each extracted bound, bound+1, and every power-of-256 boundary), the chosen form must be able to hold the value and have the minimal encoded size among all integer forms (small 1, 8-bit 2, 16-bit 3, 32-bit 5, variable 2+n, 64-bit 9); sizes are piecewise constant between critical points, so this decides all 2^64 values. The writers' sizes are taken from their flush lengths; the polarity of the code constant must match the method.")
	r.Rule("C22.float-order", "Encoder.OnFloat handles infinities, NaN and zero before anything else, then tries the 16-bit form, then the 32-bit form, then the 64-bit form, each narrower form guarded by an exact round-trip equality with the input; the 16-bit candidate keeps exactly the upper 16 bits of the 32-bit pattern.")
	r.Rule("C22.short-header", "OnArray, OnStringlikeArray and the first OnArrayChunk of a single-chunk array try the short header before the long one; the short form is used up to 15 elements; every short-array code constant is reachable through the arrayInfo table.")
	r.NotDecide("byte-for-byte idempotence of decode -> encode for arbitrary documents; decimal float and time minimality (third-party codecs)")

	pkg := p.Pkg("cbe")
	info := pkg.TypesInfo
	a := newAnalysis(p)

	for _, spec := range []struct {
		method, polarity string
	}{{"OnPositiveInt", "Pos"}, {"OnNegativeInt", "Neg"}} {
		f := findFn(p, "cbe", "Encoder."+spec.method)
		if f == nil {
			r.Undecided("C22.int-partition", "cbe.Encoder."+spec.method)
			continue
		}
		param := f.Obj.Type().(*types.Signature).Params().At(0)
		var sw *ast.SwitchStmt
		for _, s := range f.Decl.Body.List {
			if x, ok := s.(*ast.SwitchStmt); ok && x.Tag == nil {
				sw = x
			}
		}
		if sw == nil || len(f.Decl.Body.List) != 1 {
			r.Fail("C22.int-partition", "cbe.Encoder."+spec.method+"|shape", f.Decl.Pos(), "the method is no longer a single tagless switch over comparisons of the value with constants; the interval partition cannot be extracted")
			continue
		}
		var forms []intForm
		okShape := true
		for _, cs := range sw.Body.List {
			cc := cs.(*ast.CaseClause)
			form := intForm{pos: cc.Pos()}
			switch {
			case cc.List == nil:
				form.bound = ^uint64(0)
			case len(cc.List) == 1:
				cond := stripParens(cc.List[0])
				if call, ok := cond.(*ast.CallExpr); ok && len(call.Args) == 1 && objOf(info, call.Args[0]) == param {
					if cal := callee(info, call); cal != nil {
						if b, ok := predicateBound(p, info, cal); ok {
							form.bound = b
						} else {
							okShape = false
						}
					}
				} else if be, ok := cond.(*ast.BinaryExpr); ok && be.Op == token.EQL && objOf(info, be.X) == param {
					if k, ok := constUint(info, be.Y); ok && k == 0 {
						form.exact0 = true
					} else {
						okShape = false
					}
				} else if be, ok := cond.(*ast.BinaryExpr); ok && be.Op == token.LEQ && objOf(info, be.X) == param {
					if k, ok := constUint(info, be.Y); ok {
						form.bound = k
					} else {
						okShape = false
					}
				} else {
					okShape = false
				}
			default:
				okShape = false
			}
			// body: one call on the writer
			if len(cc.Body) != 1 {
				okShape = false
			} else if es, ok := cc.Body[0].(*ast.ExprStmt); ok {
				if call, ok := es.X.(*ast.CallExpr); ok {
					if cal := callee(info, call); cal != nil && recvNamed(cal) != nil && recvNamed(cal).Obj().Name() == "Writer" {
						form.writer = cal.Name()
						// polarity of the code constant
						if len(call.Args) >= 1 {
							if c, ok := objOf(info, call.Args[0]).(*types.Const); ok {
								if !strings.Contains(c.Name(), spec.polarity+"Int") {
									r.Fail("C22.int-partition", fmt.Sprintf("cbe.Encoder.%s|code %s", spec.method, c.Name()), call.Pos(), "the code constant "+c.Name()+" has the wrong polarity for "+spec.method)
								}
							} else if cal.Name() == "WriteType" {
								// small int: the code is the value itself (positive) or its negation (negative)
								arg := stripConv(info, call.Args[0])
								neg := false
								if u, ok := arg.(*ast.UnaryExpr); ok && u.Op == token.SUB {
									neg = true
									arg = stripConv(info, u.X)
								}
								if objOf(info, arg) != param || neg != (spec.polarity == "Neg") {
									r.Fail("C22.int-partition", "cbe.Encoder."+spec.method+"|small-int-code", call.Pos(), "the small-integer form must write the value itself (negated for negative integers) as the type code")
								}
							}
						}
					} else {
						okShape = false
					}
				}
			}
			forms = append(forms, form)
		}
		if !okShape || len(forms) < 5 {
			r.Fail("C22.int-partition", "cbe.Encoder."+spec.method+"|shape", sw.Pos(), "a case of the width-selection switch is not `predicate(value)` / `value == 0` with a single writer call; the partition cannot be extracted")
			continue
		}
		choose := func(v uint64) (string, bool) {
			for _, fm := range forms {
				if fm.exact0 {
					if v == 0 {
						return fm.writer, true
					}
					continue
				}
				if v <= fm.bound {
					return fm.writer, false
				}
			}
			return "", false
		}
		crit := map[uint64]bool{0: true, 1: true, 100: true, 101: true, ^uint64(0): true}
		for k := uint(8); k < 64; k += 8 {
			crit[1<<k] = true
			crit[1<<k-1] = true
		}
		for _, fm := range forms {
			crit[fm.bound] = true
			if fm.bound != ^uint64(0) {
				crit[fm.bound+1] = true
			}
		}
		var pts []uint64
		for v := range crit {
			pts = append(pts, v)
		}
		sort.Slice(pts, func(i, j int) bool { return pts[i] < pts[j] })
		bad := ""
		for _, v := range pts {
			w, isZeroCase := choose(v)
			if isZeroCase {
				// negative zero must be written in the 8-bit form (there is no shorter form that keeps the sign)
				if w != "WriteTyped8Bits" {
					bad = "negative zero must use the 8-bit form"
				}
				continue
			}
			size, capable := formSize(w, v)
			if !capable {
				bad = fmt.Sprintf("value %d (0x%x) is written with %s, which cannot hold it", v, v, w)
				break
			}
			min := 99
			for _, ow := range allIntWriters {
				if s, c := formSize(ow, v); c && s < min {
					min = s
				}
			}
			if size != min {
				bad = fmt.Sprintf("value %d (0x%x) is written with %s (%d bytes) although a %d-byte form exists", v, v, w, size, min)
				break
			}
		}
		r.Check("C22.int-partition", "cbe.Encoder."+spec.method+"|minimal-form-on-whole-domain", sw.Pos(), bad == "", bad)
		r.Count("C22.int-partition critical points", len(pts))
	}
	// writer sizes used by the oracle = flush lengths in the source
	m := &cbeModel{p: p, info: info, codeType: p.LookupType("cbe", "cbeTypeField").Type().(*types.Named)}
	m.computeWriterWidths()
	wantW := map[string]string{"WriteType": "0", "WriteTyped8Bits": "1", "WriteTyped16Bits": "2", "WriteTyped32Bits": "4", "WriteTyped64Bits": "8", "WriteTypedInt": "var"}
	for _, name := range sortedKeys(wantW) {
		f := p.LookupFunc("cbe", "Writer."+name)
		if f == nil {
			r.Undecided("C22.int-partition", "cbe.Writer."+name)
			continue
		}
		r.Check("C22.int-partition", "cbe.Writer."+name+"|payload-width", f.Pos(), m.writerWidth[f] == wantW[name], fmt.Sprintf("writer %s emits payload width %q, the size table assumes %q", name, m.writerWidth[f], wantW[name]))
	}
	// WriteTypedInt: length byte = number of significant bytes
	if f := findFn(p, "cbe", "Writer.WriteTypedInt"); f != nil {
		e := &effectCtx{a: a, p: p}
		got := e.summarize(f.Obj)
		r.Check("C22.int-partition", "cbe.Writer.WriteTypedInt|length-prefix", f.Decl.Pos(), strings.Contains(got, "FlushBufferFirstBytes($v1+2)") , "variable-length integer must flush 2+byteCount bytes; it does `"+got+"`")
	}

	// ---- float order
	if f := findFn(p, "cbe", "Encoder.OnFloat"); f == nil {
		r.Undecided("C22.float-order", "cbe.Encoder.OnFloat")
	} else {
		param := f.Obj.Type().(*types.Signature).Params().At(0)
		pos := map[string]token.Pos{}
		guarded := map[string]bool{}
		specials := map[string]token.Pos{}
		var maskOK bool
		ast.Inspect(f.Decl.Body, func(n ast.Node) bool {
			switch s := n.(type) {
			case *ast.IfStmt:
				// if float64(x) == value { WriteFloatN(x); return }
				if be, ok := stripParens(s.Cond).(*ast.BinaryExpr); ok && be.Op == token.EQL {
					lhs, rhs := be.X, be.Y
					if objOf(info, stripParens(lhs)) == param {
						lhs, rhs = rhs, lhs
					}
					if objOf(info, stripParens(rhs)) == param {
						if conv, ok := stripParens(lhs).(*ast.CallExpr); ok && len(conv.Args) == 1 {
							cand := objOf(info, conv.Args[0])
							for _, st := range s.Body.List {
								if es, ok := st.(*ast.ExprStmt); ok {
									if c, ok := es.X.(*ast.CallExpr); ok {
										if cal := callee(info, c); cal != nil && strings.HasPrefix(cal.Name(), "WriteFloat") && len(c.Args) == 1 && objOf(info, c.Args[0]) == cand {
											if _, isRet := s.Body.List[len(s.Body.List)-1].(*ast.ReturnStmt); isRet {
												guarded[cal.Name()] = true
											}
										}
									}
								}
							}
						}
					}
				}
				if c, ok := stripParens(s.Cond).(*ast.CallExpr); ok {
					if cal := callee(info, c); cal != nil && (isFunc(cal, "math", "IsInf") || isFunc(cal, "math", "IsNaN")) {
						if _, isRet := s.Body.List[len(s.Body.List)-1].(*ast.ReturnStmt); isRet {
							specials[cal.Name()] = s.Pos()
						}
					}
				}
				if be, ok := stripParens(s.Cond).(*ast.BinaryExpr); ok && be.Op == token.EQL && objOf(info, be.X) == param {
					if v := constVal(info, be.Y); v != nil && constant.Sign(v) == 0 {
						if _, isRet := s.Body.List[len(s.Body.List)-1].(*ast.ReturnStmt); isRet {
							specials["zero"] = s.Pos()
						}
					}
				}
			case *ast.CallExpr:
				if cal := callee(info, s); cal != nil && strings.HasPrefix(cal.Name(), "WriteFloat") {
					pos[cal.Name()] = s.Pos()
				}
			case *ast.BinaryExpr:
				if s.Op == token.AND {
					if k, ok := constUint(info, s.Y); ok && k == 0xffff0000 {
						maskOK = true
					}
				}
			}
			return true
		})
		// a wider form may be written only after every narrower one has been tried: count the calls
		nCalls := map[string]int{}
		firstPos := map[string]token.Pos{}
		inspectCalls(info, f.Decl.Body, func(c *ast.CallExpr, cal *types.Func) {
			if cal != nil && strings.HasPrefix(cal.Name(), "WriteFloat") {
				nCalls[cal.Name()]++
				if !firstPos[cal.Name()].IsValid() {
					firstPos[cal.Name()] = c.Pos()
				}
			}
		})
		early := nCalls["WriteFloat64"] != 1 || nCalls["WriteFloat32"] != 1 || nCalls["WriteFloat16"] != 1 ||
			firstPos["WriteFloat64"] < firstPos["WriteFloat32"] || firstPos["WriteFloat32"] < firstPos["WriteFloat16"]
		r.Check("C22.float-order", "cbe.Encoder.OnFloat|no wider form before the narrower attempts", f.Decl.Pos(), !early,
			fmt.Sprintf("a wider float form is written on a path that has not tried the narrower forms (WriteFloat16 x%d, WriteFloat32 x%d, WriteFloat64 x%d; each must occur once, in this order): some values (e.g. float32 subnormals) get a longer encoding than necessary", nCalls["WriteFloat16"], nCalls["WriteFloat32"], nCalls["WriteFloat64"]))
		ok := pos["WriteFloat16"].IsValid() && pos["WriteFloat32"].IsValid() && pos["WriteFloat64"].IsValid() &&
			pos["WriteFloat16"] < pos["WriteFloat32"] && pos["WriteFloat32"] < pos["WriteFloat64"]
		r.Check("C22.float-order", "cbe.Encoder.OnFloat|16-then-32-then-64", f.Decl.Pos(), ok, "the float forms must be tried narrowest first")
		r.Check("C22.float-order", "cbe.Encoder.OnFloat|round-trip-guards", f.Decl.Pos(), guarded["WriteFloat16"] && guarded["WriteFloat32"], "each narrower float form must be guarded by `float64(candidate) == value` and return")
		okSp := specials["IsInf"].IsValid() && specials["IsNaN"].IsValid() && specials["zero"].IsValid()
		for _, sp := range specials {
			if pos["WriteFloat16"].IsValid() && sp > pos["WriteFloat16"] {
				okSp = false
			}
		}
		r.Check("C22.float-order", "cbe.Encoder.OnFloat|specials-first", f.Decl.Pos(), okSp, "infinity, NaN and zero must be handled (with return) before the width selection")
		r.Check("C22.float-order", "cbe.Encoder.OnFloat|16-bit-mask", f.Decl.Pos(), maskOK, "the 16-bit candidate must keep exactly the upper 16 bits of the 32-bit pattern (mask 0xffff0000)")
	}
	if f := findFn(p, "cbe", "Writer.WriteFloat16"); f != nil {
		e := &effectCtx{a: a, p: p}
		got := e.summarize(f.Obj)
		r.Check("C22.float-order", "cbe.Writer.WriteFloat16|upper-16-bits", f.Decl.Pos(), strings.Contains(got, ">>16"), "WriteFloat16 must write the upper 16 bits of the float32 pattern; it does `"+got+"`")
	}

	// ---- short headers
	for _, name := range []string{"OnArray", "OnStringlikeArray"} {
		f := findFn(p, "cbe", "Encoder."+name)
		if f == nil {
			r.Undecided("C22.short-header", "cbe.Encoder."+name)
			continue
		}
		e := &effectCtx{a: a, p: p}
		got := e.summarize(f.Obj)
		okS := strings.Contains(got, "if(!(*cbe.Encoder).writeSmallArrayHeader(") && strings.Index(got, "writeSmallArrayHeader") < strings.Index(got+"WriteArrayHeader(", "WriteArrayHeader(")
		r.Check("C22.short-header", "cbe.Encoder."+name+"|short-first", f.Decl.Pos(), okS, "the short array header must be tried before the long form; the method does `"+got+"`")
	}
	if f := findFn(p, "cbe", "Encoder.OnArrayChunk"); f == nil {
		r.Undecided("C22.short-header", "cbe.Encoder.OnArrayChunk")
	} else {
		e := &effectCtx{a: a, p: p}
		got := e.summarize(f.Obj)
		r.Check("C22.short-header", "cbe.Encoder.OnArrayChunk|short-first", f.Decl.Pos(), strings.Contains(got, "if(!$moreChunksFollow&&(*cbe.Encoder).writeSmallArrayHeader("), "a single-chunk array must try the short header first; the method does `"+got+"`")
	}
	if f := findFn(p, "cbe", "Encoder.writeSmallArrayHeader"); f == nil {
		r.Undecided("C22.short-header", "cbe.Encoder.writeSmallArrayHeader")
	} else {
		e := &effectCtx{a: a, p: p}
		got := e.summarize(f.Obj)
		c, _ := pkg.Types.Scope().Lookup("maxSmallArrayLength").(*types.Const)
		v := int64(-1)
		if c != nil {
			v, _ = constant.Int64Val(c.Val())
		}
		r.Check("C22.short-header", "cbe.Encoder.writeSmallArrayHeader|bound", f.Decl.Pos(), strings.HasPrefix(got, "if($elementCount>maxSmallArrayLength){return}") && v == 15, fmt.Sprintf("short form must be refused only above 15 elements; the method does `%s` with maxSmallArrayLength=%d", got, v))
	}
	// every short-array code constant appears in arrayInfo
	used := map[string]bool{}
	for _, file := range pkg.Syntax {
		ast.Inspect(file, func(n ast.Node) bool {
			vs, ok := n.(*ast.ValueSpec)
			if ok && len(vs.Names) == 1 && vs.Names[0].Name == "arrayInfo" {
				ast.Inspect(vs, func(m ast.Node) bool {
					if id, ok := m.(*ast.Ident); ok {
						if c, ok := info.ObjectOf(id).(*types.Const); ok {
							used[c.Name()] = true
						}
					}
					return true
				})
			}
			return true
		})
	}
	nShort := 0
	for _, name := range pkg.Types.Scope().Names() {
		if strings.HasPrefix(name, "cbeTypeShortArray") || name == "cbeTypeString0" {
			nShort++
			r.Check("C22.short-header", "arrayInfo uses "+name, pkg.Types.Scope().Lookup(name).Pos(), used[name], "the format offers the short form "+name+" but no arrayInfo row uses it: such arrays are always written in the long form")
		}
	}
	r.Floor("C22.short-header", "short-form code constants", nShort, 12)
}
