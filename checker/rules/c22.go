package rules

import (
	"fmt"
	"go/ast"
	"go/constant"
	"go/token"
	"go/types"
	"math/bits"
	"sort"
	"strings"

	"verif/checker/core"
)

func init() { Registry["C22"] = checkC22 }

// predicateBound evaluates a one-parameter predicate `value <= K` or `value == value & M` to its inclusive upper bound.
func predicateBound(p *core.Program, info *types.Info, f *types.Func) (uint64, bool) {
	d := p.FuncDecl(f)
	if d == nil || d.Body == nil || len(d.Body.List) != 1 {
		return 0, false
	}
	ret, ok := d.Body.List[0].(*ast.ReturnStmt)
	if !ok || len(ret.Results) != 1 {
		return 0, false
	}
	be, ok := stripParens(ret.Results[0]).(*ast.BinaryExpr)
	if !ok {
		return 0, false
	}
	param := f.Type().(*types.Signature).Params().At(0)
	isParam := func(e ast.Expr) bool { return objOf(info, stripConv(info, e)) == param }
	switch be.Op {
	case token.LEQ:
		if isParam(be.X) {
			return constUint(info, be.Y)
		}
	case token.LSS:
		if isParam(be.X) {
			if k, ok := constUint(info, be.Y); ok && k > 0 {
				return k - 1, true
			}
		}
	case token.EQL:
		// value == (value & M)
		for _, pair := range [][2]ast.Expr{{be.X, be.Y}, {be.Y, be.X}} {
			if isParam(pair[0]) {
				if and, ok := stripParens(pair[1]).(*ast.BinaryExpr); ok && and.Op == token.AND {
					var maskE ast.Expr
					if isParam(and.X) {
						maskE = and.Y
					} else if isParam(and.Y) {
						maskE = and.X
					}
					if maskE != nil {
						if mk, ok := constUint(info, maskE); ok && mk&(mk+1) == 0 {
							return mk, true
						}
					}
				}
			}
		}
	}
	return 0, false
}

type intForm struct {
	bound  uint64 // inclusive upper bound of the case (MaxUint64 for default)
	exact0 bool   // case `value == 0`
	writer string
	pos    token.Pos
}

// encoded size of a form for a value, and whether it can hold it
func formSize(writer string, v uint64) (size int, capable bool) {
	nbytes := (bits.Len64(v) + 7) / 8
	switch writer {
	case "WriteType":
		return 1, v <= 100
	case "WriteTyped8Bits":
		return 2, v <= 0xff
	case "WriteTyped16Bits":
		return 3, v <= 0xffff
	case "WriteTyped32Bits":
		return 5, v <= 0xffffffff
	case "WriteTyped64Bits":
		return 9, true
	case "WriteTypedInt":
		return 2 + nbytes, true
	}
	return 0, false
}

var allIntWriters = []string{"WriteType", "WriteTyped8Bits", "WriteTyped16Bits", "WriteTyped32Bits", "WriteTyped64Bits", "WriteTypedInt"}

func checkC22(r *core.Run, p *core.Program) {
	r.Rule("C22.int-partition", "Encoder.OnPositiveInt/OnNegativeInt touch the value only through comparisons with constants; the ordered interval partition (bound -> writer) is extracted and, at every critical point of the uint64 domain (each extracted bound, bound+1, and every power-of-256 boundary), the chosen form must be able to hold the value and have the minimal encoded size among all integer forms (small 1, 8-bit 2, 16-bit 3, 32-bit 5, variable 2+n, 64-bit 9); sizes are piecewise constant between critical points, so this decides all 2^64 values. The writers' sizes are taken from their flush lengths; the polarity of the code constant must match the method.")
	r.Rule("C22.float-order", "Encoder.OnFloat handles infinities, NaN and zero before anything else, then tries the 16-bit form, then the 32-bit form, then the 64-bit form, each narrower form guarded by an exact round-trip equality with the input; the 16-bit candidate keeps exactly the upper 16 bits of the 32-bit pattern.")
	r.Rule("C22.short-header", "OnArray, OnStringlikeArray and the first OnArrayChunk of a single-chunk array try the short header before the long one; the short form is used up to 15 elements; every short-array code constant is reachable through the arrayInfo table.")
	r.NotDecide("byte-for-byte idempotence of decode -> encode for arbitrary documents; decimal float and time minimality (third-party codecs)")

	pkg := p.Pkg("cbe")
	info := pkg.TypesInfo
	a := newAnalysis(p)

	for _, spec := range []struct {
		method, polarity string
	}{{"OnPositiveInt", "Pos"}, {"OnNegativeInt", "Neg"}} {
		f := findFn(p, "cbe", "Encoder."+spec.method)
		if f == nil {
			r.Undecided("C22.int-partition", "cbe.Encoder."+spec.method)
			continue
		}
		param := f.Obj.Type().(*types.Signature).Params().At(0)
		// the width selection is a tagless switch, an if / else-if chain, or guards that end in return followed by
		// the default: all are read as one ordered case list
		cases, okCases := orderedCases(f.Decl.Body.List)
		if !okCases {
			r.Fail("C22.int-partition", "cbe.Encoder."+spec.method+"|shape", f.Decl.Pos(), "the method is no longer a single tagless switch over comparisons of the value with constants; the interval partition cannot be extracted")
			continue
		}
		swPos := f.Decl.Body.Pos()
		var forms []intForm
		okShape := true
		for _, cc := range cases {
			form := intForm{pos: cc.Pos}
			switch {
			case cc.List == nil:
				form.bound = ^uint64(0)
			case len(cc.List) == 1:
				cond := stripParens(cc.List[0])
				if call, ok := cond.(*ast.CallExpr); ok && len(call.Args) == 1 && objOf(info, call.Args[0]) == param {
					if cal := callee(info, call); cal != nil {
						if b, ok := predicateBound(p, info, cal); ok {
							form.bound = b
						} else {
							okShape = false
						}
					}
				} else if be, ok := cond.(*ast.BinaryExpr); ok && be.Op == token.EQL && objOf(info, be.X) == param {
					if k, ok := constUint(info, be.Y); ok && k == 0 {
						form.exact0 = true
					} else {
						okShape = false
					}
				} else if be, ok := cond.(*ast.BinaryExpr); ok && be.Op == token.LEQ && objOf(info, be.X) == param {
					if k, ok := constUint(info, be.Y); ok {
						form.bound = k
					} else {
						okShape = false
					}
				} else {
					okShape = false
				}
			default:
				okShape = false
			}
			// body: one call on the writer
			cc.Body = dropTrailingReturn(cc.Body)
			if len(cc.Body) != 1 {
				okShape = false
			} else if es, ok := cc.Body[0].(*ast.ExprStmt); ok {
				if call, ok := es.X.(*ast.CallExpr); ok {
					if cal := callee(info, call); cal != nil && recvNamed(cal) != nil && recvNamed(cal).Obj().Name() == "Writer" {
						form.writer = cal.Name()
						// polarity of the code constant
						if len(call.Args) >= 1 {
							if c, ok := objOf(info, call.Args[0]).(*types.Const); ok {
								if !strings.Contains(c.Name(), spec.polarity+"Int") {
									r.Fail("C22.int-partition", fmt.Sprintf("cbe.Encoder.%s|code %s", spec.method, c.Name()), call.Pos(), "the code constant "+c.Name()+" has the wrong polarity for "+spec.method)
								}
							} else if cal.Name() == "WriteType" {
								// small int: the code is the value itself (positive) or its negation (negative)
								arg := stripConv(info, call.Args[0])
								neg := false
								if u, ok := arg.(*ast.UnaryExpr); ok && u.Op == token.SUB {
									neg = true
									arg = stripConv(info, u.X)
								}
								if objOf(info, arg) != param || neg != (spec.polarity == "Neg") {
									r.Fail("C22.int-partition", "cbe.Encoder."+spec.method+"|small-int-code", call.Pos(), "the small-integer form must write the value itself (negated for negative integers) as the type code")
								}
							}
						}
					} else {
						okShape = false
					}
				}
			}
			forms = append(forms, form)
		}
		if !okShape || len(forms) < 5 {
			r.Fail("C22.int-partition", "cbe.Encoder."+spec.method+"|shape", swPos, "a case of the width-selection switch is not `predicate(value)` / `value == 0` with a single writer call; the partition cannot be extracted")
			continue
		}
		choose := func(v uint64) (string, bool) {
			for _, fm := range forms {
				if fm.exact0 {
					if v == 0 {
						return fm.writer, true
					}
					continue
				}
				if v <= fm.bound {
					return fm.writer, false
				}
			}
			return "", false
		}
		crit := map[uint64]bool{0: true, 1: true, 100: true, 101: true, ^uint64(0): true}
		for k := uint(8); k < 64; k += 8 {
			crit[1<<k] = true
			crit[1<<k-1] = true
		}
		for _, fm := range forms {
			crit[fm.bound] = true
			if fm.bound != ^uint64(0) {
				crit[fm.bound+1] = true
			}
		}
		var pts []uint64
		for v := range crit {
			pts = append(pts, v)
		}
		sort.Slice(pts, func(i, j int) bool { return pts[i] < pts[j] })
		bad := ""
		for _, v := range pts {
			w, isZeroCase := choose(v)
			if isZeroCase {
				// negative zero must be written in the 8-bit form (there is no shorter form that keeps the sign)
				if w != "WriteTyped8Bits" {
					bad = "negative zero must use the 8-bit form"
				}
				continue
			}
			size, capable := formSize(w, v)
			if !capable {
				bad = fmt.Sprintf("value %d (0x%x) is written with %s, which cannot hold it", v, v, w)
				break
			}
			min := 99
			for _, ow := range allIntWriters {
				if s, c := formSize(ow, v); c && s < min {
					min = s
				}
			}
			if size != min {
				bad = fmt.Sprintf("value %d (0x%x) is written with %s (%d bytes) although a %d-byte form exists", v, v, w, size, min)
				break
			}
		}
		r.Check("C22.int-partition", "cbe.Encoder."+spec.method+"|minimal-form-on-whole-domain", swPos, bad == "", bad)
		r.Count("C22.int-partition critical points", len(pts))
	}
	// writer sizes used by the oracle = flush lengths in the source
	m := &cbeModel{p: p, info: info, codeType: p.LookupType("cbe", "cbeTypeField").Type().(*types.Named)}
	m.computeWriterWidths()
	wantW := map[string]string{"WriteType": "0", "WriteTyped8Bits": "1", "WriteTyped16Bits": "2", "WriteTyped32Bits": "4", "WriteTyped64Bits": "8", "WriteTypedInt": "var"}
	for _, name := range sortedKeys(wantW) {
		f := p.LookupFunc("cbe", "Writer."+name)
		if f == nil {
			r.Undecided("C22.int-partition", "cbe.Writer."+name)
			continue
		}
		r.Check("C22.int-partition", "cbe.Writer."+name+"|payload-width", f.Pos(), m.writerWidth[f] == wantW[name], fmt.Sprintf("writer %s emits payload width %q, the size table assumes %q", name, m.writerWidth[f], wantW[name]))
	}
	// WriteTypedInt: length byte = number of significant bytes
	if f := findFn(p, "cbe", "Writer.WriteTypedInt"); f != nil {
		e := &effectCtx{a: a, p: p}
		got := e.summarize(f.Obj)
		r.Check("C22.int-partition", "cbe.Writer.WriteTypedInt|length-prefix", f.Decl.Pos(), lengthPrefixOK(info, f), "variable-length integer must store the bytes at Buffer[2+i], the count at Buffer[1] and flush 2+byteCount bytes; it does `"+got+"`")
	}

	// ---- float order
	if f := findFn(p, "cbe", "Encoder.OnFloat"); f == nil {
		r.Undecided("C22.float-order", "cbe.Encoder.OnFloat")
	} else {
		param := f.Obj.Type().(*types.Signature).Params().At(0)
		pos := map[string]token.Pos{}
		guarded := map[string]bool{}
		specials := map[string]token.Pos{}
		var maskOK bool
		ast.Inspect(f.Decl.Body, func(n ast.Node) bool {
			switch s := n.(type) {
			case *ast.IfStmt:
				// if float64(x) == value { WriteFloatN(x); return }
				if be, ok := stripParens(s.Cond).(*ast.BinaryExpr); ok && be.Op == token.EQL {
					lhs, rhs := be.X, be.Y
					if objOf(info, stripParens(lhs)) == param {
						lhs, rhs = rhs, lhs
					}
					if objOf(info, stripParens(rhs)) == param {
						if conv, ok := stripParens(lhs).(*ast.CallExpr); ok && len(conv.Args) == 1 {
							cand := objOf(info, conv.Args[0])
							for _, st := range s.Body.List {
								if es, ok := st.(*ast.ExprStmt); ok {
									if c, ok := es.X.(*ast.CallExpr); ok {
										if cal := callee(info, c); cal != nil && strings.HasPrefix(cal.Name(), "WriteFloat") && len(c.Args) == 1 && objOf(info, c.Args[0]) == cand {
											if _, isRet := s.Body.List[len(s.Body.List)-1].(*ast.ReturnStmt); isRet {
												guarded[cal.Name()] = true
											}
										}
									}
								}
							}
						}
					}
				}
				if c, ok := stripParens(s.Cond).(*ast.CallExpr); ok {
					if cal := callee(info, c); cal != nil && (isFunc(cal, "math", "IsInf") || isFunc(cal, "math", "IsNaN")) {
						if _, isRet := s.Body.List[len(s.Body.List)-1].(*ast.ReturnStmt); isRet {
							specials[cal.Name()] = s.Pos()
						}
					}
				}
				if be, ok := stripParens(s.Cond).(*ast.BinaryExpr); ok && be.Op == token.EQL && objOf(info, be.X) == param {
					if v := constVal(info, be.Y); v != nil && constant.Sign(v) == 0 {
						if _, isRet := s.Body.List[len(s.Body.List)-1].(*ast.ReturnStmt); isRet {
							specials["zero"] = s.Pos()
						}
					}
				}
			case *ast.CallExpr:
				if cal := callee(info, s); cal != nil && strings.HasPrefix(cal.Name(), "WriteFloat") {
					pos[cal.Name()] = s.Pos()
				}
			case *ast.BinaryExpr:
				if s.Op == token.AND {
					if k, ok := constUint(info, s.Y); ok && k == 0xffff0000 {
						maskOK = true
					}
				}
			}
			return true
		})
		// a wider form may be written only after every narrower one has been tried: count the calls
		nCalls := map[string]int{}
		firstPos := map[string]token.Pos{}
		inspectCalls(info, f.Decl.Body, func(c *ast.CallExpr, cal *types.Func) {
			if cal != nil && strings.HasPrefix(cal.Name(), "WriteFloat") {
				nCalls[cal.Name()]++
				if !firstPos[cal.Name()].IsValid() {
					firstPos[cal.Name()] = c.Pos()
				}
			}
		})
		early := nCalls["WriteFloat64"] != 1 || nCalls["WriteFloat32"] != 1 || nCalls["WriteFloat16"] != 1 ||
			firstPos["WriteFloat64"] < firstPos["WriteFloat32"] || firstPos["WriteFloat32"] < firstPos["WriteFloat16"]
		r.Check("C22.float-order", "cbe.Encoder.OnFloat|no wider form before the narrower attempts", f.Decl.Pos(), !early,
			fmt.Sprintf("a wider float form is written on a path that has not tried the narrower forms (WriteFloat16 x%d, WriteFloat32 x%d, WriteFloat64 x%d; each must occur once, in this order): some values (e.g. float32 subnormals) get a longer encoding than necessary", nCalls["WriteFloat16"], nCalls["WriteFloat32"], nCalls["WriteFloat64"]))
		ok := pos["WriteFloat16"].IsValid() && pos["WriteFloat32"].IsValid() && pos["WriteFloat64"].IsValid() &&
			pos["WriteFloat16"] < pos["WriteFloat32"] && pos["WriteFloat32"] < pos["WriteFloat64"]
		r.Check("C22.float-order", "cbe.Encoder.OnFloat|16-then-32-then-64", f.Decl.Pos(), ok, "the float forms must be tried narrowest first")
		r.Check("C22.float-order", "cbe.Encoder.OnFloat|round-trip-guards", f.Decl.Pos(), guarded["WriteFloat16"] && guarded["WriteFloat32"], "each narrower float form must be guarded by `float64(candidate) == value` and return")
		okSp := specials["IsInf"].IsValid() && specials["IsNaN"].IsValid() && specials["zero"].IsValid()
		for _, sp := range specials {
			if pos["WriteFloat16"].IsValid() && sp > pos["WriteFloat16"] {
				okSp = false
			}
		}
		r.Check("C22.float-order", "cbe.Encoder.OnFloat|specials-first", f.Decl.Pos(), okSp, "infinity, NaN and zero must be handled (with return) before the width selection")
		r.Check("C22.float-order", "cbe.Encoder.OnFloat|16-bit-mask", f.Decl.Pos(), maskOK, "the 16-bit candidate must keep exactly the upper 16 bits of the 32-bit pattern (mask 0xffff0000)")
	}
	if f := findFn(p, "cbe", "Writer.WriteFloat16"); f != nil {
		e := &effectCtx{a: a, p: p}
		got := e.summarize(f.Obj)
		r.Check("C22.float-order", "cbe.Writer.WriteFloat16|upper-16-bits", f.Decl.Pos(), shiftsFloat32BitsBy(info, f, 16), "WriteFloat16 must write the upper 16 bits of the float32 pattern; it does `"+got+"`")
	}

	// ---- short headers
	for _, name := range []string{"OnArray", "OnStringlikeArray"} {
		f := findFn(p, "cbe", "Encoder."+name)
		if f == nil {
			r.Undecided("C22.short-header", "cbe.Encoder."+name)
			continue
		}
		e := &effectCtx{a: a, p: p}
		got := e.summarize(f.Obj)
		okS := longHeaderOnlyAfterFailedShort(p, info, f)
		r.Check("C22.short-header", "cbe.Encoder."+name+"|short-first", f.Decl.Pos(), okS, "the short array header must be tried before the long form; the method does `"+got+"`")
	}
	if f := findFn(p, "cbe", "Encoder.OnArrayChunk"); f == nil {
		r.Undecided("C22.short-header", "cbe.Encoder.OnArrayChunk")
	} else {
		e := &effectCtx{a: a, p: p}
		got := e.summarize(f.Obj)
		r.Check("C22.short-header", "cbe.Encoder.OnArrayChunk|short-first", f.Decl.Pos(), strings.Contains(got, "if(!$moreChunksFollow&&(*cbe.Encoder).writeSmallArrayHeader("), "a single-chunk array must try the short header first; the method does `"+got+"`")
	}
	if f := findFn(p, "cbe", "Encoder.writeSmallArrayHeader"); f == nil {
		r.Undecided("C22.short-header", "cbe.Encoder.writeSmallArrayHeader")
	} else {
		e := &effectCtx{a: a, p: p}
		got := e.summarize(f.Obj)
		c, _ := pkg.Types.Scope().Lookup("maxSmallArrayLength").(*types.Const)
		v := int64(-1)
		if c != nil {
			v, _ = constant.Int64Val(c.Val())
		}
		r.Check("C22.short-header", "cbe.Encoder.writeSmallArrayHeader|bound", f.Decl.Pos(), strings.HasPrefix(got, "if($elementCount>maxSmallArrayLength){return}") && v == 15, fmt.Sprintf("short form must be refused only above 15 elements; the method does `%s` with maxSmallArrayLength=%d", got, v))
	}
	// every short-array code constant appears in arrayInfo
	used := map[string]bool{}
	for _, file := range pkg.Syntax {
		ast.Inspect(file, func(n ast.Node) bool {
			vs, ok := n.(*ast.ValueSpec)
			if ok && len(vs.Names) == 1 && vs.Names[0].Name == "arrayInfo" {
				ast.Inspect(vs, func(m ast.Node) bool {
					if id, ok := m.(*ast.Ident); ok {
						if c, ok := info.ObjectOf(id).(*types.Const); ok {
							used[c.Name()] = true
						}
					}
					return true
				})
			}
			return true
		})
	}
	nShort := 0
	for _, name := range pkg.Types.Scope().Names() {
		if strings.HasPrefix(name, "cbeTypeShortArray") || name == "cbeTypeString0" {
			nShort++
			r.Check("C22.short-header", "arrayInfo uses "+name, pkg.Types.Scope().Lookup(name).Pos(), used[name], "the format offers the short form "+name+" but no arrayInfo row uses it: such arrays are always written in the long form")
		}
	}
	r.Floor("C22.short-header", "short-form code constants", nShort, 12)
}

type orderedCase struct {
	Pos  token.Pos
	List []ast.Expr // nil: default
	Body []ast.Stmt
}

func dropTrailingReturn(b []ast.Stmt) []ast.Stmt {
	if len(b) > 0 {
		if ret, ok := b[len(b)-1].(*ast.ReturnStmt); ok && len(ret.Results) == 0 {
			return b[:len(b)-1]
		}
	}
	return b
}

// orderedCases reads a function body that is one first-match selection - a tagless switch, an if / else-if chain
// (with or without final else), or `if c { …; return }` guards followed by the default statements - as the ordered
// list of its cases.
func orderedCases(body []ast.Stmt) ([]orderedCase, bool) {
	if len(body) == 1 {
		if sw, ok := body[0].(*ast.SwitchStmt); ok && sw.Tag == nil && sw.Init == nil {
			var out []orderedCase
			for _, c := range sw.Body.List {
				cc := c.(*ast.CaseClause)
				for _, b := range cc.Body {
					if br, isBr := b.(*ast.BranchStmt); isBr && br.Tok == token.FALLTHROUGH {
						return nil, false
					}
				}
				out = append(out, orderedCase{cc.Pos(), cc.List, cc.Body})
			}
			return out, true
		}
	}
	var out []orderedCase
	for i := 0; i < len(body); i++ {
		ifs, ok := body[i].(*ast.IfStmt)
		if !ok || ifs.Init != nil {
			// the remaining statements are the default, allowed only after guards that all end in return
			if len(out) == 0 {
				return nil, false
			}
			out = append(out, orderedCase{body[i].Pos(), nil, body[i:]})
			return out, true
		}
		for {
			out = append(out, orderedCase{ifs.Pos(), []ast.Expr{ifs.Cond}, ifs.Body.List})
			switch e := ifs.Else.(type) {
			case nil:
				if i < len(body)-1 {
					// more statements follow: this guard must leave the function
					bl := ifs.Body.List
					if len(bl) == 0 {
						return nil, false
					}
					if _, isRet := bl[len(bl)-1].(*ast.ReturnStmt); !isRet {
						return nil, false
					}
				}
			case *ast.BlockStmt:
				if i != len(body)-1 {
					return nil, false
				}
				out = append(out, orderedCase{e.Pos(), nil, e.List})
				return out, true
			case *ast.IfStmt:
				if i != len(body)-1 || e.Init != nil {
					return nil, false
				}
				ifs = e
				continue
			}
			break
		}
	}
	return out, len(out) > 0
}

// linearTerm reads `x`, `x + c`, `c + x` (c a constant expression) as (object of x, value of c).
func linearTerm(info *types.Info, e ast.Expr) (types.Object, int64, bool) {
	e = stripParens(e)
	if be, ok := e.(*ast.BinaryExpr); ok && be.Op == token.ADD {
		if k, isC := constInt(info, be.Y); isC {
			if o := objOf(info, be.X); o != nil {
				return o, k, true
			}
		}
		if k, isC := constInt(info, be.X); isC {
			if o := objOf(info, be.Y); o != nil {
				return o, k, true
			}
		}
		return nil, 0, false
	}
	if o := objOf(info, e); o != nil {
		if _, isC := o.(*types.Const); !isC {
			return o, 0, true
		}
	}
	return nil, 0, false
}

// lengthPrefixOK: in Writer.WriteTypedInt there is a counter n such that the payload bytes are stored at
// Buffer[n+2] inside the loop that also advances n by one per byte, Buffer[1] receives byte(n), and the flush
// length is n+2.
func lengthPrefixOK(info *types.Info, f *fn) bool {
	var counter types.Object
	flushOK := false
	inspectCalls(info, f.Decl.Body, func(call *ast.CallExpr, cal *types.Func) {
		if cal != nil && cal.Name() == "FlushBufferFirstBytes" && len(call.Args) == 1 {
			if o, k, ok := linearTerm(info, call.Args[0]); ok && k == 2 {
				counter, flushOK = o, true
			}
		}
	})
	if !flushOK {
		return false
	}
	isBufferAt := func(e ast.Expr) (ast.Expr, bool) {
		ix, ok := stripParens(e).(*ast.IndexExpr)
		if !ok {
			return nil, false
		}
		if sel, ok := stripParens(ix.X).(*ast.SelectorExpr); !ok || sel.Sel.Name != "Buffer" {
			return nil, false
		}
		return ix.Index, true
	}
	countStored, payloadStored, advanced := false, false, false
	ast.Inspect(f.Decl.Body, func(n ast.Node) bool {
		loop, ok := n.(*ast.ForStmt)
		if !ok {
			return true
		}
		ast.Inspect(loop, func(m ast.Node) bool {
			switch s := m.(type) {
			case *ast.AssignStmt:
				if len(s.Lhs) == 1 {
					if idx, ok := isBufferAt(s.Lhs[0]); ok {
						if o, k, ok := linearTerm(info, idx); ok && o == counter && k == 2 {
							payloadStored = true
						}
					}
					if objOf(info, s.Lhs[0]) == counter && s.Tok == token.ADD_ASSIGN {
						if k, isC := constInt(info, s.Rhs[0]); isC && k == 1 {
							advanced = true
						}
					}
					if objOf(info, s.Lhs[0]) == counter && s.Tok == token.ASSIGN {
						if o, k, ok := linearTerm(info, s.Rhs[0]); ok && o == counter && k == 1 {
							advanced = true
						}
					}
				}
			case *ast.IncDecStmt:
				if s.Tok == token.INC && objOf(info, s.X) == counter {
					advanced = true
				}
			}
			return true
		})
		return true
	})
	ast.Inspect(f.Decl.Body, func(n ast.Node) bool {
		if s, ok := n.(*ast.AssignStmt); ok && len(s.Lhs) == 1 && len(s.Rhs) == 1 {
			if idx, ok := isBufferAt(s.Lhs[0]); ok {
				if k, isC := constInt(info, idx); isC && k == 1 && objOf(info, stripConv(info, s.Rhs[0])) == counter {
					countStored = true
				}
			}
		}
		return true
	})
	return countStored && payloadStored && advanced
}

// shiftsFloat32BitsBy: the function contains `math.Float32bits(…) >> k` with k of the given value (a literal or
// a named constant).
func shiftsFloat32BitsBy(info *types.Info, f *fn, want int64) bool {
	found := false
	ast.Inspect(f.Decl.Body, func(n ast.Node) bool {
		be, ok := n.(*ast.BinaryExpr)
		if !ok || be.Op != token.SHR {
			return true
		}
		k, isC := constInt(info, be.Y)
		if !isC || k != want {
			return true
		}
		operand := stripParens(be.X)
		// the pattern may have been put into a local first
		if id, ok := operand.(*ast.Ident); ok {
			if init := singleInit(info, f, info.ObjectOf(id)); init != nil {
				operand = stripParens(init)
			}
		}
		if call, ok := operand.(*ast.CallExpr); ok && isFunc(callee(info, call), "math", "Float32bits") {
			found = true
		}
		return true
	})
	return found
}

// singleInit returns the initialiser of a local that is defined once and never reassigned, nil otherwise.
func singleInit(info *types.Info, f *fn, obj types.Object) ast.Expr {
	return singleInitOpt(info, f, obj, false)
}

// singleInitOpt: with allowAddr the variable may have its address taken (the caller accepts writes through it).
func singleInitOpt(info *types.Info, f *fn, obj types.Object, allowAddr bool) ast.Expr {
	if obj == nil {
		return nil
	}
	var init ast.Expr
	writes := 0
	ast.Inspect(f.Decl.Body, func(n ast.Node) bool {
		switch s := n.(type) {
		case *ast.AssignStmt:
			for i, l := range s.Lhs {
				if objOf(info, l) == obj {
					writes++
					if len(s.Lhs) == len(s.Rhs) {
						init = s.Rhs[i]
					}
				}
			}
		case *ast.IncDecStmt:
			if objOf(info, s.X) == obj {
				writes += 2
			}
		case *ast.ValueSpec:
			for i, nm := range s.Names {
				if info.Defs[nm] == obj {
					writes++
					if i < len(s.Values) {
						init = s.Values[i]
					}
				}
			}
		case *ast.UnaryExpr:
			if s.Op == token.AND && objOf(info, s.X) == obj && !allowAddr {
				writes += 2
			}
		}
		return true
	})
	if writes == 1 {
		return init
	}
	return nil
}

// longHeaderOnlyAfterFailedShort: in the event method and the unexported Encoder helpers it calls, there is at least
// one Writer.WriteArrayHeader call and each is reached only after Encoder.writeSmallArrayHeader has been tried
// and returned false: inside `if !small(..) {…}`, in the else of `if small(..)`, or after `if small(..) { return }`.
func longHeaderOnlyAfterFailedShort(p *core.Program, info *types.Info, root *fn) bool {
	isSmall := func(e ast.Expr) bool {
		call, ok := stripParens(e).(*ast.CallExpr)
		if !ok {
			return false
		}
		cal := callee(info, call)
		return cal != nil && cal.Name() == "writeSmallArrayHeader" && recvNamed(cal) != nil && recvNamed(cal).Obj().Name() == "Encoder"
	}
	var hasSmallConj func(e ast.Expr) bool
	hasSmallConj = func(e ast.Expr) bool {
		e = stripParens(e)
		if isSmall(e) {
			return true
		}
		if be, ok := e.(*ast.BinaryExpr); ok && be.Op == token.LAND {
			return hasSmallConj(be.X) || hasSmallConj(be.Y)
		}
		return false
	}
	isNotSmall := func(e ast.Expr) bool {
		u, ok := stripParens(e).(*ast.UnaryExpr)
		return ok && u.Op == token.NOT && isSmall(u.X)
	}
	seen := map[*types.Func]bool{}
	nLong, allGuarded := 0, true
	var visit func(d *ast.FuncDecl, depth int)
	visit = func(d *ast.FuncDecl, depth int) {
		var stack []ast.Node
		ast.Inspect(d.Body, func(n ast.Node) bool {
			if n == nil {
				stack = stack[:len(stack)-1]
				return true
			}
			stack = append(stack, n)
			call, ok := n.(*ast.CallExpr)
			if !ok {
				return true
			}
			cal := callee(info, call)
			if cal == nil {
				return true
			}
			if cal.Name() == "WriteArrayHeader" && recvNamed(cal) != nil && recvNamed(cal).Obj().Name() == "Writer" {
				nLong++
				guarded := false
				for i := len(stack) - 2; i >= 0 && !guarded; i-- {
					child := stack[i+1]
					switch anc := stack[i].(type) {
					case *ast.IfStmt:
						if child == ast.Node(anc.Body) && isNotSmall(anc.Cond) {
							guarded = true
						}
						if anc.Else != nil && child == ast.Node(anc.Else) && hasSmallConj(anc.Cond) {
							guarded = true
						}
					case *ast.BlockStmt:
						for _, st := range anc.List {
							if ast.Node(st) == child {
								break
							}
							if ifs, ok := st.(*ast.IfStmt); ok && ifs.Else == nil && hasSmallConj(ifs.Cond) && len(ifs.Body.List) > 0 {
								if _, isRet := ifs.Body.List[len(ifs.Body.List)-1].(*ast.ReturnStmt); isRet {
									guarded = true
								}
							}
						}
					}
				}
				if !guarded {
					allGuarded = false
				}
				return true
			}
			if depth < 3 && !cal.Exported() && !seen[cal] && recvNamed(cal) != nil && recvNamed(cal).Obj().Name() == "Encoder" {
				seen[cal] = true
				if hd := p.FuncDecl(cal); hd != nil && hd.Body != nil {
					visit(hd, depth+1)
				}
			}
			return true
		})
	}
	visit(root.Decl, 0)
	return nLong > 0 && allGuarded
}
