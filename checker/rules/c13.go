package rules

import (
	"fmt"
	"go/ast"
	"go/token"
	"go/types"
	"sort"
	"strings"

	"verif/checker/core"
)

func init() { Registry["C13"] = checkC13 }

func checkC13(r *core.Run, p *core.Program) {
	r.Rule("C13.table", "the marker/reference columns of the validator's transition table (OnMarker, OnReferenceLocal in every context) and the complete rows of the two marked-object contexts equal the reference specification: markers are rejected on markers, references, record types; a reference in key position uses the keyable mask; the top level rejects references; a marked object is registered by every route (scalar, full array, chunked array end, container end).")
	r.Rule("C13.guards", "the Context primitives have the required shape: MarkObject (count guards against configured limits, duplicate-ID reject before insert, forward-reference type check), LocalReferenceObject (type check when already marked, otherwise recorded as forward reference), EndDocument (unresolved forward references reject), ValidateIdentifier (empty / longer than MaxIdentifierLength / unsafe characters reject) and IsIdentifierSafe checks every rune.")
	r.Rule("C13.identifier-first", "in RulesEventReceiver.OnMarker, OnReferenceLocal, OnRecord and OnRecordType the identifier is validated before the rule is consulted and before the event is forwarded.")
	r.Rule("C13.builder", "on the building side every builder's BuildFromLocalReference either rejects, delegates to another builder's BuildFromLocalReference, or registers a setter with NotifyLocalReference; the reference filler calls the setter immediately when the marker is known and otherwise queues it, and NotifyMarker stores the value, runs every queued setter and clears the queue.")
	r.NotDecide("that a reference is replaced by the *right* object (value-level); equality of the rebuilt graph (C20)")
	a := newAnalysis(p)

	// ---- table subset
	table, ruleTypes, events, pos := ruleTable(p, a)
	if table == nil {
		r.Undecided("C13.table", "rules.EventRule / rules.Context")
		return
	}
	spec := c10Spec()
	cells := 0
	for _, rt := range ruleTypes {
		cs, known := spec[rt]
		if !known {
			continue
		}
		isMarkerRow := strings.HasPrefix(rt, "MarkedObject")
		for _, ev := range events {
			if !isMarkerRow && ev != "OnMarker" && ev != "OnReferenceLocal" {
				continue
			}
			cells++
			want := cs[ev]
			if len(want) == 0 {
				want = []string{"reject"}
			}
			got := table[rt][ev]
			ok := false
			for _, w := range want {
				if sameEffect(got, []string{w}) {
					ok = true
				}
			}
			r.Check("C13.table", rt+"."+ev, pos[rt+"."+ev], ok, fmt.Sprintf("context %s, event %s: the code does `%s`; the reference specification requires `%s`", rt, ev, got, strings.Join(want, "` or `")))
		}
	}
	r.Floor("C13.table", "cells compared", cells, 2*19+2*21)

	// ---- guards
	checkCtxPrimitives(r, p, a, "C13.guards", "MarkObject", "LocalReferenceObject", "ValidateIdentifier", "BeginMarkerKeyable", "BeginMarkerAnyType",
		"MarkEndedContainer", "LocalReferenceKeyable", "LocalReferenceAnyType")
	if got, f := ctxSummary(p, a, "EndDocument"); f != nil {
		got = canonEffect(got)
		ok := strings.HasPrefix(got, "if(?pure:len($_this.forwardLocalReferences)>0){") && strings.Contains(got, "reject}")
		r.Check("C13.guards", "rules.Context.EndDocument|unresolved-references-reject", f.Decl.Pos(), ok, "EndDocument must reject when forward references are unresolved; it does `"+got+"`")
	} else {
		r.Undecided("C13.guards", "rules.Context.EndDocument")
	}
	// the operands of MarkObject and LocalReferenceObject (LocalReferenceCount+1, the markedObjects and
	// forwardLocalReferences lookups) are part of their reference specifications compared above
	// IsIdentifierSafe: empty -> false; every rune checked
	if f := findFn(p, "internal/chars", "IsIdentifierSafe"); f == nil {
		r.Undecided("C13.guards", "chars.IsIdentifierSafe")
	} else {
		e := &effectCtx{a: a, p: p}
		got := e.summarize(f.Obj)
		wantS := "if(?pure:len($str)==0){return}; ?stmt; return"
		_ = wantS
		info := f.Pkg.TypesInfo
		okEmpty, okLoop := false, false
		ast.Inspect(f.Decl.Body, func(n ast.Node) bool {
			switch s := n.(type) {
			case *ast.IfStmt:
				if condTestsEmpty(info, s.Cond, f.Obj.Type().(*types.Signature).Params().At(0)) {
					if ret, ok := s.Body.List[len(s.Body.List)-1].(*ast.ReturnStmt); ok && len(ret.Results) == 1 {
						if v := constVal(info, ret.Results[0]); v != nil && v.ExactString() == "false" {
							okEmpty = true
						}
					}
				}
			case *ast.ForStmt:
				// body: if !IsRuneValidIdentifier(r) { return false }
				ast.Inspect(s.Body, func(m ast.Node) bool {
					if ifs, ok := m.(*ast.IfStmt); ok {
						if u, ok := stripParens(ifs.Cond).(*ast.UnaryExpr); ok && u.Op == token.NOT {
							if c, ok := stripParens(u.X).(*ast.CallExpr); ok {
								if cal := callee(info, c); cal != nil && cal.Name() == "IsRuneValidIdentifier" {
									if ret, ok := ifs.Body.List[len(ifs.Body.List)-1].(*ast.ReturnStmt); ok && len(ret.Results) == 1 {
										if v := constVal(info, ret.Results[0]); v != nil && v.ExactString() == "false" {
											okLoop = true
										}
									}
								}
							}
						}
					}
					return true
				})
			}
			return true
		})
		r.Check("C13.guards", "internal/chars.IsIdentifierSafe", f.Decl.Pos(), okEmpty && okLoop, "IsIdentifierSafe must return false for an empty identifier and for any rune that is not identifier-safe; it does `"+got+"`")
	}

	// ---- identifier validated first
	ctxT := p.LookupType("rules", "Context")
	for _, ev := range []string{"OnMarker", "OnReferenceLocal", "OnRecord", "OnRecordType"} {
		f := findFn(p, "rules", "RulesEventReceiver."+ev)
		if f == nil {
			r.Undecided("C13.identifier-first", "rules.RulesEventReceiver."+ev)
			continue
		}
		info := f.Pkg.TypesInfo
		idParam := f.Obj.Type().(*types.Signature).Params().At(0)
		valPos, rulePos := token.NoPos, token.NoPos
		inspectCalls(info, f.Decl.Body, func(call *ast.CallExpr, cal *types.Func) {
			if cal == nil {
				return
			}
			if rn := recvNamed(cal); rn != nil && rn.Obj() == ctxT && cal.Name() == "ValidateIdentifier" && len(call.Args) == 1 && objOf(info, call.Args[0]) == idParam {
				if !valPos.IsValid() {
					valPos = call.Pos()
				}
			}
			if nt := namedOf(recvType(cal)); nt != nil && nt.Obj().Name() == "EventRule" && !rulePos.IsValid() {
				rulePos = call.Pos()
			}
		})
		r.Check("C13.identifier-first", "rules.RulesEventReceiver."+ev, f.Decl.Pos(), valPos.IsValid() && rulePos.IsValid() && valPos < rulePos,
			"the identifier of "+ev+" is not validated (ValidateIdentifier) before the rule is consulted: empty, over-long or malformed identifiers are accepted")
	}

	// ---- builder side
	checkReferenceFiller(r, p, a, "C13.builder")
}

// checkReferenceFiller is shared by C13.builder, C06.references and C20.deferred-fill.
func checkReferenceFiller(r *core.Run, p *core.Program, a *analysis, rule string) {
	pkg := p.Pkg("builder")
	info := pkg.TypesInfo
	iface := p.LookupType("builder", "Builder")
	if iface == nil {
		r.Undecided(rule, "builder.Builder")
		return
	}
	it := iface.Type().Underlying().(*types.Interface)
	ctxNotify := p.LookupFunc("builder", "Context.NotifyLocalReference")
	if ctxNotify == nil {
		r.Undecided(rule, "builder.Context.NotifyLocalReference")
		return
	}
	n := 0
	scope := pkg.Types.Scope()
	names := scope.Names()
	sort.Strings(names)
	for _, name := range names {
		tn, ok := scope.Lookup(name).(*types.TypeName)
		if !ok || tn == iface {
			continue
		}
		nt, ok := tn.Type().(*types.Named)
		if !ok || !types.Implements(types.NewPointer(nt), it) {
			continue
		}
		obj, _, _ := types.LookupFieldOrMethod(types.NewPointer(nt), true, pkg.Types, "BuildFromLocalReference")
		f, _ := obj.(*types.Func)
		d := p.FuncDecl(f)
		if f == nil || d == nil {
			continue
		}
		n++
		kind := ""
		switch {
		case a.alwaysPanics(info, d.Body.List):
			kind = "rejects"
		default:
			inspectCalls(info, d.Body, func(call *ast.CallExpr, cal *types.Func) {
				if cal == nil {
					return
				}
				if cal == ctxNotify {
					kind = "registers"
				} else if cal.Name() == "BuildFromLocalReference" && kind == "" {
					kind = "delegates"
				} else if kind == "" && core.InModule(cal) && a.reaches(cal, func(g *types.Func) bool { return g == ctxNotify }) {
					kind = "registers"
				}
			})
		}
		if kind == "" && strings.HasPrefix(name, "ignore") {
			kind = "ignores" // skipping builders count the object and drop it
		}
		r.Check(rule, "builder."+name+".BuildFromLocalReference", d.Pos(), kind != "",
			"a local reference delivered to this builder is neither rejected, delegated, nor registered with the reference filler: the reference is silently dropped and never replaced by the marked value")
	}
	r.Floor(rule, "builder types with BuildFromLocalReference", n, 50)

	// late binding: a setter queued for a forward reference runs after the container may have grown. In a builder
	// whose container is appended to (reflect.Append reallocates), the closure handed to NotifyLocalReference must not
	// capture an element obtained with Index() before the closure runs; it has to re-resolve the element when called.
	growable := map[*types.TypeName]bool{}
	for _, f := range funcsOf(pkg) {
		rn := recvNamed(f.Obj)
		if rn == nil {
			continue
		}
		inspectCalls(info, f.Decl.Body, func(call *ast.CallExpr, cal *types.Func) {
			if cal != nil && cal.Pkg() != nil && cal.Pkg().Path() == "reflect" && (cal.Name() == "Append" || cal.Name() == "AppendSlice") {
				growable[rn.Obj()] = true
			}
		})
	}
	nClos := 0
	for _, f := range funcsOf(pkg) {
		rn := recvNamed(f.Obj)
		inspectCalls(info, f.Decl.Body, func(call *ast.CallExpr, cal *types.Func) {
			if cal != ctxNotify || len(call.Args) != 2 {
				return
			}
			lit, ok := call.Args[1].(*ast.FuncLit)
			if !ok {
				return
			}
			nClos++
			if rn == nil || !growable[rn.Obj()] {
				return
			}
			// captured variables used in the closure
			bad := ""
			ast.Inspect(lit.Body, func(nd ast.Node) bool {
				id, ok := nd.(*ast.Ident)
				if !ok {
					return true
				}
				v, ok := info.Uses[id].(*types.Var)
				if !ok || v.Pos() >= lit.Pos() || v.Pos() < f.Decl.Pos() || !typeIs(v.Type(), "reflect", "Value") {
					return true
				}
				// definition of v in the enclosing function
				ast.Inspect(f.Decl.Body, func(m ast.Node) bool {
					as, ok := m.(*ast.AssignStmt)
					if !ok {
						return true
					}
					for i, lhs := range as.Lhs {
						if lid, ok := lhs.(*ast.Ident); ok && info.ObjectOf(lid) == v && i < len(as.Rhs) {
							// a copy of the container value itself (`c := **_this.ppContainer`): the slice header as it is now
							if st, isStar := stripParens(as.Rhs[i]).(*ast.StarExpr); isStar && typeIs(info.TypeOf(st), "reflect", "Value") {
								bad = v.Name()
							}
							ast.Inspect(as.Rhs[i], func(k ast.Node) bool {
								if c, ok := k.(*ast.CallExpr); ok {
									if cc := callee(info, c); cc != nil && cc.Name() == "Index" && typeIs(recvType(cc), "reflect", "Value") {
										bad = v.Name()
									}
								}
								return true
							})
						}
					}
					return true
				})
				return true
			})
			r.Check(rule, f.Name()+"|setter-resolves-element-late", call.Pos(), bad == "",
				"the setter queued for a forward reference captures "+bad+", an element obtained with Index() or a copy of the container value taken before the container can grow; after a reallocating append the setter writes into the old backing array and the reference is never filled in")
		})
	}
	r.Floor(rule, "setter closures handed to NotifyLocalReference", nClos, 5)
	checkValueContainerSetters(r, p, rule, ctxNotify)

	// filler shape
	if f := findFn(p, "builder", "ReferenceFiller.NotifyLocalReference"); f == nil {
		r.Undecided(rule, "builder.ReferenceFiller.NotifyLocalReference")
	} else {
		setter := f.Obj.Type().(*types.Signature).Params().At(1)
		immediate, queued := false, false
		// ok variable of the `value, ok := markedValues[id]` lookup
		var okObj types.Object
		ast.Inspect(f.Decl.Body, func(nd ast.Node) bool {
			if as, ok := nd.(*ast.AssignStmt); ok && len(as.Lhs) == 2 && len(as.Rhs) == 1 {
				if ix, ok := stripParens(as.Rhs[0]).(*ast.IndexExpr); ok {
					if fld := fieldOf(info, ix.X); fld != nil && fld.Name() == "markedValues" {
						okObj = objOf(info, as.Lhs[1])
					}
				}
			}
			return true
		})
		isOK := func(e ast.Expr) bool { return okObj != nil && objOf(info, e) == okObj }
		ast.Inspect(f.Decl.Body, func(nd ast.Node) bool {
			switch s := nd.(type) {
			case *ast.CallExpr:
				// setter(value): only where the marker is known
				if objOf(info, s.Fun) == setter {
					conds, pols := pathConds(a, info, f, s)
					if impliesAtomValue(info, f, conds, pols, isOK, true) {
						immediate = true
					}
				}
			case *ast.AssignStmt:
				// unresolvedReferences[id] = append(…, setter): only where the marker is not known
				if len(s.Lhs) == 1 && len(s.Rhs) == 1 {
					if ix, ok := s.Lhs[0].(*ast.IndexExpr); ok {
						if fld := fieldOf(info, ix.X); fld != nil && fld.Name() == "unresolvedReferences" {
							if c, ok := s.Rhs[0].(*ast.CallExpr); ok && len(c.Args) == 2 && objOf(info, c.Args[1]) == setter {
								conds, pols := pathConds(a, info, f, s)
								if impliesAtomValue(info, f, conds, pols, isOK, false) {
									queued = true
								}
							}
						}
					}
				}
			}
			return true
		})
		r.Check(rule, "builder.ReferenceFiller.NotifyLocalReference|call-or-queue", f.Decl.Pos(), immediate && queued,
			"NotifyLocalReference must call the setter at once when the marker is known and otherwise append it to the unresolved queue of that ID")
	}
	if f := findFn(p, "builder", "ReferenceFiller.NotifyMarker"); f == nil {
		r.Undecided(rule, "builder.ReferenceFiller.NotifyMarker")
	} else {
		value := f.Obj.Type().(*types.Signature).Params().At(1)
		stores, runsAll, clears := false, false, false
		ast.Inspect(f.Decl.Body, func(nd ast.Node) bool {
			switch s := nd.(type) {
			case *ast.AssignStmt:
				if len(s.Lhs) == 1 && len(s.Rhs) == 1 {
					if ix, ok := s.Lhs[0].(*ast.IndexExpr); ok {
						if fld := fieldOf(info, ix.X); fld != nil && fld.Name() == "markedValues" && objOf(info, s.Rhs[0]) == value {
							stores = true
						}
					}
				}
			case *ast.RangeStmt:
				if s.Value != nil {
					elem := objOf(info, s.Value)
					ast.Inspect(s.Body, func(m ast.Node) bool {
						if c, ok := m.(*ast.CallExpr); ok && objOf(info, c.Fun) == elem && len(c.Args) == 1 && objOf(info, c.Args[0]) == value {
							runsAll = true
						}
						return true
					})
				}
			case *ast.CallExpr:
				if id, ok := s.Fun.(*ast.Ident); ok && id.Name == "delete" && len(s.Args) == 2 {
					if fld := fieldOf(info, s.Args[0]); fld != nil && fld.Name() == "unresolvedReferences" {
						clears = true
					}
				}
			}
			return true
		})
		r.Check(rule, "builder.ReferenceFiller.NotifyMarker|store-run-clear", f.Decl.Pos(), stores && runsAll && clears,
			"NotifyMarker must store the marked value, call every queued setter with it and delete the queue")
	}
}

// checkValueContainerSetters: a builder whose product is a Go VALUE (a struct or array made with reflect.New(T).Elem(),
// the node) is copied into its parent when it finishes. A setter queued for a forward reference that writes into the
// builder's own value therefore fills in a copy nobody looks at any more: the reference stays nil in the result.
func checkValueContainerSetters(r *core.Run, p *core.Program, rule string, ctxNotify *types.Func) {
	pkg := p.Pkg("builder")
	info := pkg.TypesInfo
	isNewElem := func(e ast.Expr) bool {
		call, ok := stripParens(e).(*ast.CallExpr)
		if !ok {
			return false
		}
		c := callee(info, call)
		if c == nil || c.Name() != "Elem" || !typeIs(recvType(c), "reflect", "Value") {
			return false
		}
		sel, ok := call.Fun.(*ast.SelectorExpr)
		if !ok {
			return false
		}
		inner, ok := stripParens(sel.X).(*ast.CallExpr)
		return ok && isFunc(callee(info, inner), "reflect", "New")
	}
	// value-container fields per builder type
	valueFields := map[*types.Var]bool{}
	valueLocals := map[types.Object]bool{}
	for round := 0; round < 3; round++ {
		for _, f := range funcsOf(pkg) {
			ast.Inspect(f.Decl.Body, func(n ast.Node) bool {
				switch x := n.(type) {
				case *ast.AssignStmt:
					for i, l := range x.Lhs {
						if i >= len(x.Rhs) {
							continue
						}
						derived := isNewElem(x.Rhs[i]) || derivedFromValue(info, x.Rhs[i], valueFields, valueLocals)
						if !derived {
							continue
						}
						if fv := fieldOf(info, l); fv != nil && typeIs(fv.Type(), "reflect", "Value") {
							valueFields[fv] = true
						} else if o := objOf(info, l); o != nil && typeIs(o.Type(), "reflect", "Value") {
							valueLocals[o] = true
						}
					}
				case *ast.KeyValueExpr:
					if fv, ok := objOf(info, x.Key).(*types.Var); ok && fv.IsField() && typeIs(fv.Type(), "reflect", "Value") {
						if isNewElem(x.Value) || derivedFromValue(info, x.Value, valueFields, valueLocals) {
							valueFields[fv] = true
						}
					}
				}
				return true
			})
		}
	}
	n := 0
	for _, f := range funcsOf(pkg) {
		rn := recvNamed(f.Obj)
		if rn == nil || f.Obj.Name() != "BuildFromLocalReference" {
			continue
		}
		inspectCalls(info, f.Decl.Body, func(call *ast.CallExpr, cal *types.Func) {
			if cal != ctxNotify || len(call.Args) != 2 {
				return
			}
			lit, ok := call.Args[1].(*ast.FuncLit)
			if !ok {
				return
			}
			bad := ""
			ast.Inspect(lit.Body, func(k ast.Node) bool {
				switch x := k.(type) {
				case *ast.Ident:
					if o := info.Uses[x]; o != nil && valueLocals[o] {
						bad = x.Name
					}
				case *ast.SelectorExpr:
					if fv := fieldOf(info, x); fv != nil && valueFields[fv] {
						bad = exprStr(x)
					}
				}
				return true
			})
			n++
			r.Check(rule, f.Name()+"|a forward reference reaches the finished value", call.Pos(), bad == "",
				"the setter queued for a forward reference writes into "+bad+", which belongs to this builder's own copy of a struct/array/node value; the finished value is copied into its parent before the marker arrives, so the reference stays nil in the result ([{\"a\"=$x} {\"a\"=&x:5}] into []struct{A interface{}} gives [{<nil>} {5}])")
		})
	}
	_ = n
}

func derivedFromValue(info *types.Info, e ast.Expr, valueFields map[*types.Var]bool, valueLocals map[types.Object]bool) bool {
	for {
		switch x := stripParens(e).(type) {
		case *ast.CallExpr:
			c := callee(info, x)
			if c != nil && core.InModule(c) && typeIs(info.TypeOf(x), "reflect", "Value") {
				// a module helper that returns a view of (a field of) the value it is given: field.GetField(container)
				for _, a := range x.Args {
					if derivedFromValue(info, a, valueFields, valueLocals) {
						return true
					}
				}
				return false
			}
			sel, ok := x.Fun.(*ast.SelectorExpr)
			if c == nil || !ok || !typeIs(recvType(c), "reflect", "Value") {
				return false
			}
			switch c.Name() {
			case "Field", "Index", "FieldByIndex", "FieldByName":
				e = sel.X
			default:
				return false
			}
		case *ast.Ident:
			return valueLocals[info.ObjectOf(x)]
		case *ast.SelectorExpr:
			fv := fieldOf(info, x)
			return fv != nil && valueFields[fv]
		default:
			return false
		}
	}
}
