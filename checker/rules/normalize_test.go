package rules

import "testing"

func TestCanonEffect(t *testing.T) {
	ref := "if($_this.containerDepth==0){reject}; if($_this.CurrentEntry.ExpectedObjectCount>=0&&$_this.CurrentEntry.CurrentObjectCount!=$_this.CurrentEntry.ExpectedObjectCount){reject}; if($_this.CurrentEntry.DataType==DataTypeRecordType){ctx.addRecordType($_this.recordTypeName,$_this.CurrentEntry.CurrentObjectCount)}; --($_this.containerDepth); ctx.endContainerLike($notifyParent)"
	same := []string{
		"if($_this.containerDepth==0){reject}; def($v1=$_this.CurrentEntry.CurrentObjectCount); def($v2=$_this.CurrentEntry.ExpectedObjectCount); if($v2>=0&&$v1!=$v2){reject}; if($_this.CurrentEntry.DataType==DataTypeRecordType){ctx.addRecordType($_this.recordTypeName,$_this.CurrentEntry.CurrentObjectCount)}; --($_this.containerDepth); ctx.endContainerLike($notifyParent)",
		"if($_this.containerDepth==0){reject}; if($_this.CurrentEntry.ExpectedObjectCount>=0&&$_this.CurrentEntry.CurrentObjectCount!=$_this.CurrentEntry.ExpectedObjectCount){reject}; switch($_this.CurrentEntry.DataType){DataTypeRecordType:ctx.addRecordType($_this.recordTypeName,$_this.CurrentEntry.CurrentObjectCount)}; set($_this.containerDepth-=1); ctx.endContainerLike($notifyParent); return",
	}
	for _, s := range same {
		if canonEffect(s) != canonEffect(ref) {
			t.Errorf("not equal:\n got  %s\n want %s", canonEffect(s), canonEffect(ref))
		}
	}
	differ := []string{
		// compare before increment
		"if($_this.containerDepth==0){reject}; def($v1=$_this.CurrentEntry.CurrentObjectCount); ++($_this.CurrentEntry.CurrentObjectCount); if($_this.CurrentEntry.ExpectedObjectCount>=0&&$v1!=$_this.CurrentEntry.ExpectedObjectCount){reject}; if($_this.CurrentEntry.DataType==DataTypeRecordType){ctx.addRecordType($_this.recordTypeName,$_this.CurrentEntry.CurrentObjectCount)}; --($_this.containerDepth); ctx.endContainerLike($notifyParent)",
	}
	for _, s := range differ {
		if canonEffect(s) == canonEffect(ref) {
			t.Errorf("must differ: %s", s)
		}
	}
	// guard order / early exits
	a := "if($length==0){ctx.tryEndArray($moreChunksFollow,nil); return}; ctx.BeginChunkAnyType($length,$moreChunksFollow)"
	b := "if($length!=0){ctx.BeginChunkAnyType($length,$moreChunksFollow); return}; ctx.tryEndArray($moreChunksFollow,nil)"
	if canonEffect(a) != canonEffect(b) {
		t.Errorf("early exit inversion:\n %s\n %s", canonEffect(a), canonEffect(b))
	}
	c := "if($x>$limit){reject}; ctx.A()"
	d := "if($x>=$limit){reject}; ctx.A()"
	if canonEffect(c) == canonEffect(d) {
		t.Errorf("operators must stay distinct")
	}
	e := "def($v1=$_this.CurrentEntry.DataType); ctx.UnstackRule(); if($notifyParent){cur.OnChildContainerEnded($_this,$v1)}"
	if canonEffect(e) != e {
		t.Errorf("def across an impure call must be kept: %s", canonEffect(e))
	}
}
