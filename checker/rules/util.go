// Package rules holds the repository-specific rules, one file per property.
package rules

import (
	"fmt"
	"go/ast"
	"go/constant"
	"go/token"
	"go/types"
	"sort"
	"strings"

	"golang.org/x/tools/go/packages"
	"golang.org/x/tools/go/types/typeutil"

	"verif/checker/core"
)

// Registry maps a property id to its check.
var Registry = map[string]func(r *core.Run, p *core.Program){}

// ---------------------------------------------------------------------------
// AST helpers (all resolution goes through go/types, never through names in text)

// fn bundles a function declaration with its package.
type fn struct {
	Pkg  *packages.Package
	Decl *ast.FuncDecl
	Obj  *types.Func
}

func (f *fn) Name() string { return core.ObjName(f.Obj) }

// funcsOf lists every function/method declaration with a body in a package.
func funcsOf(pkg *packages.Package) []*fn {
	var out []*fn
	for _, file := range pkg.Syntax {
		for _, d := range file.Decls {
			fd, ok := d.(*ast.FuncDecl)
			if !ok || fd.Body == nil {
				continue
			}
			obj, _ := pkg.TypesInfo.Defs[fd.Name].(*types.Func)
			if obj == nil {
				continue
			}
			out = append(out, &fn{pkg, fd, obj})
		}
	}
	sort.Slice(out, func(i, j int) bool { return out[i].Name() < out[j].Name() })
	return out
}

// findFn returns the declaration of a function "name" or method "T.m" in a package.
func findFn(p *core.Program, rel, name string) *fn {
	obj := p.LookupFunc(rel, name)
	if obj == nil {
		return nil
	}
	d := p.FuncDecl(obj)
	if d == nil || d.Body == nil {
		return nil
	}
	// a promoted method found through embedding belongs to another package/type: still fine
	pkg := p.Pkgs[core.Rel(obj.Pkg())]
	if pkg == nil {
		return nil
	}
	return &fn{pkg, d, obj}
}

// callee resolves the static callee of a call (function, method or interface method).
func callee(info *types.Info, call *ast.CallExpr) *types.Func {
	f, _ := typeutil.Callee(info, call).(*types.Func)
	return f
}

// isMethod reports whether f is the method `name` of the named type typ in package path suffix rel.
func isMethodOf(f *types.Func, rel, typ, name string) bool {
	if f == nil || f.Name() != name {
		return false
	}
	sig, _ := f.Type().(*types.Signature)
	if sig == nil || sig.Recv() == nil {
		return false
	}
	t := sig.Recv().Type()
	if pt, ok := t.(*types.Pointer); ok {
		t = pt.Elem()
	}
	nt, ok := t.(*types.Named)
	if !ok {
		return false
	}
	return nt.Obj().Name() == typ && pkgIs(nt.Obj().Pkg(), rel)
}

// recvNamed returns the named receiver type of a method (nil for functions).
func recvNamed(f *types.Func) *types.Named {
	if f == nil {
		return nil
	}
	sig, _ := f.Type().(*types.Signature)
	if sig == nil || sig.Recv() == nil {
		return nil
	}
	t := sig.Recv().Type()
	if pt, ok := t.(*types.Pointer); ok {
		t = pt.Elem()
	}
	nt, _ := t.(*types.Named)
	return nt
}

// pkgIs reports whether pkg is the module package rel ("rules") or a foreign package with that full path ("math/big").
func pkgIs(pkg *types.Package, rel string) bool {
	if pkg == nil {
		return false
	}
	return pkg.Path() == core.ModulePath+"/"+rel || pkg.Path() == rel
}

// isFunc reports whether f is the package-level function pkgpath.name (no receiver).
func isFunc(f *types.Func, pkgpath, name string) bool {
	if f == nil || f.Name() != name || !pkgIs(f.Pkg(), pkgpath) {
		return false
	}
	sig, _ := f.Type().(*types.Signature)
	return sig != nil && sig.Recv() == nil
}

// constVal returns the constant value of an expression, if it has one.
func constVal(info *types.Info, e ast.Expr) constant.Value {
	if tv, ok := info.Types[e]; ok {
		return tv.Value
	}
	return nil
}

func constInt(info *types.Info, e ast.Expr) (int64, bool) {
	v := constVal(info, e)
	if v == nil {
		return 0, false
	}
	if v.Kind() != constant.Int {
		v = constant.ToInt(v)
		if v.Kind() != constant.Int {
			return 0, false
		}
	}
	i, ok := constant.Int64Val(v)
	if !ok {
		// large uint64
		u, ok2 := constant.Uint64Val(v)
		return int64(u), ok2
	}
	return i, ok
}

func constUint(info *types.Info, e ast.Expr) (uint64, bool) {
	v := constVal(info, e)
	if v == nil {
		return 0, false
	}
	v = constant.ToInt(v)
	if v.Kind() != constant.Int {
		return 0, false
	}
	return constant.Uint64Val(v)
}

// objOf returns the object an identifier or selector refers to.
func objOf(info *types.Info, e ast.Expr) types.Object {
	switch e := e.(type) {
	case *ast.Ident:
		return info.ObjectOf(e)
	case *ast.SelectorExpr:
		return info.ObjectOf(e.Sel)
	case *ast.ParenExpr:
		return objOf(info, e.X)
	}
	return nil
}

// stripParens removes parentheses.
func stripParens(e ast.Expr) ast.Expr {
	for {
		p, ok := e.(*ast.ParenExpr)
		if !ok {
			return e
		}
		e = p.X
	}
}

// stripConv removes parentheses and type conversions T(x).
func stripConv(info *types.Info, e ast.Expr) ast.Expr {
	for {
		e = stripParens(e)
		call, ok := e.(*ast.CallExpr)
		if !ok || len(call.Args) != 1 {
			return e
		}
		if tv, ok := info.Types[call.Fun]; ok && tv.IsType() {
			e = call.Args[0]
			continue
		}
		return e
	}
}

// exprStr renders an expression compactly.
func exprStr(e ast.Expr) string { return types.ExprString(e) }

// switchCase is one clause of an expression switch.
type switchCase struct {
	Consts  []constant.Value
	Exprs   []ast.Expr
	Default bool
	Body    []ast.Stmt
	Clause  *ast.CaseClause
}

// switchTable extracts the clauses of an expression switch with constant cases.
func switchTable(info *types.Info, sw *ast.SwitchStmt) []switchCase {
	var out []switchCase
	for _, s := range sw.Body.List {
		cc := s.(*ast.CaseClause)
		c := switchCase{Body: cc.Body, Clause: cc, Default: cc.List == nil}
		for _, e := range cc.List {
			c.Exprs = append(c.Exprs, e)
			c.Consts = append(c.Consts, constVal(info, e))
		}
		out = append(out, c)
	}
	return out
}

// paramIndex returns the index of the parameter object among the function's parameters (-1 if none).
func paramIndex(f *types.Func, obj types.Object) int {
	sig := f.Type().(*types.Signature)
	for i := 0; i < sig.Params().Len(); i++ {
		if sig.Params().At(i) == obj {
			return i
		}
	}
	return -1
}

// inspectCalls visits every call expression in a node with its resolved callee.
func inspectCalls(info *types.Info, n ast.Node, f func(call *ast.CallExpr, callee *types.Func)) {
	ast.Inspect(n, func(n ast.Node) bool {
		if c, ok := n.(*ast.CallExpr); ok {
			f(c, callee(info, c))
		}
		return true
	})
}

// alwaysPanics reports whether executing the statement list certainly ends in a panic
// (explicit panic, or a call to a helper that always panics) — used to recognise "reject" branches.
func (a *analysis) alwaysPanics(info *types.Info, stmts []ast.Stmt) bool {
	for i, s := range stmts {
		// an earlier statement that can return (a return nested in an if/switch/loop) means the list does not always panic
		if i > 0 {
			escapes := false
			ast.Inspect(stmts[i-1], func(n ast.Node) bool {
				switch n.(type) {
				case *ast.FuncLit:
					return false
				case *ast.ReturnStmt:
					escapes = true
				}
				return true
			})
			if escapes {
				return false
			}
		}
		switch s := s.(type) {
		case *ast.ExprStmt:
			if call, ok := s.X.(*ast.CallExpr); ok && a.callPanics(info, call) {
				return true
			}
		case *ast.BlockStmt:
			if a.alwaysPanics(info, s.List) {
				return true
			}
		case *ast.IfStmt:
			if s.Else != nil {
				var els []ast.Stmt
				switch e := s.Else.(type) {
				case *ast.BlockStmt:
					els = e.List
				default:
					els = []ast.Stmt{e}
				}
				if a.alwaysPanics(info, s.Body.List) && a.alwaysPanics(info, els) {
					return true
				}
			}
		case *ast.ReturnStmt:
			return false
		}
	}
	return false
}

// callPanics: the call never returns normally.
func (a *analysis) callPanics(info *types.Info, call *ast.CallExpr) bool {
	if id, ok := stripParens(call.Fun).(*ast.Ident); ok {
		if b, ok := info.Uses[id].(*types.Builtin); ok && b.Name() == "panic" {
			return true
		}
	}
	f := callee(info, call)
	return f != nil && a.funcAlwaysPanics(f)
}

// analysis caches per-program facts.
type analysis struct {
	p           *core.Program
	panicsCache map[*types.Func]int // 0 unknown, 1 computing, 2 yes, 3 no
	refCache    map[*types.Func][]*types.Func
}

func newAnalysis(p *core.Program) *analysis {
	fillConstValues(p)
	return &analysis{p: p, panicsCache: map[*types.Func]int{}}
}

var constValuesFor *core.Program

// fillConstValues collects the module's numeric constants of basic (non-enum) type by name, for canonEffect.
func fillConstValues(p *core.Program) {
	if constValuesFor == p {
		return
	}
	constValuesFor = p
	vals := map[string]string{}
	amb := map[string]bool{}
	for _, pkg := range p.Pkgs {
		sc := pkg.Types.Scope()
		for _, n := range sc.Names() {
			c, ok := sc.Lookup(n).(*types.Const)
			if !ok {
				continue
			}
			b, isBasic := c.Type().(*types.Basic)
			if !isBasic || b.Info()&types.IsNumeric == 0 || c.Val().Kind() != constant.Int {
				continue
			}
			v := c.Val().ExactString()
			if old, seen := vals[n]; seen && old != v {
				amb[n] = true
			}
			vals[n] = v
		}
		// function-local constants
		for _, o := range pkg.TypesInfo.Defs {
			c, ok := o.(*types.Const)
			if !ok || c.Parent() == sc {
				continue
			}
			b, isBasic := c.Type().(*types.Basic)
			if !isBasic || b.Info()&types.IsNumeric == 0 || c.Val().Kind() != constant.Int {
				continue
			}
			v := c.Val().ExactString()
			if old, seen := vals[c.Name()]; seen && old != v {
				amb[c.Name()] = true
			}
			vals[c.Name()] = v
		}
	}
	for n := range amb {
		delete(vals, n)
	}
	constValues = vals
}

// funcAlwaysPanics: every path through the module function f ends in a panic
// (e.g. errorf, unexpectedError, wrongType, PanicBadEvent*). Interface methods and
// foreign functions are "no".
func (a *analysis) funcAlwaysPanics(f *types.Func) bool {
	switch a.panicsCache[f] {
	case 2:
		return true
	case 1, 3:
		return false
	}
	a.panicsCache[f] = 1
	res := false
	if d := a.p.FuncDecl(f); d != nil && d.Body != nil {
		pkg := a.p.Pkgs[core.Rel(f.Pkg())]
		if pkg != nil {
			res = a.alwaysPanics(pkg.TypesInfo, d.Body.List)
		}
	}
	if res {
		a.panicsCache[f] = 2
	} else {
		a.panicsCache[f] = 3
	}
	return res
}

// fieldOf returns the struct field object a selector expression denotes (nil if not a field).
func fieldOf(info *types.Info, e ast.Expr) *types.Var {
	sel, ok := stripParens(e).(*ast.SelectorExpr)
	if !ok {
		return nil
	}
	if s := info.Selections[sel]; s != nil && s.Kind() == types.FieldVal {
		return s.Obj().(*types.Var)
	}
	return nil
}

// namedOf returns the named type of t, looking through one pointer.
func namedOf(t types.Type) *types.Named {
	if t == nil {
		return nil
	}
	if pt, ok := t.Underlying().(*types.Pointer); ok {
		t = pt.Elem()
	}
	if pt, ok := t.(*types.Pointer); ok {
		t = pt.Elem()
	}
	nt, _ := t.(*types.Named)
	return nt
}

func typeIs(t types.Type, pkgpath, name string) bool {
	nt := namedOf(t)
	return nt != nil && nt.Obj().Name() == name && pkgIs(nt.Obj().Pkg(), pkgpath)
}

func posOf(n ast.Node) token.Pos {
	if n == nil {
		return token.NoPos
	}
	return n.Pos()
}

func sortedKeys[V any](m map[string]V) []string {
	var ks []string
	for k := range m {
		ks = append(ks, k)
	}
	sort.Strings(ks)
	return ks
}

func joinInts(xs []int64) string {
	var s []string
	for _, x := range xs {
		s = append(s, fmt.Sprint(x))
	}
	return strings.Join(s, ",")
}

// refs lists the module/foreign functions referenced (called, or used as a value) by f's body.
func (a *analysis) refs(f *types.Func) []*types.Func {
	if a.refCache == nil {
		a.refCache = map[*types.Func][]*types.Func{}
	}
	if r, ok := a.refCache[f]; ok {
		return r
	}
	a.refCache[f] = nil
	d := a.p.FuncDecl(f)
	if d == nil || d.Body == nil {
		return nil
	}
	pkg := a.p.Pkgs[core.Rel(f.Pkg())]
	if pkg == nil {
		return nil
	}
	seen := map[*types.Func]bool{}
	var out []*types.Func
	ast.Inspect(d.Body, func(n ast.Node) bool {
		var id *ast.Ident
		switch x := n.(type) {
		case *ast.Ident:
			id = x
		case *ast.SelectorExpr:
			id = x.Sel
		}
		if id != nil {
			if fn, ok := pkg.TypesInfo.Uses[id].(*types.Func); ok && !seen[fn] {
				seen[fn] = true
				out = append(out, fn)
			}
		}
		return true
	})
	a.refCache[f] = out
	return out
}

// reaches: some function satisfying pred is referenced transitively from f (through module function bodies).
func (a *analysis) reaches(f *types.Func, pred func(*types.Func) bool) bool {
	seen := map[*types.Func]bool{}
	var dfs func(g *types.Func) bool
	dfs = func(g *types.Func) bool {
		if seen[g] {
			return false
		}
		seen[g] = true
		if pred(g) {
			return true
		}
		for _, h := range a.refs(g) {
			if dfs(h) {
				return true
			}
		}
		return false
	}
	return dfs(f)
}

// nodeReaches: some function satisfying pred is referenced from the AST node n (directly or transitively).
func (a *analysis) nodeReaches(info *types.Info, n ast.Node, pred func(*types.Func) bool) bool {
	found := false
	ast.Inspect(n, func(x ast.Node) bool {
		var id *ast.Ident
		switch y := x.(type) {
		case *ast.Ident:
			id = y
		case *ast.SelectorExpr:
			id = y.Sel
		}
		if id != nil && !found {
			if fn, ok := info.Uses[id].(*types.Func); ok && a.reaches(fn, pred) {
				found = true
			}
		}
		return !found
	})
	return found
}

func isUTF8Valid(f *types.Func) bool {
	return f.Pkg() != nil && f.Pkg().Path() == "unicode/utf8" && (f.Name() == "Valid" || f.Name() == "ValidString")
}
