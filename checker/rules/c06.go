package rules

import (
	"fmt"
	"go/ast"
	"go/token"
	"go/types"
	"os"
	"sort"
	"strings"

	"verif/checker/core"
)

func init() { Registry["C06"] = checkC06 }

// checkSelfStackPairing (C04/C06 edge-end): a builder that puts itself on the builder stack when a container begins
// must leave the stack from the container's end event (or, for wrappers, when its child reports completion), never
// from a value event — otherwise the container's own end event is delivered to the enclosing builder.
func checkSelfStackPairing(r *core.Run, m *builderMatrix, rule string) {
	n := 0
	for _, t := range m.types {
		stacks := false
		for meth, s := range m.cell[t] {
			if strings.HasPrefix(meth, "BuildBegin") && strings.HasPrefix(s, "ctx.StackBuilder($_this)") {
				stacks = true
			}
		}
		if !stacks {
			continue
		}
		n++
		end := m.cell[t]["BuildEndContainer"]
		notify := m.cell[t]["NotifyChildContainerFinished"]
		leavesAtEnd := end != "reject" && (strings.Contains(end, "ctx.Unstack") || strings.Contains(end, "ctx.EndRecordType"))
		leavesOnChild := strings.Contains(notify, "ctx.Unstack")
		r.Check(rule, "builder."+t+"|leaves the stack at container end", posOfFunc(m, t, "BuildEndContainer"), leavesAtEnd || leavesOnChild,
			"this builder stacks itself when its container begins but neither its BuildEndContainer nor its NotifyChildContainerFinished removes it again")
		var bad []string
		for _, meth := range m.methods {
			if !(strings.HasPrefix(meth, "BuildFrom")) {
				continue
			}
			if strings.Contains(m.cell[t][meth], "ctx.UnstackBuilder") {
				bad = append(bad, meth)
			}
		}
		sort.Strings(bad)
		r.Check(rule, "builder."+t+"|does not unstack itself from a value event", posOfFunc(m, t, "BuildBeginEdgeContents"), len(bad) == 0,
			fmt.Sprintf("this builder removes itself from the builder stack inside value events (%s…): it is gone when the container's end event arrives, so the end event closes the ENCLOSING container instead (documents with such a container inside a list or map cannot be unmarshaled, and the marshaler's counterpart omits the end event)", strings.Join(firstN(bad, 3), ", ")))
	}
	r.Floor(rule, "self-stacking builders", n, 6)
}

func posOfFunc(m *builderMatrix, t, meth string) token.Pos {
	if f := m.fn[t][meth]; f != nil {
		return f.Pos()
	}
	return token.NoPos
}

// checkTerminators (C09): the artificial terminator of a real container finishes it exactly as its end event does.
func checkTerminators(r *core.Run, m *builderMatrix, rule string) {
	n := 0
	for _, t := range m.types {
		end := m.cell[t]["BuildEndContainer"]
		if end == "reject" || end == "?missing" {
			continue
		}
		n++
		art := m.cell[t]["BuildArtificiallyEndContainer"]
		ok := art == end || (strings.HasPrefix(end, "iface.BuildEndContainer(") && strings.HasPrefix(art, "iface.BuildArtificiallyEndContainer("))
		// a pure wrapper (its regular end only delegates) holds no decoded part of its own: on a decoding error it may
		// simply leave the stack (whether it may forward instead is C09.stacked-wrapper's question)
		if strings.HasPrefix(end, "iface.BuildEndContainer(") && !strings.Contains(end, ";") && art == "ctx.UnstackThisBuilder($_this)" {
			ok = true
		}
		r.Check(rule, "builder."+t+".BuildArtificiallyEndContainer", posOfFunc(m, t, "BuildArtificiallyEndContainer"), ok,
			fmt.Sprintf("on a decoding error this container builder does `%s` but a regular end does `%s`: the completely decoded part of the container is dropped or handled differently when the document is truncated", art, end))
	}
	r.Floor(rule, "container builders with an end handler", n, 7)
}

func checkC06(r *core.Run, p *core.Program) {
	r.Rule("C06.handlers", "every value event the validator can accept in a value position has a non-rejecting handler in the builder that receives it when no template is given (the interface builder, reached directly or by delegation from the top-level, list, map, edge, node, marker and record builders), and the interface builder's switch over array types covers every array type that can be delivered as a whole or chunked array.")
	r.Rule("C06.edge-end", "a builder that stacks itself when a container begins leaves the stack at the container's end event (or when its child completes), never from a value event.")
	r.Rule("C06.references", "every builder rejects, delegates or registers a local reference with the reference filler; the filler calls or queues the setter and runs and clears the queue when the marker arrives; setters of growable containers resolve their element when called.")

	r.Rule("C06.retained-bytes", "every builder that keeps a byte slice handed in by an event (in the built value, a field, or a deferred closure) copies it first: the decoders reuse their buffers, so an uncopied slice changes when the next array, identifier or chunk is read.")
	nRet := checkRetainedBytes(r, p, "C06.retained-bytes", nil)
	r.Floor("C06.retained-bytes", "event-facing byte-slice parameters in package builder", nRet, 40)
	// a wrapper that pops "the top of the stack" after delegating a value event pops the wrong builder when the delegate stacked one
	r.Rule("C06.unstack-self", "a builder that delegates a value event to a child builder and then leaves the stack removes ITSELF (UnstackThisBuilder), not whatever is on top: some delegates (the node builder, once it has its value) stack a builder of their own during that event, and popping the top would remove that one.")
	{
		bpkg := p.Pkg("builder")
		binfo := bpkg.TypesInfo
		// methods (by name) of which some implementation stacks a builder
		stacking := map[string]string{}
		popsTop := map[*types.Func]bool{} // helper methods that call ctx.UnstackBuilder()
		for _, f := range funcsOf(bpkg) {
			if recvNamed(f.Obj) == nil {
				continue
			}
			inspectCalls(binfo, f.Decl.Body, func(call *ast.CallExpr, c *types.Func) {
				if c == nil {
					return
				}
				if isMethodOf(c, "builder", "Context", "StackBuilder") || strings.HasPrefix(c.Name(), "BuildBegin") {
					if strings.HasPrefix(f.Obj.Name(), "BuildFrom") {
						stacking[f.Obj.Name()] = f.Name()
					}
				}
				if isMethodOf(c, "builder", "Context", "UnstackBuilder") {
					popsTop[f.Obj] = true
				}
			})
		}
		// one level: helper methods of a type that call a stacking helper (nodeBuilder.stackChildrenBuilder)
		for _, f := range funcsOf(bpkg) {
			if recvNamed(f.Obj) == nil || !strings.HasPrefix(f.Obj.Name(), "BuildFrom") {
				continue
			}
			inspectCalls(binfo, f.Decl.Body, func(call *ast.CallExpr, c *types.Func) {
				if c == nil || recvNamed(c) == nil || recvNamed(c).Obj() != recvNamed(f.Obj).Obj() {
					return
				}
				if d := p.FuncDecl(c); d != nil {
					inspectCalls(binfo, d.Body, func(call2 *ast.CallExpr, c2 *types.Func) {
						if c2 != nil && (isMethodOf(c2, "builder", "Context", "StackBuilder") || strings.HasPrefix(c2.Name(), "BuildBegin")) {
							stacking[f.Obj.Name()] = f.Name()
						}
					})
				}
			})
		}
		nW := 0
		for _, f := range funcsOf(bpkg) {
			if recvNamed(f.Obj) == nil || !strings.HasPrefix(f.Obj.Name(), "BuildFrom") {
				continue
			}
			// delegation to a field of interface type Builder, followed by a pop of the top (direct or via a helper of the same type)
			var delegPos, popPos token.Pos
			inspectCalls(binfo, f.Decl.Body, func(call *ast.CallExpr, c *types.Func) {
				if c == nil {
					return
				}
				if sel, ok := call.Fun.(*ast.SelectorExpr); ok && c.Name() == f.Obj.Name() {
					if fv := fieldOf(binfo, sel.X); fv != nil {
						if _, isIface := fv.Type().Underlying().(*types.Interface); isIface {
							delegPos = call.Pos()
						}
					}
				}
				if isMethodOf(c, "builder", "Context", "UnstackBuilder") || popsTop[c] {
					if popPos == token.NoPos || call.Pos() > popPos {
						popPos = call.Pos()
					}
				}
			})
			if delegPos == token.NoPos {
				continue
			}
			nW++
			bad := popPos != token.NoPos && popPos > delegPos && stacking[f.Obj.Name()] != ""
			r.Check("C06.unstack-self", f.Name()+"|leaves the stack by removing itself", f.Decl.Pos(), !bad,
				"after delegating "+f.Obj.Name()+" to its child this builder pops the TOP of the builder stack; "+stacking[f.Obj.Name()]+" stacks a builder during that very event, so the wrong builder is removed (a marker in a node's value position breaks the node)")
		}
		r.Floor("C06.unstack-self", "value events delegated to a child builder held in a field", nW, 17)
	}
	// a key/value alternating builder must know which position a reference arrives in
	if f := findFn(p, "builder", "mapBuilder.BuildFromLocalReference"); f == nil {
		r.Undecided("C06.references", "builder.mapBuilder.BuildFromLocalReference")
	} else {
		binfo := f.Pkg.TypesInfo
		looks := false
		ast.Inspect(f.Decl.Body, func(n ast.Node) bool {
			if ifs, ok := n.(*ast.IfStmt); ok {
				if fv := fieldOf(binfo, stripParens(ifs.Cond)); fv != nil && fv.Name() == "builderIndex" {
					looks = true
				}
				if be, ok := stripParens(ifs.Cond).(*ast.BinaryExpr); ok {
					for _, side := range []ast.Expr{be.X, be.Y} {
						if fv := fieldOf(binfo, side); fv != nil && fv.Name() == "builderIndex" {
							looks = true
						}
					}
				}
			}
			return true
		})
		r.Check("C06.references", "(*builder.mapBuilder).BuildFromLocalReference|distinguishes key position from value position", f.Decl.Pos(), looks,
			"a reference can stand in key position ({$id = value}); the map builder treats every reference as a value and stores it under a key that is not set yet (reflect panics)")
	}
	// dates and times of day have no Go time equivalent: only timestamps may be converted
	r.Rule("C06.time-kind", "the untyped builder converts a time value to a Go time.Time only when it is a timestamp (the conversion is guarded by the value's type being TimeTypeTimestamp); a date or a time of day is kept as the compact time value, because as a Go time it would be re-marshaled as a timestamp of another day or year.")
	if f := findFn(p, "builder", "interfaceBuilder.BuildFromTime"); f == nil {
		r.Undecided("C06.time-kind", "builder.interfaceBuilder.BuildFromTime")
	} else {
		binfo := f.Pkg.TypesInfo
		// every use of the Go time obtained from AsGoTime must lie on paths whose conditions imply
		// `value.Type == TimeTypeTimestamp` (decided by enumerating the truth values of the atoms of those conditions)
		converts, guarded := false, true
		var goTime types.Object
		var defStmt ast.Node
		ast.Inspect(f.Decl.Body, func(n ast.Node) bool {
			if as, ok := n.(*ast.AssignStmt); ok && len(as.Rhs) == 1 && len(as.Lhs) >= 1 {
				if call, ok := stripParens(as.Rhs[0]).(*ast.CallExpr); ok {
					if c := callee(binfo, call); c != nil && c.Name() == "AsGoTime" {
						goTime, defStmt = objOf(binfo, as.Lhs[0]), as
						converts = true
					}
				}
			}
			return true
		})
		if converts && goTime == nil {
			guarded = false
		}
		isTimestampAtom := func(e ast.Expr) bool {
			be, ok := stripParens(e).(*ast.BinaryExpr)
			if !ok || be.Op != token.EQL {
				return false
			}
			for _, side := range []ast.Expr{be.X, be.Y} {
				if o := objOf(binfo, side); o != nil && o.Name() == "TimeTypeTimestamp" {
					return true
				}
			}
			return false
		}
		if goTime != nil {
			var stack []ast.Node
			ast.Inspect(f.Decl.Body, func(n ast.Node) bool {
				if n == nil {
					stack = stack[:len(stack)-1]
					return true
				}
				stack = append(stack, n)
				id, ok := n.(*ast.Ident)
				if !ok || binfo.ObjectOf(id) != goTime || (defStmt.Pos() <= id.Pos() && id.End() <= defStmt.End()) {
					return true
				}
				conds, pols := pathConds(newAnalysis(p), binfo, f, id)
				if !impliesAtom(binfo, f, conds, pols, isTimestampAtom) {
					guarded = false
				}
				return true
			})
		}
		r.Check("C06.time-kind", "(*builder.interfaceBuilder).BuildFromTime|Go time only for timestamps", f.Decl.Pos(), !converts || guarded,
			"every time value that AsGoTime can convert is stored as a Go time.Time: a date comes back as a timestamp (2020-01-02 -> 2020-01-02/00:00:00/Local) and a time of day as a time in year -1")
	}
	// per-array state of the builder context: every field modified while an array is assembled is re-initialised by BeginArray
	perDoc := "per-document state: a new builder context is created for every unmarshal call (C16.fresh-per-call)"
	checkResetSpec(r, p, "C06.retained-bytes", resetSpec{rel: "builder", typ: "Context", resets: []string{"BeginArray"},
		sub: map[string][]string{"chunkRemainingLength": {"BeginArrayChunk"}, "moreChunksFollow": {"BeginArrayChunk"}},
		scratch: map[string]string{"CurrentBuilder": perDoc, "builderStack": perDoc, "recordTypeName": perDoc, "recordType": perDoc, "recordTypes": perDoc,
			"referenceFiller": perDoc, "arrayCompletionCallback": "replaced by ContinueMultiComponentArray for the second part of media/custom arrays; always set by BeginArray first"}})
	nSt := checkStoreThenReuse(r, p, "C06.retained-bytes", "builder")
	r.Floor("C06.retained-bytes", "slice fields of the builder that are stored away", nSt, 1)
	r.NotDecide("that re-marshaling the untyped value yields the same data; records -> maps data equality; which object a reference resolves to")
	a := newAnalysis(p)
	m := newBuilderMatrix(p, a)
	if m == nil {
		r.Undecided("C06.handlers", "builder.Builder / builder.Context")
		return
	}
	if os.Getenv("VERIF_DUMP") != "" {
		for _, t := range m.types {
			for _, meth := range m.methods {
				s := m.cell[t][meth]
				if len(s) > 150 {
					s = s[:150]
				}
				fmt.Printf("%-26s %-30s %s\n", t, meth, s)
			}
		}
	}
	// value events of the untyped path
	valueMethods := []string{"BuildFromNull", "BuildFromBool", "BuildFromInt", "BuildFromUint", "BuildFromBigInt", "BuildFromFloat", "BuildFromBigFloat",
		"BuildFromDecimalFloat", "BuildFromBigDecimalFloat", "BuildFromUID", "BuildFromTime", "BuildFromArray", "BuildFromStringlikeArray",
		"BuildFromCustomBinary", "BuildFromCustomText", "BuildFromMedia", "BuildFromLocalReference", "BuildNewList", "BuildNewMap", "BuildNewEdge", "BuildNewNode"}
	untyped := []string{"interfaceBuilder", "topLevelBuilder", "sliceBuilder", "mapBuilder", "edgeBuilder", "nodeBuilder", "markerObjectBuilder", "recordBuilder"}
	for _, t := range untyped {
		if m.cell[t] == nil {
			r.Undecided("C06.handlers", "builder."+t)
			continue
		}
		for _, meth := range valueMethods {
			if t == "topLevelBuilder" && meth == "BuildFromLocalReference" {
				continue // the validator rejects a reference at the top level (C10/C13)
			}
			if t == "markerObjectBuilder" && meth == "BuildFromLocalReference" {
				continue // the validator rejects a marker placed on a reference (C13)
			}
			s := m.cell[t][meth]
			// a static delegation to the interface builder is as good as the interface builder's own handler
			if strings.HasPrefix(s, "(*builder.interfaceBuilder)."+meth) || strings.Contains(s, "=(*builder.interfaceBuilder)."+meth) {
				s = m.cell["interfaceBuilder"][meth]
			}
			r.Check("C06.handlers", "builder."+t+"."+meth, posOfFunc(m, t, meth), s != "reject" && s != "?missing",
				"the validator accepts this event in the position this builder occupies, but the handler used for an untyped target rejects it unconditionally: a valid document cannot be unmarshaled without a template")
		}
	}
	// array type coverage of interfaceBuilder.BuildFromArray / BuildFromStringlikeArray
	checkArraySwitchCoverage(r, p, "builder", "interfaceBuilder.BuildFromArray",
		[]string{"ArrayTypeBit", "ArrayTypeUint8", "ArrayTypeUint16", "ArrayTypeUint32", "ArrayTypeUint64", "ArrayTypeInt8", "ArrayTypeInt16", "ArrayTypeInt32", "ArrayTypeInt64",
			"ArrayTypeFloat16", "ArrayTypeFloat32", "ArrayTypeFloat64", "ArrayTypeUID", "ArrayTypeString", "ArrayTypeResourceID", "ArrayTypeReferenceRemote"}, "C06.handlers")
	checkArraySwitchCoverage(r, p, "builder", "interfaceBuilder.BuildFromStringlikeArray",
		[]string{"ArrayTypeString", "ArrayTypeResourceID", "ArrayTypeReferenceRemote"}, "C06.handlers")

	checkSelfStackPairing(r, m, "C06.edge-end")
	checkReferenceFiller(r, p, a, "C06.references")
	r.Rule("C06.empty-containers", "the slice builder and the map builder start from a non-nil container: the value the slice builder's ppContainer points to is made with reflect.MakeSlice and the map builder's container with reflect.MakeMap / MakeMapWithSize (reflect.Zero or a nil value would make an empty list or map come back as null).")
	checkEmptyContainers(r, p, "C06.empty-containers")
	r.Rule("C06.siblings", "the handlers one builder type has for the events of one family (the BuildFrom* value events, the BuildNew* container-begin events) do the same things around the event-specific part: when at least four fifths of a family of eight or more handlers have, after replacing the delegated call of the same name with the handler's own parameters by a placeholder, exactly the same effect summary, each remaining handler that does not reject must have it too (a wrapper that forgets to send the pending record key for one kind of value, or registers the destination instead of the built object for one kind, deviates from its siblings).")
	checkBuilderSiblings(r, m, "C06.siblings")
}

// checkBuilderSiblings cross-checks the handlers of each builder type within an event family.
func checkBuilderSiblings(r *core.Run, m *builderMatrix, rule string) {
	nGroups := 0
	for _, t := range m.types {
		for _, prefix := range []string{"BuildFrom", "BuildNew"} {
			shapes := map[string][]string{}
			n := 0
			for _, meth := range m.methods {
				if !strings.HasPrefix(meth, prefix) {
					continue
				}
				s := m.cell[t][meth]
				if s == "reject" || s == "?missing" {
					continue // refusing the event is judged by the handler matrix rules
				}
				f := m.fn[t][meth]
				if f == nil {
					continue
				}
				// the delegated call of the same name with the handler's own parameters, in order
				sig := f.Type().(*types.Signature)
				var ps []string
				for i := 0; i < sig.Params().Len(); i++ {
					ps = append(ps, "$"+sig.Params().At(i).Name())
				}
				shape := strings.ReplaceAll(s, "iface."+meth+"("+strings.Join(ps, ",")+")", "iface.SAME(PARAMS)")
				shape = strings.TrimSuffix(shape, "; return") // handlers with and without a result value
				shapes[shape] = append(shapes[shape], meth)
				n++
			}
			if n < 8 {
				continue
			}
			major, majorN := "", 0
			for sh, ms := range shapes {
				if len(ms) > majorN || (len(ms) == majorN && sh < major) {
					major, majorN = sh, len(ms)
				}
			}
			if majorN*5 < n*4 || !strings.Contains(major, "iface.SAME(PARAMS)") {
				continue // no common shape: the handlers of this type have event-specific logic
			}
			nGroups++
			for sh, ms := range shapes {
				for _, meth := range ms {
					r.Check(rule, "builder."+t+"."+meth, posOfFunc(m, t, meth), sh == major,
						fmt.Sprintf("%d of the %d %s* handlers of %s do `%s`; this one does `%s`", majorN, n, prefix, t, major, sh))
				}
			}
		}
	}
	r.Floor(rule, "handler families with a common shape", nGroups, 2)
}

// checkArraySwitchCoverage: the switch over the array type in the given method has a non-rejecting case for every required type.
func checkArraySwitchCoverage(r *core.Run, p *core.Program, rel, method string, required []string, rule string) {
	f := findFn(p, rel, method)
	if f == nil {
		r.Undecided(rule, rel+"."+method)
		return
	}
	info := f.Pkg.TypesInfo
	a := newAnalysis(p)
	var sw *ast.SwitchStmt
	ast.Inspect(f.Decl.Body, func(n ast.Node) bool {
		if s, ok := n.(*ast.SwitchStmt); ok && sw == nil && s.Tag != nil {
			if nt := namedOf(info.TypeOf(s.Tag)); nt != nil && nt.Obj().Name() == "ArrayType" {
				sw = s
			}
		}
		return true
	})
	if sw == nil {
		r.Undecided(rule, "switch over the array type in "+rel+"."+method)
		return
	}
	handled := map[string]bool{}
	defaultOK := false
	for _, c := range switchTable(info, sw) {
		rejects := a.alwaysPanics(info, c.Body)
		if c.Default {
			defaultOK = !rejects
			continue
		}
		for _, e := range c.Exprs {
			if co, ok := objOf(info, e).(*types.Const); ok && !rejects {
				handled[co.Name()] = true
			}
		}
	}
	for _, req := range required {
		r.Check(rule, rel+"."+method+"|"+req, sw.Pos(), handled[req] || defaultOK,
			"arrays of type "+req+" are accepted by the validator but fall into the rejecting default of this switch: a valid document with such an array cannot be unmarshaled into an untyped value")
	}
}

// impliesAtom: the conjunction of the path conditions (each with its polarity) can only hold when the
// distinguished atom is true. Conditions are boolean combinations (&&, ||, !, parentheses) of atoms; a local
// boolean that is defined once stands for its initialiser; every other atom is a free boolean. All truth
// assignments with the distinguished atom false are enumerated.
func impliesAtom(info *types.Info, f *fn, conds []ast.Expr, pols []bool, isAtom func(ast.Expr) bool) bool {
	return impliesAtomValue(info, f, conds, pols, isAtom, true)
}

// impliesAtomValue: the path conditions can only hold when the distinguished atom has the value want.
func impliesAtomValue(info *types.Info, f *fn, conds []ast.Expr, pols []bool, isAtom func(ast.Expr) bool, want bool) bool {
	atoms := map[string]int{}
	var resolve func(e ast.Expr, depth int) ast.Expr
	resolve = func(e ast.Expr, depth int) ast.Expr {
		e = stripParens(e)
		if id, ok := e.(*ast.Ident); ok && depth < 4 {
			if init := singleInit(info, f, info.ObjectOf(id)); init != nil {
				if b, ok := info.TypeOf(init).Underlying().(*types.Basic); ok && b.Info()&types.IsBoolean != 0 {
					return resolve(init, depth+1)
				}
			}
		}
		return e
	}
	var eval func(e ast.Expr, asg func(string, bool) bool) bool
	eval = func(e ast.Expr, asg func(string, bool) bool) bool {
		e = resolve(e, 0)
		switch x := e.(type) {
		case *ast.UnaryExpr:
			if x.Op == token.NOT {
				return !eval(x.X, asg)
			}
		case *ast.BinaryExpr:
			switch x.Op {
			case token.LAND:
				return eval(x.X, asg) && eval(x.Y, asg)
			case token.LOR:
				return eval(x.X, asg) || eval(x.Y, asg)
			case token.NEQ:
				eq := &ast.BinaryExpr{X: x.X, Op: token.EQL, Y: x.Y}
				return !asg(types.ExprString(eq), isAtom(eq))
			}
		}
		return asg(types.ExprString(e), isAtom(e))
	}
	// collect atoms
	collect := func(name string, special bool) bool {
		if !special {
			if _, ok := atoms[name]; !ok {
				atoms[name] = len(atoms)
			}
		}
		return false
	}
	for _, c := range conds {
		eval(c, collect)
	}
	if len(atoms) > 12 {
		return false
	}
	for mask := 0; mask < 1<<len(atoms); mask++ {
		asg := func(name string, special bool) bool {
			if special {
				return !want // the distinguished atom has the other value
			}
			return mask&(1<<atoms[name]) != 0
		}
		all := true
		for i, c := range conds {
			if eval(c, asg) != pols[i] {
				all = false
				break
			}
		}
		if all {
			return false // reachable although the atom is false
		}
	}
	return true
}

// pathConds collects the conditions under which target is reached inside f: for every enclosing if statement its
// condition with the polarity of the branch taken, and for every enclosing block the negated conditions of the
// preceding else-less if statements whose body always leaves (return / panic).
func pathConds(a *analysis, info *types.Info, f *fn, target ast.Node) (conds []ast.Expr, pols []bool) {
	var stack []ast.Node
	found := false
	ast.Inspect(f.Decl.Body, func(n ast.Node) bool {
		if found {
			return false
		}
		if n == nil {
			stack = stack[:len(stack)-1]
			return true
		}
		stack = append(stack, n)
		if n != target {
			return true
		}
		found = true
		for i := 0; i+1 < len(stack); i++ {
			switch x := stack[i].(type) {
			case *ast.IfStmt:
				switch stack[i+1] {
				case ast.Node(x.Body):
					conds, pols = append(conds, x.Cond), append(pols, true)
				case x.Else:
					conds, pols = append(conds, x.Cond), append(pols, false)
				}
			case *ast.SwitchStmt:
				// tagless switch: the chosen case's condition holds, those of the earlier cases do not
				if x.Tag == nil && i+2 < len(stack) {
					for _, c := range x.Body.List {
						cc := c.(*ast.CaseClause)
						if ast.Node(cc) == stack[i+2] {
							if len(cc.List) == 1 {
								conds, pols = append(conds, cc.List[0]), append(pols, true)
							}
							break
						}
						if len(cc.List) == 1 {
							conds, pols = append(conds, cc.List[0]), append(pols, false)
						}
					}
				}
			case *ast.BlockStmt:
				for _, st := range x.List {
					if ast.Node(st) == stack[i+1] {
						break
					}
					if ifs, ok := st.(*ast.IfStmt); ok && ifs.Else == nil && len(ifs.Body.List) > 0 {
						_, isRet := ifs.Body.List[len(ifs.Body.List)-1].(*ast.ReturnStmt)
						if br, isBr := ifs.Body.List[len(ifs.Body.List)-1].(*ast.BranchStmt); isBr && (br.Tok == token.CONTINUE || br.Tok == token.BREAK) && br.Label == nil {
							isRet = true // leaves the rest of this loop body
						}
						if isRet || a.alwaysPanics(info, ifs.Body.List) {
							conds, pols = append(conds, ifs.Cond), append(pols, false)
						}
					}
				}
			}
		}
		return false
	})
	return conds, pols
}

func checkEmptyContainers(r *core.Run, p *core.Program, rule string) {
	pkg := p.Pkg("builder")
	info := pkg.TypesInfo
	n := 0
	isReflectCall := func(e ast.Expr, names ...string) bool {
		call, ok := stripParens(e).(*ast.CallExpr)
		if !ok {
			return false
		}
		c := callee(info, call)
		if c == nil || c.Pkg() == nil || c.Pkg().Path() != "reflect" {
			return false
		}
		for _, nm := range names {
			if c.Name() == nm {
				return true
			}
		}
		return false
	}
	for _, f := range funcsOf(pkg) {
		ast.Inspect(f.Decl.Body, func(nd ast.Node) bool {
			lit, ok := nd.(*ast.CompositeLit)
			if !ok {
				return true
			}
			nt := namedOf(info.TypeOf(lit))
			if nt == nil {
				return true
			}
			for _, el := range lit.Elts {
				kv, ok := el.(*ast.KeyValueExpr)
				if !ok {
					continue
				}
				key, _ := kv.Key.(*ast.Ident)
				if key == nil {
					continue
				}
				switch {
				case nt.Obj().Name() == "mapBuilder" && key.Name == "container":
					n++
					v := kv.Value
					if id, isId := stripParens(v).(*ast.Ident); isId {
						if init := singleInit(info, f, info.ObjectOf(id)); init != nil {
							v = init
						}
					}
					r.Check(rule, f.Name()+"|map container", kv.Pos(), isReflectCall(v, "MakeMap", "MakeMapWithSize"),
						"the map builder's container is `"+exprStr(v)+"`, not a reflect.MakeMap value: an empty map is built as a nil map and marshals back as null")
				case nt.Obj().Name() == "sliceBuilder" && key.Name == "ppContainer":
					n++
					ok := false
					what := "no `*ppContainer = &container` with container made by reflect.MakeSlice was found"
					pObj := objOf(info, kv.Value)
					ast.Inspect(f.Decl.Body, func(k ast.Node) bool {
						as, isAs := k.(*ast.AssignStmt)
						if !isAs || len(as.Lhs) != 1 || len(as.Rhs) != 1 {
							return true
						}
						st, isStar := stripParens(as.Lhs[0]).(*ast.StarExpr)
						if !isStar || pObj == nil || objOf(info, st.X) != pObj {
							return true
						}
						u, isAddr := stripParens(as.Rhs[0]).(*ast.UnaryExpr)
						if !isAddr || u.Op != token.AND {
							return true
						}
						init := singleInitOpt(info, f, objOf(info, u.X), true)
						if init != nil && isReflectCall(init, "MakeSlice") {
							ok = true
						} else if init != nil {
							what = "the slice the builder appends to starts as `" + exprStr(init) + "`, not a reflect.MakeSlice value"
						}
						return true
					})
					r.Check(rule, f.Name()+"|slice container", kv.Pos(), ok, what+": an empty list is built as a nil slice and marshals back as null")
				}
			}
			return true
		})
	}
	r.Floor(rule, "slice/map builder constructions", n, 2)
}
