package rules

import (
	"fmt"
	"go/ast"
	"go/token"
	"go/types"
	"strings"

	"verif/checker/core"
)

func init() { Registry["C05"] = checkC05 }

var containerBeginEvents = map[string]bool{"OnList": true, "OnMap": true, "OnNode": true, "OnEdge": true, "OnRecord": true, "OnRecordType": true}

// isReceiverEvent: call of a DataEventReceiver method; returns its name.
func receiverEvent(info *types.Info, call *ast.CallExpr) string {
	cal := callee(info, call)
	if cal == nil {
		return ""
	}
	if rt := recvType(cal); rt != nil && typeIs(rt, "ce/events", "DataEventReceiver") {
		return cal.Name()
	}
	return ""
}

// checkPairingInBody: in a statement list, every top-level begin event is followed, at the same level, by exactly one
// OnEndContainer, with no return statement in between; begin events nested in conditionals/loops are checked in their own block.
func checkPairingInBody(r *core.Run, info *types.Info, rule, fname string, list []ast.Stmt, n *int) {
	open := 0
	var openPos token.Pos
	openName := ""
	for _, s := range list {
		if es, ok := s.(*ast.ExprStmt); ok {
			if c, ok := es.X.(*ast.CallExpr); ok {
				ev := receiverEvent(info, c)
				if containerBeginEvents[ev] {
					if open > 0 {
						r.Fail(rule, fname+"|"+openName+" not closed before "+ev, openPos, "a container begin event is followed by another begin at the same level without an end event in between")
					}
					open++
					openPos = c.Pos()
					openName = ev
					*n++
					continue
				}
				if ev == "OnEndContainer" {
					if open == 0 {
						r.Fail(rule, fname+"|stray OnEndContainer", c.Pos(), "an end-container event without a matching begin in this function")
					} else {
						open--
						r.Pass(rule, fname+"|"+openName+" paired", openPos, "")
					}
					continue
				}
			}
		}
		// nested blocks
		hasReturn := false
		ast.Inspect(s, func(k ast.Node) bool {
			switch x := k.(type) {
			case *ast.FuncLit:
				return false
			case *ast.ReturnStmt:
				hasReturn = true
			case *ast.BlockStmt:
				if x != nil {
					checkPairingInBody(r, info, rule, fname, x.List, n)
				}
				return false
			case *ast.CaseClause:
				checkPairingInBody(r, info, rule, fname, x.Body, n)
				return false
			}
			return true
		})
		if hasReturn && open > 0 {
			r.Fail(rule, fname+"|return inside open "+openName, s.Pos(), "a return statement between the container's begin event and its end event leaves the container unclosed on that path")
		}
	}
	if open > 0 {
		r.Fail(rule, fname+"|"+openName+" paired", openPos, "the container begun by "+openName+" is never closed with OnEndContainer in this function: the marshaled stream is rejected by the validator and by both decoders (or swallows the following siblings)")
	}
}

func checkC05(r *core.Run, p *core.Program) {
	r.Rule("C05.pairing", "in every function and closure of package iterator, each container begin event (list, map, node, edge, record, record type) is followed at the same block level by exactly one OnEndContainer, with no return in between.")
	r.Rule("C05.array-index", "every typed-array iterator reads element i with v.Index(i) where i is the variable its loop compares with the element count, passes the element count v.Len() and a data slice of count*width bytes to OnArray with the array type whose element size is that width, and stores byte k of each element as element >> 8k at offset i*width+k (bit arrays: bit (i mod 8) of byte i/8).")
	r.Rule("C05.record-arity", "the record iterator and its record-type iterator decide which fields to emit with the same predicate on the same value-independent argument, so a record always carries as many values as its type declares.")
	r.Rule("C05.document", "the root iterator emits OnBeginDocument and OnVersion first, emits the record types before the object, and every path ends with OnEndDocument.")
	r.Rule("C05.index-path", "the index path by which the struct iterator reaches a field is a fresh copy per field (no append onto the recursion's path parameter): otherwise fields of a deeply embedded struct are read through another field's path and the emitted value is not the field's value.")
	checkIndexPath(r, p, "C05.index-path")
	r.Rule("C05.marker-ids", "no method of package iterator with a value receiver stores to its receiver (the marker-name counter of the root iterator would not advance: every shared object then gets the same marker ID and the validator rejects the stream).")
	{
		nt := 0
		for _, ff := range funcsOf(p.Pkg("iterator")) {
			sig := ff.Obj.Type().(*types.Signature)
			if sig.Recv() == nil {
				continue
			}
			if _, isPtr := sig.Recv().Type().(*types.Pointer); isPtr {
				continue
			}
			if _, isStruct := sig.Recv().Type().Underlying().(*types.Struct); !isStruct {
				continue
			}
			nt++
			recv := sig.Recv()
			var bad token.Pos
			ast.Inspect(ff.Decl.Body, func(n ast.Node) bool {
				var lhs []ast.Expr
				switch s := n.(type) {
				case *ast.AssignStmt:
					lhs = s.Lhs
				case *ast.IncDecStmt:
					lhs = []ast.Expr{s.X}
				}
				for _, l := range lhs {
					if sel, ok := stripParens(l).(*ast.SelectorExpr); ok && objOf(p.Pkg("iterator").TypesInfo, sel.X) == recv {
						bad = l.Pos()
					}
				}
				return true
			})
			r.Check("C05.marker-ids", ff.Name()+"|value receiver does not store to itself", ff.Decl.Pos(), bad == token.NoPos, "this method has a value receiver and stores to a field of it: the update is lost when the method returns")
		}
		r.Count("C05.marker-ids value-receiver methods of struct types in package iterator", nt)
		if nt == 0 {
			r.Pass("C05.marker-ids", "iterator|no value-receiver methods on struct types", token.NoPos, "")
		}
	}
	r.Rule("C05.struct-fields", "the struct iterator emits, for every field it keeps, the field name followed by exactly one value, inside one map.")
	r.NotDecide("that the emitted contents equal the value beyond index coverage; validator acceptance in general")

	pkg := p.Pkg("iterator")
	info := pkg.TypesInfo
	nBegin := 0
	for _, f := range funcsOf(pkg) {
		checkPairingInBody(r, info, "C05.pairing", f.Name(), f.Decl.Body.List, &nBegin)
		idx := 0
		ast.Inspect(f.Decl.Body, func(n ast.Node) bool {
			if lit, ok := n.(*ast.FuncLit); ok {
				idx++
				checkPairingInBody(r, info, "C05.pairing", fmt.Sprintf("%s$%d", f.Name(), idx), lit.Body.List, &nBegin)
			}
			return true
		})
	}
	r.Floor("C05.pairing", "container begin events", nBegin, 7)

	// element sizes
	evPkg := p.Pkg("ce/events")
	elemBits := map[string]int64{}
	for _, file := range evPkg.Syntax {
		ast.Inspect(file, func(n ast.Node) bool {
			vs, ok := n.(*ast.ValueSpec)
			if !ok || len(vs.Names) != 1 || vs.Names[0].Name != "arrayTypeElementSizes" || len(vs.Values) != 1 {
				return true
			}
			if cl, ok := vs.Values[0].(*ast.CompositeLit); ok {
				for _, el := range cl.Elts {
					if kv, ok := el.(*ast.KeyValueExpr); ok {
						if kc, ok := objOf(evPkg.TypesInfo, kv.Key).(*types.Const); ok {
							if v, ok := constInt(evPkg.TypesInfo, kv.Value); ok {
								elemBits[kc.Name()] = v
							}
						}
					}
				}
			}
			return true
		})
	}
	nArr := 0
	for _, f := range funcsOf(pkg) {
		name := f.Decl.Name.Name
		if !strings.HasPrefix(name, "iterateSliceOrArray") && !strings.HasPrefix(name, "iterateArray") && !strings.HasPrefix(name, "iterateSliceUint8") {
			continue
		}
		var onArray *ast.CallExpr
		inspectCalls(info, f.Decl.Body, func(c *ast.CallExpr, cal *types.Func) {
			if receiverEvent(info, c) == "OnArray" {
				onArray = c
			}
		})
		if onArray == nil {
			continue // dispatchers (Int/Uint by architecture)
		}
		nArr++
		vParam := f.Obj.Type().(*types.Signature).Params().At(1)
		at, _ := objOf(info, onArray.Args[0]).(*types.Const)
		if at == nil {
			r.Fail("C05.array-index", f.Name()+"|array type", onArray.Pos(), "the array type passed to OnArray is not a constant")
			continue
		}
		width := elemBits[at.Name()] / 8
		// which locals hold v.Len()
		lenVars := map[types.Object]bool{}
		isLenExpr := func(e ast.Expr) bool {
			e = stripConv(info, e)
			if c, ok := e.(*ast.CallExpr); ok {
				if cal := callee(info, c); cal != nil && cal.Name() == "Len" {
					if sel, ok := c.Fun.(*ast.SelectorExpr); ok && objOf(info, sel.X) == vParam {
						return true
					}
				}
				if id, ok := c.Fun.(*ast.Ident); ok && id.Name == "len" {
					return true
				}
			}
			return lenVars[objOf(info, e)]
		}
		ast.Inspect(f.Decl.Body, func(n ast.Node) bool {
			if as, ok := n.(*ast.AssignStmt); ok && len(as.Lhs) == 1 && len(as.Rhs) == 1 && isLenExpr(as.Rhs[0]) {
				lenVars[objOf(info, as.Lhs[0])] = true
			}
			return true
		})
		r.Check("C05.array-index", f.Name()+"|element count", onArray.Pos(), isLenExpr(onArray.Args[1]), "the element count passed to OnArray is "+exprStr(onArray.Args[1])+", not the value's length")
		// loop induction variables compared with the length
		induction := map[types.Object]bool{}
		ast.Inspect(f.Decl.Body, func(n ast.Node) bool {
			if fs, ok := n.(*ast.ForStmt); ok && fs.Cond != nil {
				if be, ok := stripParens(fs.Cond).(*ast.BinaryExpr); ok && be.Op == token.LSS && isLenExpr(be.Y) {
					induction[objOf(info, be.X)] = true
				}
			}
			return true
		})
		nIdx := 0
		ast.Inspect(f.Decl.Body, func(n ast.Node) bool {
			c, ok := n.(*ast.CallExpr)
			if !ok {
				return true
			}
			cal := callee(info, c)
			if cal == nil || cal.Name() != "Index" || !typeIs(recvType(cal), "reflect", "Value") {
				return true
			}
			if sel, ok := c.Fun.(*ast.SelectorExpr); !ok || objOf(info, sel.X) != vParam {
				return true
			}
			nIdx++
			r.Check("C05.array-index", f.Name()+"|v.Index("+exprStr(c.Args[0])+")", c.Pos(), induction[objOf(info, c.Args[0])],
				"the element is read with v.Index("+exprStr(c.Args[0])+"), which is not the variable the loop compares with the element count: some elements are read repeatedly and others never")
			return true
		})
		// data buffer size and byte stores
		if width >= 1 && at.Name() != "ArrayTypeBit" {
			okSize := false
			ast.Inspect(f.Decl.Body, func(n ast.Node) bool {
				c, ok := n.(*ast.CallExpr)
				if !ok || len(c.Args) < 2 {
					return true
				}
				if id, ok := c.Fun.(*ast.Ident); !ok || id.Name != "make" {
					return true
				}
				size := stripParens(c.Args[1])
				if width == 1 && isLenExpr(size) {
					okSize = true
				}
				if be, ok := size.(*ast.BinaryExpr); ok && be.Op == token.MUL && isLenExpr(be.X) {
					if k, isC := constInt(info, be.Y); isC && k == width {
						okSize = true
					}
				}
				return true
			})
			if nIdx > 0 {
				r.Check("C05.array-index", f.Name()+"|data size", f.Decl.Pos(), okSize, fmt.Sprintf("the data buffer is not sized count*%d bytes for %s", width, at.Name()))
				// stores data[i*W+k] = uint8(elem >> 8k)
				seen := map[int64]bool{}
				bad := ""
				ast.Inspect(f.Decl.Body, func(n ast.Node) bool {
					as, ok := n.(*ast.AssignStmt)
					if !ok || len(as.Lhs) != 1 {
						return true
					}
					ix, ok := as.Lhs[0].(*ast.IndexExpr)
					if !ok {
						return true
					}
					// index = i*W + k, possibly through locals (`offset := i * W`) and named constants
					ind, mul, k, okAff := affineIndex(info, f, ix.Index, 0)
					if !okAff || !induction[ind] || mul != width {
						bad = "store index " + exprStr(ix.Index) + " is not i*" + fmt.Sprint(width) + "+k"
						return true
					}
					shift := int64(0)
					rhs := stripConv(info, as.Rhs[0])
					if be, ok := rhs.(*ast.BinaryExpr); ok && be.Op == token.SHR {
						if s, isC := constInt(info, be.Y); isC {
							shift = s
						}
					}
					if shift != 8*k {
						bad = fmt.Sprintf("byte %d of the element is taken from element >> %d (expected >> %d)", k, shift, 8*k)
					}
					seen[k] = true
					return true
				})
				for k := int64(0); k < width; k++ {
					if !seen[k] && bad == "" {
						bad = fmt.Sprintf("byte %d of each element is never stored", k)
					}
				}
				r.Check("C05.array-index", f.Name()+"|little-endian byte stores", f.Decl.Pos(), bad == "", bad)
			}
		}
		if at.Name() == "ArrayTypeBit" {
			// accum |= 1 << iBit with iBit < bitCount <= 8, stored at data[iDst]; the packing of one byte may
			// live in an unexported helper of the package that returns the byte
			bodies := []*ast.BlockStmt{f.Decl.Body}
			inspectCalls(info, f.Decl.Body, func(c *ast.CallExpr, cal *types.Func) {
				if cal != nil && !cal.Exported() && cal.Pkg() == f.Pkg.Types && recvNamed(cal) == nil {
					if hd := p.FuncDecl(cal); hd != nil && hd.Body != nil {
						bodies = append(bodies, hd.Body)
					}
				}
			})
			okShift := false
			fresh := false
			for _, body := range bodies {
				var accObj types.Object
				ast.Inspect(body, func(n ast.Node) bool {
					if as, ok := n.(*ast.AssignStmt); ok && as.Tok == token.OR_ASSIGN && len(as.Rhs) == 1 && len(as.Lhs) == 1 {
						if be, ok := stripParens(as.Rhs[0]).(*ast.BinaryExpr); ok && be.Op == token.SHL {
							if k, isC := constInt(info, be.X); isC && k == 1 {
								okShift = true
								accObj = objOf(info, as.Lhs[0])
							}
						}
					}
					return true
				})
				if accObj == nil {
					continue
				}
				// the byte accumulator starts from zero for every output byte: it is (re)initialised in the block that
				// stores (or returns) it
				ast.Inspect(body, func(n ast.Node) bool {
					blk, ok := n.(*ast.BlockStmt)
					if !ok {
						return true
					}
					storeIdx, initIdx := -1, -1
					for i, st := range blk.List {
						if ret, ok := st.(*ast.ReturnStmt); ok && len(ret.Results) == 1 && objOf(info, stripConv(info, ret.Results[0])) == accObj {
							storeIdx = i
						}
						if ds, ok := st.(*ast.DeclStmt); ok {
							if gd, ok := ds.Decl.(*ast.GenDecl); ok {
								for _, sp := range gd.Specs {
									if vs, ok := sp.(*ast.ValueSpec); ok {
										for j, nm := range vs.Names {
											if info.Defs[nm] == accObj {
												if j >= len(vs.Values) {
													initIdx = i // var accum byte: zero value
												} else if c, ok := constInt(info, stripConv(info, vs.Values[j])); ok && c == 0 {
													initIdx = i
												}
											}
										}
									}
								}
							}
						}
						as, ok := st.(*ast.AssignStmt)
						if !ok || len(as.Lhs) != 1 || len(as.Rhs) != 1 {
							continue
						}
						if _, isIx := stripParens(as.Lhs[0]).(*ast.IndexExpr); isIx && objOf(info, as.Rhs[0]) == accObj {
							storeIdx = i
						}
						if objOf(info, as.Lhs[0]) == accObj && (as.Tok == token.DEFINE || as.Tok == token.ASSIGN) {
							if c, ok := constInt(info, stripConv(info, as.Rhs[0])); ok && c == 0 {
								initIdx = i
							}
						}
					}
					if storeIdx >= 0 && initIdx >= 0 && initIdx < storeIdx {
						fresh = true
					}
					return true
				})
			}
			r.Check("C05.array-index", f.Name()+"|bit packing", f.Decl.Pos(), okShift, "bit i of each byte must be set with 1 << i (low bit first)")
			r.Check("C05.array-index", f.Name()+"|bit accumulator starts at zero for every byte", f.Decl.Pos(), fresh,
				"the byte that collects 8 elements is not reset to 0 in the block that stores it: bits set for earlier elements leak into the following bytes (slices longer than 8 elements carry wrong elements)")
		}
	}
	r.Floor("C05.array-index", "typed array iterators", nArr, 12)

	// ---- record arity
	if f := findFn(p, "iterator", "newRecordIterators"); f == nil {
		r.Undecided("C05.record-arity", "iterator.newRecordIterators")
	} else {
		var predArgs []types.Object
		nLits := 0
		ast.Inspect(f.Decl.Body, func(n ast.Node) bool {
			lit, ok := n.(*ast.FuncLit)
			if !ok {
				return true
			}
			nLits++
			closureParams := map[types.Object]bool{}
			for _, fld := range lit.Type.Params.List {
				for _, nm := range fld.Names {
					closureParams[info.ObjectOf(nm)] = true
				}
			}
			inspectCalls(info, lit.Body, func(c *ast.CallExpr, cal *types.Func) {
				if pred := omitPredicate(p); cal == nil || pred == nil || cal != pred.Obj || len(c.Args) < 2 {
					return
				}
				obj := objOf(info, c.Args[1])
				// derived from the closure's runtime value?
				tainted := false
				for cp := range closureParams {
					if mentionsObj(info, c.Args[1], cp) {
						tainted = true
					}
				}
				if obj != nil {
					ast.Inspect(lit.Body, func(k ast.Node) bool {
						if as, ok := k.(*ast.AssignStmt); ok {
							for i, l := range as.Lhs {
								if objOf(info, l) == obj && i < len(as.Rhs) {
									for cp := range closureParams {
										if mentionsObj(info, as.Rhs[i], cp) {
											tainted = true
										}
									}
								}
							}
						}
						return true
					})
				}
				r.Check("C05.record-arity", fmt.Sprintf("iterator.newRecordIterators$%d|predicate independent of the value", nLits), c.Pos(), !tainted,
					"the decision to emit a field depends on the record's current value ("+exprStr(c.Args[1])+") while the record type was declared with all fields: records with empty fields carry fewer values than their type declares and are rejected")
				predArgs = append(predArgs, obj)
			})
			return true
		})
		same := len(predArgs) == 2 && predArgs[0] != nil && predArgs[0] == predArgs[1]
		r.Check("C05.record-arity", "iterator.newRecordIterators|same predicate argument in type and record iterators", f.Decl.Pos(), same, "the record-type iterator and the record iterator must apply shouldIncludeField to the same value-independent argument")
	}

	// ---- document
	if f := findFn(p, "iterator", "RootObjectIterator.Iterate"); f == nil {
		r.Undecided("C05.document", "iterator.RootObjectIterator.Iterate")
	} else {
		var evs []string
		var evPos []token.Pos
		inspectCalls(info, f.Decl.Body, func(c *ast.CallExpr, cal *types.Func) {
			if ev := receiverEvent(info, c); ev != "" {
				evs = append(evs, ev)
				evPos = append(evPos, c.Pos())
			}
		})
		okStart := len(evs) >= 2 && evs[0] == "OnBeginDocument" && evs[1] == "OnVersion"
		r.Check("C05.document", "iterator.RootObjectIterator.Iterate|begin and version first", f.Decl.Pos(), okStart, "the document must start with OnBeginDocument, OnVersion")
		// every return and the end of the function preceded by OnEndDocument
		okEnd := true
		checkTail := func(list []ast.Stmt) bool {
			// last event statement before the return / end must be OnEndDocument
			for i := len(list) - 1; i >= 0; i-- {
				if _, isRet := list[i].(*ast.ReturnStmt); isRet {
					continue
				}
				if es, ok := list[i].(*ast.ExprStmt); ok {
					if c, ok := es.X.(*ast.CallExpr); ok && receiverEvent(info, c) == "OnEndDocument" {
						return true
					}
				}
				return false
			}
			return false
		}
		if !checkTail(f.Decl.Body.List) {
			okEnd = false
		}
		ast.Inspect(f.Decl.Body, func(n ast.Node) bool {
			if b, ok := n.(*ast.BlockStmt); ok && b != f.Decl.Body {
				for _, s := range b.List {
					if _, isRet := s.(*ast.ReturnStmt); isRet && !checkTail(b.List) {
						okEnd = false
					}
				}
			}
			return true
		})
		r.Check("C05.document", "iterator.RootObjectIterator.Iterate|every path ends with OnEndDocument", f.Decl.Pos(), okEnd, "a path through Iterate returns without OnEndDocument as its last event")
		// record types before the object: the range over RecordTypeOrder precedes GetIteratorForType(rv.Type())
		var rtPos, objPos token.Pos
		ast.Inspect(f.Decl.Body, func(n ast.Node) bool {
			switch x := n.(type) {
			case *ast.RangeStmt:
				if strings.Contains(exprStr(x.X), "RecordTypeOrder") {
					rtPos = x.Pos()
				}
			case *ast.CallExpr:
				if cal := callee(info, x); cal == nil {
					if sel, ok := x.Fun.(*ast.SelectorExpr); ok && sel.Sel.Name == "GetIteratorForType" {
						objPos = x.Pos()
					}
				}
			}
			return true
		})
		r.Check("C05.document", "iterator.RootObjectIterator.Iterate|record types before the object", f.Decl.Pos(), rtPos.IsValid() && objPos.IsValid() && rtPos < objPos, "record types must be emitted before the top-level object")
	}

	// ---- struct fields
	if f := findFn(p, "iterator", "newStructIterator"); f == nil {
		r.Undecided("C05.struct-fields", "iterator.newStructIterator")
	} else {
		e := &effectCtx{a: newAnalysis(p), p: p}
		var lit *ast.FuncLit
		ast.Inspect(f.Decl.Body, func(n ast.Node) bool {
			if l, ok := n.(*ast.FuncLit); ok && lit == nil {
				lit = l
			}
			return true
		})
		got := ""
		if lit != nil {
			e.addParams(f.Obj)
			got = strings.Join(e.stmts(info, lit.Body.List), "; ")
		}
		if pred := omitPredicate(p); pred != nil {
			got = strings.ReplaceAll(got, core.ObjName(pred.Obj)+"(", "iterator.shouldIncludeField(") // a renamed predicate reads the same
		}
		want := "iface.OnMap(); range($v1,$v2:$v3){def($v4=(*iterator.structField).getValueFromStruct($v5)); if(iterator.shouldIncludeField($v2,$v4,$ctx.Configuration.Iterator.DefaultFieldOmitBehavior)){if(!$v2.IsAnonymous){iface.OnStringlikeArray(ArrayTypeString,$v2.Name)}; callfield:Iterate($v6,$v4)}}; iface.OnEndContainer()"
		r.Check("C05.struct-fields", "iterator.newStructIterator$1", f.Decl.Pos(), sameEffect(got, []string{want}), "the struct iterator does `"+got+"`; required `"+want+"`")
	}
}

// affineIndex reads an index expression as ind*mul+add over one variable: literals and named constants, `a*c`,
// `c*a`, `a+c`, `c+a`, and locals that are defined once (`offset := i * 4`) are followed.
func affineIndex(info *types.Info, f *fn, e ast.Expr, depth int) (ind types.Object, mul, add int64, ok bool) {
	e = stripParens(e)
	if depth > 4 {
		return nil, 0, 0, false
	}
	if k, isC := constInt(info, e); isC {
		return nil, 0, k, true
	}
	switch x := e.(type) {
	case *ast.Ident:
		o := info.ObjectOf(x)
		if o == nil {
			return nil, 0, 0, false
		}
		if init := singleInit(info, f, o); init != nil {
			// a loop variable `i := 0` also has a single initialiser but is incremented: singleInit rejects it
			if i2, m2, a2, ok2 := affineIndex(info, f, init, depth+1); ok2 && i2 != nil {
				return i2, m2, a2, true
			}
		}
		return o, 1, 0, true
	case *ast.BinaryExpr:
		i1, m1, a1, ok1 := affineIndex(info, f, x.X, depth+1)
		i2, m2, a2, ok2 := affineIndex(info, f, x.Y, depth+1)
		if !ok1 || !ok2 {
			return nil, 0, 0, false
		}
		switch x.Op {
		case token.ADD:
			if i1 != nil && i2 != nil && i1 != i2 {
				return nil, 0, 0, false
			}
			i := i1
			if i == nil {
				i = i2
			}
			return i, m1 + m2, a1 + a2, true
		case token.MUL:
			if i1 != nil && i2 != nil {
				return nil, 0, 0, false
			}
			if i1 != nil {
				return i1, m1 * a2, a1 * a2, true
			}
			if i2 != nil {
				return i2, m2 * a1, a2 * a1, true
			}
			return nil, 0, a1 * a2, true
		}
	}
	return nil, 0, 0, false
}
