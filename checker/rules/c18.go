package rules

import (
	"go/ast"
	"go/token"
	"go/types"
	"strings"

	"verif/checker/core"
)

func init() { Registry["C18"] = checkC18 }

func isBigNumPtr(t types.Type) bool {
	pt, ok := t.(*types.Pointer)
	if !ok {
		return false
	}
	return typeIs(pt, "math/big", "Int") || typeIs(pt, "math/big", "Float") || typeIs(pt, "math/big", "Rat") || typeIs(pt, "github.com/cockroachdb/apd/v2", "Decimal")
}

func isByteSlice(t types.Type) bool {
	sl, ok := t.Underlying().(*types.Slice)
	if !ok {
		return false
	}
	b, ok := sl.Elem().Underlying().(*types.Basic)
	return ok && b.Kind() == types.Uint8
}

// mutatingMethod: a method of a big-number type that overwrites its receiver (the math/big "z" convention: the first
// result is the receiver itself) or whose name says so.
func mutatingMethod(f *types.Func) bool {
	sig, ok := f.Type().(*types.Signature)
	if !ok || sig.Recv() == nil || !isBigNumPtr(sig.Recv().Type()) {
		return false
	}
	n := f.Name()
	if strings.HasPrefix(n, "Set") || strings.HasPrefix(n, "Unmarshal") || n == "Scan" || n == "GobDecode" || n == "Reduce" || n == "Modulus" {
		return true
	}
	if sig.Results().Len() >= 1 && types.Identical(sig.Results().At(0).Type(), sig.Recv().Type()) {
		// Int.Neg/Abs/Add/…, Float.Neg/…, Decimal.Neg/Abs/Set…; exclude pure accessors returning a fresh pointer
		switch n {
		case "Int", "Rat", "Num", "Denom":
			return false
		}
		return true
	}
	return false
}

// marshalSideFuncs: functions that run while a value is being marshaled / events are being encoded.
func marshalSideFuncs(p *core.Program) []*fn {
	var out []*fn
	for _, rel := range []string{"iterator", "rules", "cbe", "cte", "conversions", "internal/common", "internal/arrays", "ce"} {
		for _, f := range funcsOf(p.Pkg(rel)) {
			if rn := recvNamed(f.Obj); rn != nil {
				name := rn.Obj().Name()
				// decoder side types are not part of marshaling
				if (rel == "cbe" && (name == "Reader" || name == "Decoder" || name == "Unmarshaler" || name == "normalizingReader")) ||
					(rel == "cte" && (name == "cteListener" || name == "Decoder" || name == "Unmarshaler" || name == "reportingErrorListener" || name == "bailErrorStrategy")) {
					continue
				}
			}
			out = append(out, f)
		}
	}
	return out
}

func checkC18(r *core.Run, p *core.Program) {
	r.Rule("C18.no-mutation", "in every function that runs while a value is marshaled or events are encoded (iterators, validator, CBE/CTE encoders and writers, conversions), a parameter of type *big.Int, *big.Float, *apd.Decimal, []byte or reflect.Value — or an alias/view derived from it — is never the receiver of a receiver-overwriting big-number method (Neg, Abs, Add, Set…), never the destination of an element store, copy or in-place append, and never the target of a reflect Set*: the caller's value is only read.")
	r.NotDecide("mutation inside third-party encoders that are handed the pointer (compact-float, compact-time); values reachable only through unsafe aliasing")
	r.Assume("third-party encoders called with a pointer to the caller's big number do not modify it")
	funcs := marshalSideFuncs(p)
	// package-level functions that nothing in the module references are dead code, not part of marshaling
	a := newAnalysis(p)
	referenced := map[*types.Func]bool{}
	for _, pkg := range p.Pkgs {
		for _, g := range funcsOf(pkg) {
			for _, h := range a.refs(g.Obj) {
				referenced[h] = true
			}
		}
	}
	nParams := 0
	for _, f := range funcs {
		if recvNamed(f.Obj) == nil && !referenced[f.Obj] && !f.Obj.Exported() {
			continue
		}
		if recvNamed(f.Obj) == nil && !referenced[f.Obj] && core.Rel(f.Obj.Pkg()) == "internal/common" {
			continue // unreferenced helper of an internal package
		}
		info := f.Pkg.TypesInfo
		sig := f.Obj.Type().(*types.Signature)
		tracked := map[types.Object]string{} // object -> kind
		for i := 0; i < sig.Params().Len(); i++ {
			pv := sig.Params().At(i)
			switch {
			case isBigNumPtr(pv.Type()):
				tracked[pv] = "big"
			case isByteSlice(pv.Type()):
				tracked[pv] = "bytes"
			case typeIs(pv.Type(), "reflect", "Value") && !strings.HasPrefix(pv.Type().String(), "*"):
				tracked[pv] = "rv"
			}
		}
		if len(tracked) == 0 {
			continue
		}
		nParams += len(tracked)
		// aliases: v := p, v := p[a:b], v := p.Elem()/Index()/Field()/MapIndex… (views of the same object)
		rootOf := func(e ast.Expr) (types.Object, string) {
			for {
				switch x := stripParens(e).(type) {
				case *ast.Ident:
					if k, ok := tracked[info.ObjectOf(x)]; ok {
						return info.ObjectOf(x), k
					}
					return nil, ""
				case *ast.SliceExpr:
					e = x.X
				case *ast.IndexExpr:
					e = x.X
				case *ast.CallExpr:
					sel, ok := x.Fun.(*ast.SelectorExpr)
					if !ok {
						return nil, ""
					}
					cal := callee(info, x)
					if cal == nil || !typeIs(recvType(cal), "reflect", "Value") {
						return nil, ""
					}
					switch cal.Name() {
					case "Elem", "Index", "Field", "FieldByIndex", "FieldByName", "Slice", "Addr", "MapIndex":
						e = sel.X
					default:
						return nil, ""
					}
				default:
					return nil, ""
				}
			}
		}
		// shallow copies: c := *p copies the struct but shares the digit/word slices of a big number
		shallow := map[types.Object]types.Object{}
		ast.Inspect(f.Decl.Body, func(n ast.Node) bool {
			as, ok := n.(*ast.AssignStmt)
			if !ok || len(as.Lhs) != len(as.Rhs) {
				return true
			}
			for i, l := range as.Lhs {
				st, ok := stripParens(as.Rhs[i]).(*ast.StarExpr)
				if !ok {
					continue
				}
				if root := info.ObjectOf(identOf(st.X)); root != nil && tracked[root] == "big" {
					if id, ok := l.(*ast.Ident); ok {
						if o := info.ObjectOf(id); o != nil {
							shallow[o] = root
						}
					}
				}
			}
			return true
		})
		changed := true
		for iter := 0; changed && iter < 4; iter++ {
			changed = false
			ast.Inspect(f.Decl.Body, func(n ast.Node) bool {
				as, ok := n.(*ast.AssignStmt)
				if !ok || len(as.Lhs) != len(as.Rhs) {
					return true
				}
				for i, l := range as.Lhs {
					id, ok := l.(*ast.Ident)
					if !ok {
						continue
					}
					if _, k := rootOf(as.Rhs[i]); k != "" {
						obj := info.ObjectOf(id)
						if obj != nil && tracked[obj] == "" {
							tracked[obj] = k
							changed = true
						}
					}
				}
				return true
			})
		}
		ast.Inspect(f.Decl.Body, func(n ast.Node) bool {
			switch s := n.(type) {
			case *ast.CallExpr:
				cal := callee(info, s)
				if cal != nil {
					if sel, ok := s.Fun.(*ast.SelectorExpr); ok {
						if root, isShallow := shallow[info.ObjectOf(identOf(stripAddr(sel.X)))]; isShallow && mutatingMethod(cal) {
							r.Fail("C18.no-mutation", f.Name()+"|shallow copy of "+root.Name()+"."+cal.Name(), s.Pos(), "`"+exprStr(sel.X)+"` is a struct copy of the caller's big number "+root.Name()+": it shares the coefficient words, so "+cal.Name()+" on the copy overwrites the caller's digits")
						}
						if root, kind := rootOf(sel.X); root != nil {
							if kind == "big" && mutatingMethod(cal) {
								r.Fail("C18.no-mutation", f.Name()+"|"+root.Name()+"."+cal.Name(), s.Pos(), "the caller's big number "+root.Name()+" is the receiver of "+cal.Name()+", which overwrites it: marshaling modifies the value being marshaled")
							}
							if kind == "rv" && strings.HasPrefix(cal.Name(), "Set") && typeIs(recvType(cal), "reflect", "Value") {
								r.Fail("C18.no-mutation", f.Name()+"|"+root.Name()+"."+cal.Name(), s.Pos(), "reflect "+cal.Name()+" is applied to (a view of) the value being marshaled")
							}
						}
					}
				}
				if id, ok := s.Fun.(*ast.Ident); ok && len(s.Args) >= 1 {
					if _, isB := info.Uses[id].(*types.Builtin); isB {
						if root, kind := rootOf(s.Args[0]); root != nil && kind == "bytes" {
							if id.Name == "copy" {
								r.Fail("C18.no-mutation", f.Name()+"|copy into "+root.Name(), s.Pos(), "copy() writes into the caller's byte slice "+root.Name())
							}
							if id.Name == "append" {
								if _, isSlice := stripParens(s.Args[0]).(*ast.SliceExpr); isSlice {
									r.Fail("C18.no-mutation", f.Name()+"|append onto "+root.Name(), s.Pos(), "append() onto a sub-slice of the caller's byte slice "+root.Name()+" can overwrite its contents")
								}
							}
						}
					}
				}
			case *ast.AssignStmt:
				for _, l := range s.Lhs {
					if ix, ok := stripParens(l).(*ast.IndexExpr); ok {
						if root, kind := rootOf(ix.X); root != nil && kind == "bytes" {
							r.Fail("C18.no-mutation", f.Name()+"|store into "+root.Name(), s.Pos(), "an element of the caller's byte slice "+root.Name()+" is overwritten")
						}
					}
					if st, ok := stripParens(l).(*ast.StarExpr); ok {
						if root, kind := rootOf(st.X); root != nil && kind == "big" {
							r.Fail("C18.no-mutation", f.Name()+"|*"+root.Name()+" assigned", s.Pos(), "the caller's big number is overwritten through the pointer")
						}
					}
				}
			case *ast.IncDecStmt:
				if ix, ok := stripParens(s.X).(*ast.IndexExpr); ok {
					if root, kind := rootOf(ix.X); root != nil && kind == "bytes" {
						r.Fail("C18.no-mutation", f.Name()+"|store into "+root.Name(), s.Pos(), "an element of the caller's byte slice is modified")
					}
				}
			}
			return true
		})
	}
	r.Pass("C18.no-mutation", "marshal-side functions|scanned", token.NoPos, "")
	r.Count("C18.no-mutation functions scanned", len(funcs))
	r.Floor("C18.no-mutation", "tracked parameters (big numbers, byte slices, reflect values)", nParams, 150)
}

func identOf(e ast.Expr) *ast.Ident {
	if id, ok := stripParens(e).(*ast.Ident); ok {
		return id
	}
	return &ast.Ident{Name: "_"}
}
