package rules

import (
	"go/ast"
	"go/token"
	"go/types"
	"strings"

	"verif/checker/core"
)

func init() { Registry["C18"] = checkC18 }

func isBigNumPtr(t types.Type) bool {
	pt, ok := t.(*types.Pointer)
	if !ok {
		return false
	}
	return typeIs(pt, "math/big", "Int") || typeIs(pt, "math/big", "Float") || typeIs(pt, "math/big", "Rat") || typeIs(pt, "github.com/cockroachdb/apd/v2", "Decimal")
}

func isByteSlice(t types.Type) bool {
	sl, ok := t.Underlying().(*types.Slice)
	if !ok {
		return false
	}
	b, ok := sl.Elem().Underlying().(*types.Basic)
	return ok && b.Kind() == types.Uint8
}

// mutatingMethod: a method of a big-number type that overwrites its receiver (the math/big "z" convention: the first
// result is the receiver itself) or whose name says so.
func mutatingMethod(f *types.Func) bool {
	sig, ok := f.Type().(*types.Signature)
	if !ok || sig.Recv() == nil || !isBigNumPtr(sig.Recv().Type()) {
		return false
	}
	n := f.Name()
	if strings.HasPrefix(n, "Set") || strings.HasPrefix(n, "Unmarshal") || n == "Scan" || n == "GobDecode" || n == "Reduce" || n == "Modulus" {
		return true
	}
	if sig.Results().Len() >= 1 && types.Identical(sig.Results().At(0).Type(), sig.Recv().Type()) {
		// Int.Neg/Abs/Add/…, Float.Neg/…, Decimal.Neg/Abs/Set…; exclude pure accessors returning a fresh pointer
		switch n {
		case "Int", "Rat", "Num", "Denom":
			return false
		}
		return true
	}
	return false
}

// marshalSideFuncs: functions that run while a value is being marshaled / events are being encoded.
func marshalSideFuncs(p *core.Program) []*fn {
	var out []*fn
	for _, rel := range []string{"iterator", "rules", "cbe", "cte", "conversions", "internal/common", "internal/arrays", "ce"} {
		for _, f := range funcsOf(p.Pkg(rel)) {
			if rn := recvNamed(f.Obj); rn != nil {
				name := rn.Obj().Name()
				// decoder side types are not part of marshaling
				if (rel == "cbe" && (name == "Reader" || name == "Decoder" || name == "Unmarshaler" || name == "normalizingReader")) ||
					(rel == "cte" && (name == "cteListener" || name == "Decoder" || name == "Unmarshaler" || name == "reportingErrorListener" || name == "bailErrorStrategy")) {
					continue
				}
			}
			out = append(out, f)
		}
	}
	return out
}

func checkC18(r *core.Run, p *core.Program) {
	r.Rule("C18.no-mutation", "in every function that runs while a value is marshaled or events are encoded (iterators, validator, CBE/CTE encoders and writers, conversions), a parameter of type *big.Int, *big.Float, *apd.Decimal, []byte or reflect.Value — or an alias/view derived from it — is never the receiver of a receiver-overwriting big-number method (Neg, Abs, Add, Set…), never the destination of an element store, copy or in-place append, and never the target of a reflect Set*: the caller's value is only read.")
	r.Rule("C18.user-pointers", "in package iterator a pointer taken out of the value being marshaled (v.Interface().(*T)) is only read: no field store or assignment through it, no Init*/Set*/Reset*/Normalize* method on it or on the address of one of its fields, and no module function that does one of these through the corresponding parameter is handed it.")
	r.Rule("C18.fresh-document", "a document returned by an exported Marshal…Document / Encode…Document style function is the contents of a buffer that is local to that call, never of a buffer kept in the marshaler or in a package variable (the next call would overwrite the bytes the previous caller still holds).")
	r.NotDecide("mutation inside third-party encoders that are handed the pointer (compact-float, compact-time); values reachable only through unsafe aliasing")
	checkC18UserPointers(r, p)
	checkC18FreshDocument(r, p)
	r.Assume("third-party encoders called with a pointer to the caller's big number do not modify it")
	funcs := marshalSideFuncs(p)
	// package-level functions that nothing in the module references are dead code, not part of marshaling
	a := newAnalysis(p)
	referenced := map[*types.Func]bool{}
	for _, pkg := range p.Pkgs {
		for _, g := range funcsOf(pkg) {
			for _, h := range a.refs(g.Obj) {
				referenced[h] = true
			}
		}
	}
	nParams := 0
	for _, f := range funcs {
		if recvNamed(f.Obj) == nil && !referenced[f.Obj] && !f.Obj.Exported() {
			continue
		}
		if recvNamed(f.Obj) == nil && !referenced[f.Obj] && core.Rel(f.Obj.Pkg()) == "internal/common" {
			continue // unreferenced helper of an internal package
		}
		info := f.Pkg.TypesInfo
		sig := f.Obj.Type().(*types.Signature)
		tracked := map[types.Object]string{} // object -> kind
		for i := 0; i < sig.Params().Len(); i++ {
			pv := sig.Params().At(i)
			switch {
			case isBigNumPtr(pv.Type()):
				tracked[pv] = "big"
			case isByteSlice(pv.Type()):
				if recvNamed(f.Obj) == nil && !f.Obj.Exported() && onlyFreshBuffers(p, f, i) {
					continue // a helper that fills the buffer its callers have just made: not the caller's value
				}
				tracked[pv] = "bytes"
			case typeIs(pv.Type(), "reflect", "Value") && !strings.HasPrefix(pv.Type().String(), "*"):
				tracked[pv] = "rv"
			}
		}
		if len(tracked) == 0 {
			continue
		}
		nParams += len(tracked)
		// aliases: v := p, v := p[a:b], v := p.Elem()/Index()/Field()/MapIndex… (views of the same object)
		rootOf := func(e ast.Expr) (types.Object, string) {
			for {
				switch x := stripParens(e).(type) {
				case *ast.Ident:
					if k, ok := tracked[info.ObjectOf(x)]; ok {
						return info.ObjectOf(x), k
					}
					return nil, ""
				case *ast.SliceExpr:
					e = x.X
				case *ast.IndexExpr:
					e = x.X
				case *ast.CallExpr:
					sel, ok := x.Fun.(*ast.SelectorExpr)
					if !ok {
						return nil, ""
					}
					cal := callee(info, x)
					if cal == nil || !typeIs(recvType(cal), "reflect", "Value") {
						return nil, ""
					}
					switch cal.Name() {
					case "Elem", "Index", "Field", "FieldByIndex", "FieldByName", "Slice", "Addr", "MapIndex":
						e = sel.X
					default:
						return nil, ""
					}
				default:
					return nil, ""
				}
			}
		}
		// shallow copies: c := *p copies the struct but shares the digit/word slices of a big number
		shallow := map[types.Object]types.Object{}
		ast.Inspect(f.Decl.Body, func(n ast.Node) bool {
			as, ok := n.(*ast.AssignStmt)
			if !ok || len(as.Lhs) != len(as.Rhs) {
				return true
			}
			for i, l := range as.Lhs {
				st, ok := stripParens(as.Rhs[i]).(*ast.StarExpr)
				if !ok {
					continue
				}
				if root := info.ObjectOf(identOf(st.X)); root != nil && tracked[root] == "big" {
					if id, ok := l.(*ast.Ident); ok {
						if o := info.ObjectOf(id); o != nil {
							shallow[o] = root
						}
					}
				}
			}
			return true
		})
		changed := true
		for iter := 0; changed && iter < 4; iter++ {
			changed = false
			ast.Inspect(f.Decl.Body, func(n ast.Node) bool {
				as, ok := n.(*ast.AssignStmt)
				if !ok || len(as.Lhs) != len(as.Rhs) {
					return true
				}
				for i, l := range as.Lhs {
					id, ok := l.(*ast.Ident)
					if !ok {
						continue
					}
					if _, k := rootOf(as.Rhs[i]); k != "" {
						obj := info.ObjectOf(id)
						if obj != nil && tracked[obj] == "" {
							tracked[obj] = k
							changed = true
						}
					}
				}
				return true
			})
		}
		ast.Inspect(f.Decl.Body, func(n ast.Node) bool {
			switch s := n.(type) {
			case *ast.CallExpr:
				cal := callee(info, s)
				if cal != nil {
					if sel, ok := s.Fun.(*ast.SelectorExpr); ok {
						if root, isShallow := shallow[info.ObjectOf(identOf(stripAddr(sel.X)))]; isShallow && mutatingMethod(cal) {
							r.Fail("C18.no-mutation", f.Name()+"|shallow copy of "+root.Name()+"."+cal.Name(), s.Pos(), "`"+exprStr(sel.X)+"` is a struct copy of the caller's big number "+root.Name()+": it shares the coefficient words, so "+cal.Name()+" on the copy overwrites the caller's digits")
						}
						if root, kind := rootOf(sel.X); root != nil {
							if kind == "big" && mutatingMethod(cal) {
								r.Fail("C18.no-mutation", f.Name()+"|"+root.Name()+"."+cal.Name(), s.Pos(), "the caller's big number "+root.Name()+" is the receiver of "+cal.Name()+", which overwrites it: marshaling modifies the value being marshaled")
							}
							if kind == "rv" && strings.HasPrefix(cal.Name(), "Set") && typeIs(recvType(cal), "reflect", "Value") {
								r.Fail("C18.no-mutation", f.Name()+"|"+root.Name()+"."+cal.Name(), s.Pos(), "reflect "+cal.Name()+" is applied to (a view of) the value being marshaled")
							}
						}
					}
				}
				if id, ok := s.Fun.(*ast.Ident); ok && len(s.Args) >= 1 {
					if _, isB := info.Uses[id].(*types.Builtin); isB {
						if root, kind := rootOf(s.Args[0]); root != nil && kind == "bytes" {
							if id.Name == "copy" {
								r.Fail("C18.no-mutation", f.Name()+"|copy into "+root.Name(), s.Pos(), "copy() writes into the caller's byte slice "+root.Name())
							}
							if id.Name == "append" {
								if _, isSlice := stripParens(s.Args[0]).(*ast.SliceExpr); isSlice {
									r.Fail("C18.no-mutation", f.Name()+"|append onto "+root.Name(), s.Pos(), "append() onto a sub-slice of the caller's byte slice "+root.Name()+" can overwrite its contents")
								}
							}
						}
					}
				}
			case *ast.AssignStmt:
				for _, l := range s.Lhs {
					if ix, ok := stripParens(l).(*ast.IndexExpr); ok {
						if root, kind := rootOf(ix.X); root != nil && kind == "bytes" {
							r.Fail("C18.no-mutation", f.Name()+"|store into "+root.Name(), s.Pos(), "an element of the caller's byte slice "+root.Name()+" is overwritten")
						}
					}
					if st, ok := stripParens(l).(*ast.StarExpr); ok {
						if root, kind := rootOf(st.X); root != nil && kind == "big" {
							r.Fail("C18.no-mutation", f.Name()+"|*"+root.Name()+" assigned", s.Pos(), "the caller's big number is overwritten through the pointer")
						}
					}
				}
			case *ast.IncDecStmt:
				if ix, ok := stripParens(s.X).(*ast.IndexExpr); ok {
					if root, kind := rootOf(ix.X); root != nil && kind == "bytes" {
						r.Fail("C18.no-mutation", f.Name()+"|store into "+root.Name(), s.Pos(), "an element of the caller's byte slice is modified")
					}
				}
			}
			return true
		})
	}
	r.Pass("C18.no-mutation", "marshal-side functions|scanned", token.NoPos, "")
	r.Count("C18.no-mutation functions scanned", len(funcs))
	r.Floor("C18.no-mutation", "tracked parameters (big numbers, byte slices, reflect values)", nParams, 150)
}

func identOf(e ast.Expr) *ast.Ident {
	if id, ok := stripParens(e).(*ast.Ident); ok {
		return id
	}
	return &ast.Ident{Name: "_"}
}

// ptrWriteThrough reports the first place where function d writes through its parameter pv (a pointer): a store
// to *pv / pv.f / (&pv.f).g, a mutating-named pointer method on it or on the address of a field of it, or a call
// of a module function that does so (depth-bounded). Aliases `x := pv`, `x := &pv.f` are followed.
func ptrWriteThrough(p *core.Program, info *types.Info, body ast.Node, roots map[types.Object]bool, depth int) (token.Pos, string) {
	// alias closure
	for iter := 0; iter < 4; iter++ {
		grew := false
		ast.Inspect(body, func(n ast.Node) bool {
			as, ok := n.(*ast.AssignStmt)
			if !ok || len(as.Lhs) != len(as.Rhs) {
				return true
			}
			for i, l := range as.Lhs {
				id, ok := l.(*ast.Ident)
				if !ok {
					continue
				}
				if o := info.ObjectOf(id); o != nil && !roots[o] && ptrRootIn(info, as.Rhs[i], roots, true) {
					if _, isPtr := o.Type().Underlying().(*types.Pointer); isPtr {
						roots[o] = true
						grew = true
					}
				}
			}
			return true
		})
		if !grew {
			break
		}
	}
	var pos token.Pos
	what := ""
	hit := func(at token.Pos, w string) {
		if !pos.IsValid() {
			pos, what = at, w
		}
	}
	ast.Inspect(body, func(n ast.Node) bool {
		switch s := n.(type) {
		case *ast.AssignStmt:
			for _, l := range s.Lhs {
				if _, isId := stripParens(l).(*ast.Ident); isId {
					continue // rebinding the variable itself
				}
				if ptrRootIn(info, l, roots, false) {
					hit(l.Pos(), "`"+exprStr(l)+" = …`")
				}
			}
		case *ast.IncDecStmt:
			if _, isId := stripParens(s.X).(*ast.Ident); !isId && ptrRootIn(info, s.X, roots, false) {
				hit(s.Pos(), "`"+exprStr(s.X)+"` modified")
			}
		case *ast.CallExpr:
			cal := callee(info, s)
			if cal == nil {
				return true
			}
			if sel, ok := s.Fun.(*ast.SelectorExpr); ok {
				if sig, ok := cal.Type().(*types.Signature); ok && sig.Recv() != nil {
					if _, ptrRecv := sig.Recv().Type().(*types.Pointer); ptrRecv && ptrRootIn(info, sel.X, roots, true) {
						for _, pre := range []string{"Init", "Set", "Reset", "Normalize", "Clear", "Unmarshal", "Scan"} {
							if strings.HasPrefix(cal.Name(), pre) {
								hit(s.Pos(), "`"+exprStr(s.Fun)+"(…)` (a method that overwrites its receiver)")
							}
						}
					}
				}
			}
			if depth < 3 && core.InModule(cal) {
				if d := p.FuncDecl(cal); d != nil && d.Body != nil {
					sig := cal.Type().(*types.Signature)
					sub := map[types.Object]bool{}
					for i, a := range s.Args {
						if i < sig.Params().Len() && ptrRootIn(info, a, roots, true) {
							if _, isPtr := sig.Params().At(i).Type().Underlying().(*types.Pointer); isPtr {
								sub[sig.Params().At(i)] = true
							}
						}
					}
					if len(sub) > 0 {
						if pkg := p.PkgOf(cal); pkg != nil {
							if at, w := ptrWriteThrough(p, pkg.TypesInfo, d.Body, sub, depth+1); at.IsValid() {
								hit(s.Pos(), "`"+cal.Name()+"(…)`, which does "+w)
							}
						}
					}
				}
			}
		}
		return true
	})
	return pos, what
}

// ptrRootIn: e denotes (asPointer) the pointer itself or the address of something inside its pointee, or
// (!asPointer) a location inside its pointee: root, root.f, *root, root.f.g, &root.f, root.f[i] …
func ptrRootIn(info *types.Info, e ast.Expr, roots map[types.Object]bool, asPointer bool) bool {
	through := false
	for {
		switch x := stripParens(e).(type) {
		case *ast.Ident:
			if !roots[info.ObjectOf(x)] {
				return false
			}
			return asPointer || through
		case *ast.SelectorExpr:
			if _, isPkg := info.Uses[identOf(x.X)].(*types.PkgName); isPkg {
				return false
			}
			through = true
			e = x.X
		case *ast.StarExpr:
			through = true
			e = x.X
		case *ast.UnaryExpr:
			if x.Op != token.AND {
				return false
			}
			e = x.X
		case *ast.IndexExpr:
			through = true
			e = x.X
		default:
			return false
		}
	}
}

func checkC18UserPointers(r *core.Run, p *core.Program) {
	pkg := p.Pkg("iterator")
	info := pkg.TypesInfo
	n := 0
	for _, f := range funcsOf(pkg) {
		// user pointers: variables defined from v.Interface().(*T), and such expressions used directly as arguments
		roots := map[types.Object]bool{}
		isUserPtr := func(e ast.Expr) bool {
			ta, ok := stripParens(e).(*ast.TypeAssertExpr)
			if !ok || ta.Type == nil {
				return false
			}
			if _, isPtr := info.TypeOf(ta.Type).Underlying().(*types.Pointer); !isPtr {
				return false
			}
			call, ok := stripParens(ta.X).(*ast.CallExpr)
			if !ok {
				return false
			}
			cal := callee(info, call)
			return cal != nil && cal.Name() == "Interface" && typeIs(recvType(cal), "reflect", "Value")
		}
		var direct []*ast.CallExpr
		ast.Inspect(f.Decl.Body, func(nd ast.Node) bool {
			switch s := nd.(type) {
			case *ast.AssignStmt:
				if len(s.Lhs) == len(s.Rhs) {
					for i, l := range s.Lhs {
						if id, ok := l.(*ast.Ident); ok && isUserPtr(s.Rhs[i]) {
							if o := info.ObjectOf(id); o != nil {
								roots[o] = true
								n++
							}
						}
					}
				}
			case *ast.CallExpr:
				for _, a := range s.Args {
					if isUserPtr(a) {
						direct = append(direct, s)
						n++
					}
				}
				if sel, ok := s.Fun.(*ast.SelectorExpr); ok && isUserPtr(sel.X) {
					if cal := callee(info, s); cal != nil {
						for _, pre := range []string{"Init", "Set", "Reset", "Normalize", "Clear", "Unmarshal", "Scan"} {
							if strings.HasPrefix(cal.Name(), pre) {
								r.Fail("C18.user-pointers", f.Name()+"|"+cal.Name(), s.Pos(), "a receiver-overwriting method is called on the pointer taken out of the value being marshaled")
							}
						}
					}
					n++
				}
			}
			return true
		})
		if len(roots) > 0 {
			if at, w := ptrWriteThrough(p, info, f.Decl.Body, roots, 0); at.IsValid() {
				r.Fail("C18.user-pointers", f.Name()+"|writes through the user's pointer", at, "the pointer taken out of the value being marshaled is written through: "+w+" - marshaling modifies the caller's object")
			}
		}
		for _, call := range direct {
			cal := callee(info, call)
			if cal == nil || !core.InModule(cal) {
				continue
			}
			d := p.FuncDecl(cal)
			cp := p.PkgOf(cal)
			if d == nil || d.Body == nil || cp == nil {
				continue
			}
			sig := cal.Type().(*types.Signature)
			sub := map[types.Object]bool{}
			for i, a := range call.Args {
				if i < sig.Params().Len() && isUserPtr(a) {
					sub[sig.Params().At(i)] = true
				}
			}
			if at, w := ptrWriteThrough(p, cp.TypesInfo, d.Body, sub, 1); at.IsValid() {
				r.Fail("C18.user-pointers", f.Name()+"|"+cal.Name()+" writes through the user's pointer", call.Pos(), "the pointer taken out of the value being marshaled is handed to "+cal.Name()+", which does "+w+" - marshaling modifies the caller's object")
			}
		}
	}
	r.Pass("C18.user-pointers", "iterator|pointers taken out of the value are only read", token.NoPos, "")
	r.Floor("C18.user-pointers", "pointers taken out of the marshaled value", n, 5)
}

func checkC18FreshDocument(r *core.Run, p *core.Program) {
	n := 0
	for _, rel := range []string{"cbe", "cte", "ce"} {
		pkg := p.Pkg(rel)
		info := pkg.TypesInfo
		for _, f := range funcsOf(pkg) {
			if !f.Obj.Exported() {
				continue
			}
			sig := f.Obj.Type().(*types.Signature)
			returnsBytes := false
			for i := 0; i < sig.Results().Len(); i++ {
				if isByteSlice(sig.Results().At(i).Type()) {
					returnsBytes = true
				}
			}
			if !returnsBytes {
				continue
			}
			// every x.Bytes() of a bytes.Buffer in the function: x must be a variable declared in this function
			inspectCalls(info, f.Decl.Body, func(call *ast.CallExpr, cal *types.Func) {
				if cal == nil || cal.Name() != "Bytes" || !typeIs(recvType(cal), "bytes", "Buffer") {
					return
				}
				sel := call.Fun.(*ast.SelectorExpr)
				n++
				recv := stripAddr(sel.X)
				id, isId := stripParens(recv).(*ast.Ident)
				local := false
				if isId {
					if v, ok := info.ObjectOf(id).(*types.Var); ok && v.Parent() != nil && v.Parent() != v.Pkg().Scope() && !v.IsField() {
						// declared inside the function body (not a parameter / receiver)
						if f.Decl.Body.Pos() <= v.Pos() && v.Pos() <= f.Decl.Body.End() {
							if _, isPtr := v.Type().Underlying().(*types.Pointer); !isPtr {
								local = true
							} else if init := singleInit(info, f, v); init != nil {
								// buff := &bytes.Buffer{} / new(bytes.Buffer) / bytes.NewBuffer(…)
								switch x := stripParens(init).(type) {
								case *ast.UnaryExpr:
									_, isLit := stripParens(x.X).(*ast.CompositeLit)
									local = x.Op == token.AND && isLit
								case *ast.CallExpr:
									if c := callee(info, x); c != nil && c.Pkg() != nil && c.Pkg().Path() == "bytes" {
										local = true
									} else if bi, ok := x.Fun.(*ast.Ident); ok && bi.Name == "new" {
										local = true
									}
								}
							}
						}
					}
				}
				r.Check("C18.fresh-document", f.Name()+"|"+exprStr(sel.X)+".Bytes()", call.Pos(), local,
					"the returned document is the contents of `"+exprStr(sel.X)+"`, a buffer that outlives the call: the next call reuses it and overwrites the bytes the previous caller still holds")
			})
		}
	}
	r.Floor("C18.fresh-document", "documents returned from buffers", n, 2)
}

// onlyFreshBuffers: every call of the unexported function f in its package passes, for parameter idx, (a slice of)
// a local variable that the calling function created itself with make().
func onlyFreshBuffers(p *core.Program, f *fn, idx int) bool {
	info := f.Pkg.TypesInfo
	n, all := 0, true
	for _, g := range funcsOf(f.Pkg) {
		inspectCalls(info, g.Decl.Body, func(call *ast.CallExpr, cal *types.Func) {
			if cal != f.Obj || idx >= len(call.Args) {
				return
			}
			n++
			e := stripParens(call.Args[idx])
			for {
				if se, ok := e.(*ast.SliceExpr); ok {
					e = stripParens(se.X)
					continue
				}
				break
			}
			id, ok := e.(*ast.Ident)
			if !ok {
				all = false
				return
			}
			init := singleInit(info, g, info.ObjectOf(id))
			if mk, ok := init.(*ast.CallExpr); ok {
				if fid, ok := mk.Fun.(*ast.Ident); ok && fid.Name == "make" {
					return
				}
			}
			all = false
		})
	}
	return n > 0 && all
}
