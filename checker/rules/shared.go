package rules

import (
	"strings"

	"verif/checker/core"
)

// Includes: rules of other properties that are necessary conditions of a property as well (the properties overlap:
// a Go value round trip rests on the codec tables, the iterators, the builders and the numeric conversions).
// Each entry is a rule id or a rule-id prefix ending in ".". The obligations are evaluated by the owning property's
// check in the same process and re-filed under "<P>.shared/<rule>"; an obligation that is an open known finding
// of the owning property is a known finding here too.
var Includes = map[string][]string{
	"C01": {"C16.reset", "C22.float-order", "C22.int-partition", "C22.short-header", "C26.shift-offset"},
	"C02": {"C23.", "C24.", "C25."},
	"C03": {"C01.codes", "C01.widths", "C01.array-tables", "C01.chunk-header", "C01.time-table", "C02.", "C22.float-order", "C23.", "C24.", "C25.", "C11.stringlike"},
	"C04": {"C01.codes", "C01.widths", "C01.array-tables", "C01.chunk-header", "C01.time-table", "C02.", "C05.", "C06.", "C19.", "C20.tracker", "C20.check-before-descend", "C21.", "C22.float-order", "C23.", "C24.", "C25.", "C26.shift-offset", "C26.total", "C26.consumers"},
	"C05": {"C20.check-before-descend", "C20.tracker", "C21.omit-table", "C21.stable-order", "C26.shift-offset", "C16.fresh-per-call"},
	"C06": {"C13.builder", "C19.", "C20.setter-pointers", "C26.consumers", "C04.wrapper-shape", "C04.units"},
	"C07": {"C28.raw-reader", "C20.check-before-descend"},
	"C16": {"C23.begin-resets"},
	"C17": {"C07.waitgroup"},
	"C20": {"C06.references", "C06.retained-bytes", "C05.marker-ids", "C05.pairing", "C16.reset", "C16.fresh-per-call", "C06.unstack-self", "C06.siblings", "C04.wrapper-shape"},
	"C23": {"C02.encoder-state", "C25.hex-noprefix", "C29.no-dropped-error"},
	"C24": {"C25.chain"},
	"C25": {"C24.specials", "C24.range", "C24.separators", "C24.base0", "C23.separator"},
	"C13": {"C06.retained-bytes"},
	"C15": {"C16.fresh-per-call"},
	"C22": {"C01.encoder-state"},
	"C14": {"C10.dispatch"},
	"C09": {"C06.retained-bytes", "C16.reset"},
	"C26": {"C05.array-index"},
	"C28": {"C14.byte-accounting"},
	"C29": {"C28.raw-reader"},
}

var sharing = false

// RunIncludes evaluates the included rules of prop and re-files them.
func RunIncludes(r *core.Run, p *core.Program, prop string) {
	incs := Includes[prop]
	if len(incs) == 0 || sharing {
		return
	}
	sharing = true
	defer func() { sharing = false }()
	owners := map[string]bool{}
	for _, inc := range incs {
		owners[inc[:3]] = true
	}
	known, _ := core.LoadKnown(r.VerifDir)
	n := 0
	for _, q := range sortedKeys(owners) {
		fn := Registry[q]
		if fn == nil {
			r.BrokenF("included property %s has no check", q)
			continue
		}
		sub := OwnRun(q, p, r.Tier, r.Seed, r.VerifDir)
		_ = fn
		for _, b := range sub.Broken {
			r.BrokenF("shared %s: %s", q, b)
		}
		for _, o := range sub.Obls {
			match := false
			for _, inc := range incs {
				if o.Rule == inc || (strings.HasSuffix(inc, ".") && strings.HasPrefix(o.Rule, inc)) {
					match = true
				}
			}
			// obligations the owner itself shares from elsewhere are not passed on (no transitive sharing)
			if !match || strings.Contains(o.Rule, ".shared/") {
				continue
			}
			via := ""
			if !o.OK {
				for _, k := range known {
					if k.Property == q && k.Status == "open" && k.Rule == o.Rule && k.Construct == o.Construct {
						via = k.What + " (recorded under " + q + ")"
					}
				}
			}
			n++
			rule := prop + ".shared/" + o.Rule
			if _, ok := r.RuleTexts[rule]; !ok {
				r.Rule(rule, "shared with "+q+": "+sub.RuleTexts[o.Rule])
			}
			r.Share(rule, o.Construct, o.Pos, o.OK, o.Detail, via)
		}
	}
	r.Count(prop+".shared obligations taken over from other properties' checks", n)
	if n == 0 {
		r.BrokenF("%s: the included rules %v matched no obligation", prop, incs)
	}
}

// ownCache keeps, per loaded program, the obligations of each property's own rules (without shared ones), so that a
// process that evaluates several properties - or shares one property's rules into several others - computes them once.
var ownCache = map[*core.Program]map[string]*core.Run{}

// OwnRun evaluates (or returns the cached evaluation of) the own rules of property q on program p.
func OwnRun(q string, p *core.Program, tier string, seed int, verifDir string) *core.Run {
	if ownCache[p] == nil {
		ownCache[p] = map[string]*core.Run{}
	}
	if c := ownCache[p][q]; c != nil {
		return c
	}
	sub := core.NewRun(q, tier, seed, verifDir)
	sub.Prog = p
	if fn := Registry[q]; fn != nil {
		fn(sub, p)
	}
	ownCache[p][q] = sub
	return sub
}
