package rules

import (
	"fmt"
	"go/ast"
	"go/constant"
	"go/token"
	"go/types"
	"sort"
	"strings"

	"verif/checker/core"
)

func init() { Registry["C24"] = checkC24 }

// numParse is one text->number conversion call in package cte.
type numParse struct {
	Fn      *fn
	Call    *ast.CallExpr
	Kind    string // "int" (strconv.ParseInt/ParseUint, big.Int.SetString) | "float"
	Name    string
	BaseArg ast.Expr // nil if the API has no base argument
	BitsArg ast.Expr
}

// textFlow describes, for a function of cte/parser.go, which lexer tokens' text its string parameter / ctx text can carry.
type textFlow struct {
	tokens map[string]bool
}

func checkC24(r *core.Run, p *core.Program) {
	r.Rule("C24.case-pairs", "the CTE grammar is case-insensitive for every letter it uses in number prefixes, exponents, special values and escapes: wherever the hand-written parser tests token text against an ASCII letter (== / != / case with a character literal, strings.HasPrefix/HasSuffix/Contains*/Index* with a literal), the same function tests the same text against the letter's other case as well (or the text was lower/upper-cased first); a one-sided test rejects or misreads a spelling the lexer accepts.")
	checkC24CasePairs(r, p)
	r.Rule("C24.base0", "text of a lexer token that admits a decimal integer with leading zeros (PINT_DEC/NINT_DEC, decimal array elements, custom type codes, the version digit) is never handed to strconv.ParseInt/ParseUint or big.Int.SetString with the base fixed to 0 (Go would read the leading 0 as an octal prefix: 010 -> 8, 08 -> error): the base on that path is a constant 10, or a variable that is set to 10 for unprefixed text.")
	r.Rule("C24.separators", "text of a lexer token that admits the digit separator '_' passes strings.ReplaceAll(text, \"_\", \"\") (directly, in a normalising helper, or in every caller) before any strconv / math/big / third-party number parser sees it (Go accepts '_' only with base 0 and only singly).")
	r.Rule("C24.base-chain", "for every typed-array header token: lexer mode, parser alternative, listener method, numeric base handed to strconv and element bit size agree.")
	r.Rule("C24.range", "array element parsers pass the array's element bit size to strconv (so an element that does not fit is rejected), assemble the element with the width of the same switch case, and for float elements every width has its own overflow (IsInf) and underflow (== 0 but the text is not zero) rejection computed at that width - no rejection is computed at a narrower width than the case it guards.")
	r.Rule("C24.specials", "inf / -inf / nan / snan array elements append, for each element width, the IEEE-754 bit pattern of that value at that width (checked by value: sign, all-ones exponent, fraction zero for infinities, quiet bit set/clear with non-zero fraction for NaNs).")
	r.Rule("C24.escapes", "the string escape decoder handles exactly the characters the lexer's ESCAPE_CHAR token admits and maps each to the code point the specification assigns; every short escape the encoder writes is decoded back to the character it was written for; \\[hex] escapes are parsed in base 16 with room for U+10FFFF and any range guard accepts U+10FFFF itself.")
	r.Rule("C24.exact-float", "the listener for a float value token never takes a silently rounding route: nothing reachable from ExitValueFloat calls strconv.ParseFloat / fmt.Sscan*, and every float64 it reports through OnFloat is the result of (*big.Float).Float64() inside a branch whose condition requires the accuracy to be big.Exact.")
	r.NotDecide("arithmetic exactness of strconv / math/big / compact-float / apd; precision chosen for long hexadecimal floats; date and time field parsing")
	checkC24ExactFloat(r, p)

	g, err := LoadLexerGrammar(p.RepoDir)
	if err != nil {
		r.BrokenF("lexer grammar: %v", err)
		return
	}
	pr, err := loadParserGrammar(p.RepoDir)
	if err != nil {
		r.BrokenF("parser grammar: %v", err)
		return
	}
	pkg := p.Pkg("cte")
	info := pkg.TypesInfo

	// ---- which tokens' text reaches which function ------------------------------------------------
	funcs := map[*types.Func]*fn{}
	for _, f := range funcsOf(pkg) {
		funcs[f.Obj] = f
	}
	flow := map[*types.Func]map[string]bool{}
	add := func(f *types.Func, tok string) bool {
		if flow[f] == nil {
			flow[f] = map[string]bool{}
		}
		if flow[f][tok] {
			return false
		}
		flow[f][tok] = true
		return true
	}
	isLexTok := func(id string) bool {
		rr := g.Rules[id]
		return rr != nil && !rr.Fragment
	}
	for _, f := range funcsOf(pkg) {
		rn := recvNamed(f.Obj)
		if rn == nil || rn.Obj().Name() != "cteListener" {
			continue
		}
		name := f.Obj.Name()
		if !strings.HasPrefix(name, "Exit") && !strings.HasPrefix(name, "Enter") {
			continue
		}
		rule := strings.TrimPrefix(strings.TrimPrefix(name, "Exit"), "Enter")
		rule = strings.ToLower(rule[:1]) + rule[1:]
		prr := pr[rule]
		if prr == nil {
			continue
		}
		single := true
		for _, id := range prr.Idents {
			if !isLexTok(id) {
				single = false
			}
		}
		if !single {
			continue // the rule's text is not a single token's text
		}
		for _, id := range prr.Idents {
			add(f.Obj, id)
		}
	}
	// propagate to helpers that receive a string (any string argument counts: conservative over-approximation of flow)
	callersOf := map[*types.Func][]*types.Func{}
	type callSite struct {
		caller *types.Func
		call   *ast.CallExpr
	}
	sites := map[*types.Func][]callSite{}
	for _, f := range funcsOf(pkg) {
		inspectCalls(info, f.Decl.Body, func(call *ast.CallExpr, c *types.Func) {
			if c == nil || funcs[c] == nil {
				return
			}
			hasStr := false
			for _, a := range call.Args {
				if b, ok := info.TypeOf(a).Underlying().(*types.Basic); ok && b.Kind() == types.String {
					hasStr = true
				}
			}
			if hasStr {
				callersOf[c] = append(callersOf[c], f.Obj)
				sites[c] = append(sites[c], callSite{f.Obj, call})
			}
		})
	}
	for changed := true; changed; {
		changed = false
		for callee, cs := range callersOf {
			for _, c := range cs {
				for t := range flow[c] {
					if add(callee, t) {
						changed = true
					}
				}
			}
		}
	}

	// ---- parse sites ------------------------------------------------------------------------------
	var parses []numParse
	for _, f := range funcsOf(pkg) {
		ff := f
		inspectCalls(info, f.Decl.Body, func(call *ast.CallExpr, c *types.Func) {
			if c == nil || c.Pkg() == nil {
				return
			}
			np := numParse{Fn: ff, Call: call, Name: c.Pkg().Name() + "." + c.Name()}
			switch {
			case isFunc(c, "strconv", "ParseInt"), isFunc(c, "strconv", "ParseUint"):
				np.Kind, np.BaseArg, np.BitsArg = "int", call.Args[1], call.Args[2]
			case c.Name() == "SetString" && typeIs(recvType(c), "math/big", "Int"):
				np.Kind, np.BaseArg = "int", call.Args[1]
			case isFunc(c, "strconv", "ParseFloat"):
				np.Kind, np.BitsArg = "float", call.Args[1]
			case isFunc(c, "math/big", "ParseFloat"):
				np.Kind, np.BaseArg = "float", call.Args[1]
			case c.Name() == "DFloatFromString", c.Name() == "NewFromString" && strings.Contains(c.Pkg().Path(), "apd"):
				np.Kind = "float"
			default:
				return
			}
			parses = append(parses, np)
		})
	}
	r.Floor("C24.base0", "text-to-number conversion sites", len(parses), 12)

	// constReturns: e is a call of a package function all of whose return statements yield integer constants
	constReturns := func(e ast.Expr) []int64 {
		call, ok := stripParens(e).(*ast.CallExpr)
		if !ok {
			return nil
		}
		c := callee(info, call)
		if c == nil || funcs[c] == nil {
			return nil
		}
		var out []int64
		all := true
		ast.Inspect(funcs[c].Decl.Body, func(n ast.Node) bool {
			if _, ok := n.(*ast.FuncLit); ok {
				return false
			}
			if ret, ok := n.(*ast.ReturnStmt); ok {
				if len(ret.Results) != 1 {
					all = false
					return true
				}
				if v, ok := constInt(info, ret.Results[0]); ok {
					out = append(out, v)
				} else {
					all = false
				}
			}
			return true
		})
		if !all || len(out) == 0 {
			return nil
		}
		return out
	}
	// possible constant values of a base expression (constants, or a parameter/local: caller constants + assigned constants)
	var baseVals func(f *fn, e ast.Expr, depth int) (vals map[int64]bool, conditional10 bool, known bool)
	baseVals = func(f *fn, e ast.Expr, depth int) (map[int64]bool, bool, bool) {
		vals := map[int64]bool{}
		if c, ok := constInt(info, e); ok {
			vals[c] = true
			return vals, false, true
		}
		id, ok := stripParens(e).(*ast.Ident)
		if !ok || depth > 3 {
			return vals, false, false
		}
		obj := info.ObjectOf(id)
		known := true
		if pi := paramIndex(f.Obj, obj); pi >= 0 {
			for _, s := range sites[f.Obj] {
				if pi < len(s.call.Args) {
					sub, _, k := baseVals(funcs[s.caller], s.call.Args[pi], depth+1)
					if !k {
						known = false
					}
					for v := range sub {
						vals[v] = true
					}
				}
			}
		}
		ast.Inspect(f.Decl.Body, func(n ast.Node) bool {
			as, ok := n.(*ast.AssignStmt)
			if !ok {
				return true
			}
			for i, l := range as.Lhs {
				if i < len(as.Rhs) && objOf(info, l) == obj {
					if c, ok := constInt(info, as.Rhs[i]); ok {
						vals[c] = true
					} else if rc := constReturns(as.Rhs[i]); rc != nil {
						for _, c := range rc {
							vals[c] = true
						}
					} else {
						known = false
					}
				}
			}
			return true
		})
		return vals, false, known
	}

	// a token of unprefixed DECIMAL digits that may start with 0 ("09" is decimal or hexadecimal, "0f" only hexadecimal)
	leadingZeroDecimal := func(tok string) bool {
		dec := g.Matches(tok, "09") || g.Matches(tok, "-09") || g.Matches(tok, "@09[") || g.Matches(tok, "@09\"")
		hex := g.Matches(tok, "0f") || g.Matches(tok, "-0f")
		return dec && !hex
	}
	sepSamples := []string{"1_0", "-1_0", "1__0", "0x1_0", "-0x1_0", "0b1_0", "0o1_0", "1_0.5", "1.5_0", "0x1_0.8p1", "1_0e5", "1.0e1_0", "0x1.8p1_0"}
	admitsSeparator := func(tok string) bool {
		for _, s := range sepSamples {
			if g.Matches(tok, s) {
				return true
			}
		}
		return false
	}

	// does a function (or helper it calls, depth 2) strip separators? and where (position) in f
	a := newAnalysis(p)
	isStripCall := func(call *ast.CallExpr, c *types.Func) bool {
		if c == nil || !isFunc(c, "strings", "ReplaceAll") || len(call.Args) != 3 {
			return false
		}
		a1, a2 := constVal(info, call.Args[1]), constVal(info, call.Args[2])
		return a1 != nil && a2 != nil && a1.Kind() == constant.String && constant.StringVal(a1) == "_" && constant.StringVal(a2) == ""
	}
	// stripsDirect: functions that strip on every path - an unconditional strip call, or an unconditional call of
	// such a function (a normalising helper built on a `removeDigitSeparators` helper)
	stripsDirect := map[*types.Func]bool{}
	for round := 0; round < 4; round++ {
		grew := false
		for _, f := range funcsOf(pkg) {
			if stripsDirect[f.Obj] {
				continue
			}
			var stack []ast.Node
			ast.Inspect(f.Decl.Body, func(n ast.Node) bool {
				if n == nil {
					stack = stack[:len(stack)-1]
					return true
				}
				stack = append(stack, n)
				call, ok := n.(*ast.CallExpr)
				if !ok {
					return true
				}
				c := callee(info, call)
				if !(isStripCall(call, c) || (c != nil && stripsDirect[c])) {
					return true
				}
				uncond := true
				for i := 1; i < len(stack); i++ {
					switch stack[i].(type) {
					case *ast.BlockStmt:
						switch stack[i-1].(type) {
						case *ast.IfStmt, *ast.ForStmt, *ast.RangeStmt, *ast.FuncLit:
							uncond = false
						}
					case *ast.CaseClause, *ast.CommClause:
						uncond = false
					}
				}
				if uncond {
					stripsDirect[f.Obj] = true
					grew = true
				}
				return true
			})
		}
		if !grew {
			break
		}
	}
	_ = a
	// stripPos: earliest position in f where separators are stripped (directly or through a helper that strips)
	// stripBefore: separators are stripped in f (directly or through a helper that strips) before target, by a call
	// that is executed on every path to target (not inside a branch, case or loop body that target is outside of)
	stripBefore := func(f *fn, target ast.Node) bool {
		found := false
		var stack []ast.Node
		ast.Inspect(f.Decl.Body, func(n ast.Node) bool {
			if n == nil {
				stack = stack[:len(stack)-1]
				return true
			}
			stack = append(stack, n)
			call, ok := n.(*ast.CallExpr)
			if !ok || call.Pos() >= target.Pos() {
				return true
			}
			c := callee(info, call)
			if !(isStripCall(call, c) || (c != nil && stripsDirect[c])) {
				return true
			}
			uncond := true
			for i := 1; i < len(stack); i++ {
				var region ast.Node
				switch x := stack[i].(type) {
				case *ast.BlockStmt:
					switch stack[i-1].(type) {
					case *ast.IfStmt, *ast.ForStmt, *ast.RangeStmt, *ast.FuncLit:
						region = x
					}
				case *ast.CaseClause, *ast.CommClause:
					region = x
				}
				if region != nil && !(region.Pos() <= target.Pos() && target.End() <= region.End()) {
					uncond = false
				}
			}
			if uncond {
				found = true
			}
			return true
		})
		return found
	}

	nBase, nSep := 0, 0
	for _, np := range parses {
		f := np.Fn
		toks := sortedKeys(flow[f.Obj])
		if len(toks) == 0 {
			continue // not fed by a single token's text (time/date pieces are cut out with regular expressions first)
		}
		site := fmt.Sprintf("%s|%s", f.Name(), np.Name)
		// --- base0
		if np.Kind == "int" && np.BaseArg != nil {
			var lz []string
			for _, t := range toks {
				if leadingZeroDecimal(t) {
					lz = append(lz, t)
				}
			}
			if len(lz) > 0 {
				nBase++
				vals, _, known := baseVals(f, np.BaseArg, 0)
				// when the base is a parameter, pair each caller's tokens with the base that caller passes
				if id, isId := stripParens(np.BaseArg).(*ast.Ident); isId {
					if pi := paramIndex(f.Obj, info.ObjectOf(id)); pi >= 0 && len(sites[f.Obj]) > 0 {
						local := map[int64]bool{}
						lknown := true
						ast.Inspect(f.Decl.Body, func(n ast.Node) bool {
							as, ok := n.(*ast.AssignStmt)
							if !ok {
								return true
							}
							for i, l := range as.Lhs {
								if i < len(as.Rhs) && objOf(info, l) == info.ObjectOf(id) {
									if c, ok := constInt(info, as.Rhs[i]); ok {
										local[c] = true
									} else if rc := constReturns(as.Rhs[i]); rc != nil {
										for _, c := range rc {
											local[c] = true
										}
									} else {
										lknown = false
									}
								}
							}
							return true
						})
						vals, known = map[int64]bool{}, lknown
						bad := false
						for _, s := range sites[f.Obj] {
							feeds := false
							for t := range flow[s.caller] {
								if leadingZeroDecimal(t) {
									feeds = true
								}
							}
							if !feeds || pi >= len(s.call.Args) {
								continue
							}
							sv, _, sk := baseVals(funcs[s.caller], s.call.Args[pi], 1)
							for v := range sv {
								vals[v] = true
							}
							if sk && !sv[10] && !local[10] {
								bad = true
							}
						}
						for v := range local {
							vals[v] = true
						}
						if bad {
							vals = map[int64]bool{0: true}
							known = true
						}
					}
				}
				var vs []int64
				for v := range vals {
					vs = append(vs, v)
				}
				sort.Slice(vs, func(i, j int) bool { return vs[i] < vs[j] })
				ok := vals[10] || (!known && len(vals) == 0)
				if !known && !vals[10] && len(vals) > 0 {
					ok = false
				}
				r.Check("C24.base0", site+"|base for leading-zero decimals", np.Call.Pos(), ok,
					fmt.Sprintf("text of %s (a decimal that may start with 0, e.g. 010) reaches %s with base %s (possible values %v): Go reads a leading 0 as an octal prefix, so 010 decodes as 8 and 08 is rejected", strings.Join(lz, ","), np.Name, exprStr(np.BaseArg), vs))
			}
		}
		// --- separators
		var st []string
		for _, t := range toks {
			if admitsSeparator(t) {
				st = append(st, t)
			}
		}
		if len(st) > 0 {
			nSep++
			ok := stripBefore(f, np.Call)
			if !ok && len(sites[f.Obj]) > 0 {
				// every caller strips before calling f
				all := true
				for _, s := range sites[f.Obj] {
					cf := funcs[s.caller]
					if !stripBefore(cf, s.call) {
						// the caller may itself be a helper whose callers strip: one more level
						all2 := len(sites[s.caller]) > 0
						for _, s2 := range sites[s.caller] {
							if !stripBefore(funcs[s2.caller], s2.call) {
								all2 = false
							}
						}
						if !all2 {
							all = false
						}
					}
				}
				ok = all
			}
			r.Check("C24.separators", site+"|separators removed first", np.Call.Pos(), ok,
				fmt.Sprintf("text of %s may contain '_' digit separators but reaches %s without strings.ReplaceAll(text, \"_\", \"\") on the way: the literal is rejected (or misread)", strings.Join(st, ","), np.Name))
		}
	}
	r.Floor("C24.base0", "integer parses fed by leading-zero decimal tokens", nBase, 3)
	r.Floor("C24.separators", "parses fed by tokens admitting separators", nSep, 6)

	// ---- chain --------------------------------------------------------------------------------------
	chains := checkArrayReadChain(r, p, "C24.base-chain")
	r.Floor("C24.base-chain", "typed-array header tokens", chains, 38)

	// ---- range --------------------------------------------------------------------------------------
	for _, name := range []string{"parseIntElement", "parseUintElement", "parseFloatElement"} {
		f := findFn(p, "cte", name)
		if f == nil {
			r.Undecided("C24.range", "cte."+name)
			continue
		}
		sig := f.Obj.Type().(*types.Signature)
		var bitsParam *types.Var
		for i := 0; i < sig.Params().Len(); i++ {
			if sig.Params().At(i).Name() == "bitSize" {
				bitsParam = sig.Params().At(i)
			}
		}
		if bitsParam == nil {
			r.Undecided("C24.range", "cte."+name+" bitSize parameter")
			continue
		}
		// the strconv call's bit size is (derived from) the parameter
		inspectCalls(info, f.Decl.Body, func(call *ast.CallExpr, c *types.Func) {
			if c == nil || !(isFunc(c, "strconv", "ParseInt") || isFunc(c, "strconv", "ParseUint") || isFunc(c, "strconv", "ParseFloat")) {
				return
			}
			arg := call.Args[len(call.Args)-1]
			ok := objOf(info, arg) == bitsParam
			if !ok && name == "parseFloatElement" {
				// parseBitSize := bitSize; 16 -> 32 (strconv has no 16-bit floats)
				if o := objOf(info, arg); o != nil {
					ok = localDerivedFrom(info, f.Decl.Body, o, bitsParam)
				}
			}
			r.Check("C24.range", name+"|strconv bit size is the element size", call.Pos(), ok,
				"the bit size handed to strconv is "+exprStr(arg)+", not the array's element size: elements that do not fit the element type are not rejected")
		})
		// switch bitSize { case N: ... } : each clause appends N/8 bytes
		var sw *ast.SwitchStmt
		ast.Inspect(f.Decl.Body, func(n ast.Node) bool {
			if s, ok := n.(*ast.SwitchStmt); ok && s.Tag != nil && objOf(info, s.Tag) == bitsParam {
				sw = s
			}
			return true
		})
		if sw == nil {
			r.Fail("C24.range", name+"|switch over the element size", f.Decl.Pos(), "no switch over bitSize found")
			continue
		}
		for _, c := range switchTable(info, sw) {
			if c.Default {
				r.Check("C24.range", name+"|default rejects", c.Clause.Pos(), newAnalysis(p).alwaysPanics(info, c.Body), "the default clause of the element-size switch does not reject")
				continue
			}
			for i, cv := range c.Consts {
				if cv == nil {
					continue
				}
				n, _ := constant.Int64Val(cv)
				_ = i
				got := int64(-1)
				ast.Inspect(c.Clause, func(x ast.Node) bool {
					call, ok := x.(*ast.CallExpr)
					if !ok {
						return true
					}
					cc := callee(info, call)
					if cc != nil && strings.HasPrefix(cc.Name(), "AppendUint") && cc.Pkg() != nil && cc.Pkg().Path() == "encoding/binary" {
						fmt.Sscanf(strings.TrimPrefix(cc.Name(), "AppendUint"), "%d", &got)
					}
					if id, ok := call.Fun.(*ast.Ident); ok && id.Name == "append" && len(call.Args) == 2 {
						if b, ok := info.TypeOf(call.Args[1]).Underlying().(*types.Basic); ok && b.Kind() == types.Uint8 {
							got = 8
						}
					}
					return true
				})
				r.Check("C24.range", fmt.Sprintf("%s|case %d appends %d bits", name, n, n), c.Clause.Pos(), got == n,
					fmt.Sprintf("the clause for %d-bit elements appends %d bits", n, got))
				if name == "parseFloatElement" {
					c24FloatGuards(r, info, name, n, c.Clause)
				}
			}
		}
		if name == "parseFloatElement" {
			// no range rejection outside the switch (it would apply one width's bounds to all widths)
			for _, st := range f.Decl.Body.List {
				if st == ast.Stmt(sw) {
					continue
				}
				ifs, ok := st.(*ast.IfStmt)
				if !ok {
					continue
				}
				isRange := false
				inspectCalls(info, ifs.Cond, func(call *ast.CallExpr, c *types.Func) {
					if c != nil && (isFunc(c, "math", "IsInf") || c.Name() == "isFloatZero") {
						isRange = true
					}
				})
				r.Check("C24.range", name+"|no range rejection outside the width switch", ifs.Pos(), !isRange,
					"a too-big / too-small rejection `"+exprStr(ifs.Cond)+"` is computed before the switch over the element width: it applies one width's bounds to every width")
			}
		}
	}

	// ---- specials -----------------------------------------------------------------------------------
	c24Specials(r, p)

	// ---- escapes ------------------------------------------------------------------------------------
	checkEscapes(r, p, g, "C24.escapes")

	// ---- verbatim sequences: per-sequence lexer state -----------------------------------------------------
	r.Rule("C24.verbatim-state", "every field of the lexer's verbatim-sequence context that is modified while a sequence is scanned (the sentinel match position) is re-initialised when the next sequence's sentinel is recorded, so a verbatim sequence decodes the same whatever sequences preceded it in the document.")
	checkResetSpec(r, p, "C24.verbatim-state", resetSpec{rel: "cte/parser", typ: "CTELexerContext", resets: []string{"RecordVerbatimSentinel"}})
}

func localDerivedFrom(info *types.Info, body *ast.BlockStmt, local types.Object, src types.Object) bool {
	ok := false
	ast.Inspect(body, func(n ast.Node) bool {
		as, isAs := n.(*ast.AssignStmt)
		if !isAs {
			return true
		}
		for i, l := range as.Lhs {
			if i < len(as.Rhs) && objOf(info, l) == local && objOf(info, as.Rhs[i]) == src {
				ok = true
			}
		}
		return true
	})
	return ok
}

// c24FloatGuards: the clause for N-bit float elements rejects overflow and underflow at its own width.
func c24FloatGuards(r *core.Run, info *types.Info, name string, n int64, cc *ast.CaseClause) {
	wantKind := types.Float32
	if n == 64 {
		wantKind = types.Float64
	}
	hasInf, hasZero := false, false
	for _, st := range cc.Body {
		ifs, ok := st.(*ast.IfStmt)
		if !ok {
			continue
		}
		rejects := false
		for _, b := range ifs.Body.List {
			if es, ok := b.(*ast.ExprStmt); ok {
				if call, ok := es.X.(*ast.CallExpr); ok {
					if id, ok := call.Fun.(*ast.Ident); ok && id.Name == "panic" {
						rejects = true
					}
				}
			}
		}
		if !rejects {
			continue
		}
		// IsInf(float64(x), 0) or IsInf(x,0) with x of the case's width
		inspectCalls(info, ifs.Cond, func(call *ast.CallExpr, c *types.Func) {
			if c != nil && isFunc(c, "math", "IsInf") && len(call.Args) == 2 {
				x := stripConv(info, call.Args[0])
				if b, ok := info.TypeOf(x).Underlying().(*types.Basic); ok && b.Kind() == wantKind {
					hasInf = true
				}
			}
		})
		// x == 0 && !isFloatZero(str)
		if be, ok := stripParens(ifs.Cond).(*ast.BinaryExpr); ok && be.Op == token.LAND {
			if cmp, ok := stripParens(be.X).(*ast.BinaryExpr); ok && cmp.Op == token.EQL {
				if b, ok := info.TypeOf(cmp.X).Underlying().(*types.Basic); ok && b.Kind() == wantKind {
					if c, ok := constInt(info, cmp.Y); ok && c == 0 {
						if u, ok := stripParens(be.Y).(*ast.UnaryExpr); ok && u.Op == token.NOT {
							hasZero = true
						}
					}
				}
			}
		}
	}
	r.Check("C24.range", fmt.Sprintf("%s|case %d rejects overflow at its width", name, n), cc.Pos(), hasInf,
		fmt.Sprintf("the clause for %d-bit float elements has no `IsInf(value at that width) => reject`", n))
	r.Check("C24.range", fmt.Sprintf("%s|case %d rejects underflow at its width", name, n), cc.Pos(), hasZero,
		fmt.Sprintf("the clause for %d-bit float elements has no `value at that width == 0 && text is not zero => reject`", n))
}

// c24Specials: ExitArrayElem{Nan,Snan,Inf,Ninf} append the right bit pattern per width.
func c24Specials(r *core.Run, p *core.Program) {
	pkg := p.Pkg("cte")
	info := pkg.TypesInfo
	type layout struct{ bits, expBits, fracBits int }
	layouts := map[int64]layout{16: {16, 8, 7}, 32: {32, 8, 23}, 64: {64, 11, 52}}
	n := 0
	for _, kind := range []string{"Nan", "Snan", "Inf", "Ninf"} {
		f := findFn(p, "cte", "cteListener.ExitArrayElem"+kind)
		if f == nil {
			r.Undecided("C24.specials", "cte.cteListener.ExitArrayElem"+kind)
			continue
		}
		var sw *ast.SwitchStmt
		ast.Inspect(f.Decl.Body, func(nd ast.Node) bool {
			if s, ok := nd.(*ast.SwitchStmt); ok && s.Tag != nil {
				sw = s
			}
			return true
		})
		if sw == nil {
			r.Fail("C24.specials", "ExitArrayElem"+kind+"|switch over element size", f.Decl.Pos(), "no switch over the element size")
			continue
		}
		seen := map[int64]bool{}
		for _, c := range switchTable(info, sw) {
			if c.Default {
				continue
			}
			for _, cv := range c.Consts {
				w, _ := constant.Int64Val(cv)
				lay, ok := layouts[w]
				if !ok {
					continue
				}
				seen[w] = true
				n++
				var val uint64
				var found bool
				var fnBits int64
				inspectCalls(info, c.Clause, func(call *ast.CallExpr, cc *types.Func) {
					if cc == nil || !strings.HasPrefix(cc.Name(), "addUint") || len(call.Args) != 1 {
						return
					}
					fmt.Sscanf(strings.TrimSuffix(strings.TrimPrefix(cc.Name(), "addUint"), "Element"), "%d", &fnBits)
					if v, ok := constUint(info, call.Args[0]); ok {
						val, found = v, true
					}
				})
				key := fmt.Sprintf("ExitArrayElem%s|%d-bit pattern", kind, w)
				if !found {
					r.Fail("C24.specials", key, c.Clause.Pos(), "no constant bit pattern is appended in this clause")
					continue
				}
				if fnBits != w {
					r.Fail("C24.specials", key, c.Clause.Pos(), fmt.Sprintf("the %d-bit clause appends a %d-bit element", w, fnBits))
					continue
				}
				sign := val >> uint(lay.bits-1) & 1
				exp := val >> uint(lay.fracBits) & (1<<uint(lay.expBits) - 1)
				frac := val & (1<<uint(lay.fracBits) - 1)
				quiet := frac >> uint(lay.fracBits-1) & 1
				allOnes := exp == 1<<uint(lay.expBits)-1
				var good bool
				switch kind {
				case "Inf":
					good = allOnes && frac == 0 && sign == 0
				case "Ninf":
					good = allOnes && frac == 0 && sign == 1
				case "Nan":
					good = allOnes && frac != 0 && quiet == 1
				case "Snan":
					good = allOnes && frac != 0 && quiet == 0
				}
				r.Check("C24.specials", key, c.Clause.Pos(), good,
					fmt.Sprintf("the pattern %#x appended for `%s` in a %d-bit float array is not %s at that width (sign %d, exponent %#x, fraction %#x)", val, strings.ToLower(kind), w, map[string]string{"Inf": "+infinity", "Ninf": "-infinity", "Nan": "a quiet NaN", "Snan": "a signalling NaN"}[kind], sign, exp, frac))
			}
		}
		for _, w := range []int64{16, 32, 64} {
			if !seen[w] {
				r.Fail("C24.specials", fmt.Sprintf("ExitArrayElem%s|%d-bit pattern", kind, w), sw.Pos(), fmt.Sprintf("no clause for %d-bit float arrays", w))
			}
		}
	}
	r.Floor("C24.specials", "special-value clauses", n, 12)
}

// checkEscapes is shared by C24 (decode side) and C02 (encode/decode agreement).
func checkEscapes(r *core.Run, p *core.Program, g *Grammar, rule string) {
	pkg := p.Pkg("cte")
	info := pkg.TypesInfo
	// reference: CE specification, "escape sequences"
	spec := map[rune]rune{'t': '\t', 'T': '\t', 'n': '\n', 'N': '\n', 'r': '\r', 'R': '\r', '"': '"', '*': '*', '/': '/', '\\': '\\', '_': 0xa0, '-': 0xad}
	dec := findFn(p, "cte", "cteListener.ExitEscapeChar")
	if dec == nil {
		r.Undecided(rule, "cte.cteListener.ExitEscapeChar")
		return
	}
	var sw *ast.SwitchStmt
	ast.Inspect(dec.Decl.Body, func(n ast.Node) bool {
		if s, ok := n.(*ast.SwitchStmt); ok && sw == nil {
			sw = s
		}
		return true
	})
	if sw == nil {
		// the mapping may have been split off into a helper of the listener that returns the code point
		inspectCalls(info, dec.Decl.Body, func(call *ast.CallExpr, c *types.Func) {
			if sw != nil || c == nil || c.Pkg() != pkg.Types || c.Exported() {
				return
			}
			if hd := p.FuncDecl(c); hd != nil && hd.Body != nil {
				ast.Inspect(hd.Body, func(n ast.Node) bool {
					if s, ok := n.(*ast.SwitchStmt); ok && sw == nil && s.Tag != nil {
						sw = s
					}
					return true
				})
			}
		})
	}
	if sw == nil {
		r.Fail(rule, "ExitEscapeChar|switch over the escape character", dec.Decl.Pos(), "no switch found")
		return
	}
	decoded := map[rune]rune{}
	for _, c := range switchTable(info, sw) {
		if c.Default {
			r.Check(rule, "ExitEscapeChar|unknown escape rejects", c.Clause.Pos(), newAnalysis(p).alwaysPanics(info, c.Body), "the default clause of the escape switch does not reject")
			continue
		}
		var to rune = -1
		for _, st := range c.Body {
			if as, ok := st.(*ast.AssignStmt); ok && len(as.Rhs) == 1 {
				if v, ok := constInt(info, as.Rhs[0]); ok {
					to = rune(v)
				}
			}
			if ret, ok := st.(*ast.ReturnStmt); ok && len(ret.Results) == 1 {
				if v, ok := constInt(info, ret.Results[0]); ok {
					to = rune(v)
				}
			}
		}
		for _, cv := range c.Consts {
			if cv == nil {
				continue
			}
			v, _ := constant.Int64Val(constant.ToInt(cv))
			decoded[rune(v)] = to
		}
	}
	lexSet := g.ASCIISetOf("ESCAPE_CHAR")
	for ch := range lexSet {
		to, ok := decoded[ch]
		r.Check(rule, fmt.Sprintf("escape \\%c decoded", ch), sw.Pos(), ok && to == spec[ch],
			fmt.Sprintf("the lexer admits the escape \\%c; the decoder maps it to %U, the specification to %U", ch, to, spec[ch]))
	}
	for ch := range decoded {
		r.Check(rule, fmt.Sprintf("escape \\%c admitted by the lexer", ch), sw.Pos(), lexSet[ch], fmt.Sprintf("the decoder handles \\%c but the lexer's ESCAPE_CHAR does not admit it", ch))
	}
	r.Floor(rule, "escape characters admitted by the lexer", len(lexSet), 12)
	// encoder side: escapeCharQuoted `case ch: return []byte("\x")`
	enc := findFn(p, "cte", "escapeCharQuoted")
	if enc == nil {
		r.Undecided(rule, "cte.escapeCharQuoted")
	} else {
		nEnc := 0
		ast.Inspect(enc.Decl.Body, func(n ast.Node) bool {
			s, ok := n.(*ast.SwitchStmt)
			if !ok {
				return true
			}
			for _, c := range switchTable(info, s) {
				if c.Default {
					continue
				}
				text := ""
				ast.Inspect(c.Clause, func(x ast.Node) bool {
					if e, ok := x.(ast.Expr); ok {
						if cv := constVal(info, e); cv != nil && cv.Kind() == constant.String && strings.HasPrefix(constant.StringVal(cv), "\\") {
							text = constant.StringVal(cv)
						}
					}
					return true
				})
				for _, cv := range c.Consts {
					if cv == nil {
						continue
					}
					v, _ := constant.Int64Val(constant.ToInt(cv))
					nEnc++
					ok := len(text) == 2 && decoded[rune(text[1])] == rune(v)
					r.Check(rule, fmt.Sprintf("encoder escape for %U reads back", v), c.Clause.Pos(), ok,
						fmt.Sprintf("the encoder writes %U as %q, which the decoder reads as %U", v, text, decoded[rune(safeIdx(text, 1))]))
				}
			}
			return false
		})
		r.Floor(rule, "short escapes the encoder writes", nEnc, 7)
		// the switch subject must be the full rune (a narrowed index such as byte(ch) aliases other code points)
		ast.Inspect(enc.Decl.Body, func(n ast.Node) bool {
			switch x := n.(type) {
			case *ast.SwitchStmt:
				if x.Tag != nil {
					b, _ := info.TypeOf(x.Tag).Underlying().(*types.Basic)
					r.Check(rule, "escapeCharQuoted|switches on the whole code point", x.Pos(), b != nil && b.Kind() == types.Int32, "the escape selection is made on "+exprStr(x.Tag)+", not on the whole code point")
				}
			case *ast.IndexExpr:
				// table lookups must not be indexed by a narrowed rune
				if call, ok := stripParens(x.Index).(*ast.CallExpr); ok && len(call.Args) == 1 {
					if tv, ok := info.Types[call.Fun]; ok && tv.IsType() {
						to, _ := tv.Type.Underlying().(*types.Basic)
						from, _ := info.TypeOf(call.Args[0]).Underlying().(*types.Basic)
						if to != nil && from != nil && from.Kind() == types.Int32 && (to.Kind() == types.Uint8 || to.Kind() == types.Int8 || to.Kind() == types.Uint16) {
							r.Fail(rule, "escapeCharQuoted|switches on the whole code point", x.Pos(), "an escape table is indexed with "+exprStr(x.Index)+": code points that share the low bits get another character's escape")
						}
					}
				}
			}
			return true
		})
	}
	// the safety of a string is decided on its characters, never on single bytes
	nClass := 0
	for _, rel := range []string{"cte", "rules"} {
		cpkg := p.Pkg(rel)
		cinfo := cpkg.TypesInfo
		for _, f := range funcsOf(cpkg) {
			inspectCalls(cinfo, f.Decl.Body, func(call *ast.CallExpr, c *types.Func) {
				if c == nil || core.Rel(c.Pkg()) != "internal/chars" || len(call.Args) == 0 {
					return
				}
				sig := c.Type().(*types.Signature)
				if sig.Params().Len() == 0 {
					return
				}
				if b, ok := sig.Params().At(0).Type().Underlying().(*types.Basic); !ok || b.Kind() != types.Int32 {
					return
				}
				nClass++
				conv, ok := stripParens(call.Args[0]).(*ast.CallExpr)
				if !ok || len(conv.Args) != 1 {
					return
				}
				if tv, ok := cinfo.Types[conv.Fun]; !ok || !tv.IsType() {
					return
				}
				if ab, ok := cinfo.TypeOf(conv.Args[0]).Underlying().(*types.Basic); ok && ab.Kind() == types.Uint8 {
					r.Fail(rule, f.Name()+"|"+c.Name()+" on single bytes", call.Pos(), "`"+exprStr(call)+"` classifies one BYTE of the text as a character: the bytes of a multi-byte UTF-8 character are never the character itself, so characters that must be escaped (U+0085, U+2028, …) are judged safe")
				}
			})
		}
	}
	r.Floor(rule, "character classifications by internal/chars", nClass, 4)
	// unicodeEscape writes \[%x]; parseHexCodepoint reads base 16
	if ue := findFn(p, "cte", "unicodeEscape"); ue != nil {
		okFmt := false
		ast.Inspect(ue.Decl.Body, func(n ast.Node) bool {
			if e, ok := n.(ast.Expr); ok {
				if cv := constVal(info, e); cv != nil && cv.Kind() == constant.String && (strings.Contains(constant.StringVal(cv), "%x") || strings.Contains(constant.StringVal(cv), "%X")) {
					okFmt = true
				}
			}
			// strconv.AppendUint / AppendInt / FormatUint / FormatInt with base 16 render the same digits
			if call, ok := n.(*ast.CallExpr); ok {
				if c := callee(info, call); c != nil && c.Pkg() != nil && c.Pkg().Path() == "strconv" && len(call.Args) >= 2 {
					switch c.Name() {
					case "AppendUint", "AppendInt", "FormatUint", "FormatInt":
						if b, isC := constInt(info, call.Args[len(call.Args)-1]); isC && b == 16 {
							okFmt = true
						}
					}
				}
			}
			return true
		})
		r.Check(rule, "unicodeEscape|hexadecimal code point", ue.Decl.Pos(), okFmt, "the code-point escape is not written with a hexadecimal verb")
	} else {
		r.Undecided(rule, "cte.unicodeEscape")
	}
	if ph := findFn(p, "cte", "parseHexCodepoint"); ph != nil {
		inspectCalls(info, ph.Decl.Body, func(call *ast.CallExpr, c *types.Func) {
			if c == nil || !(isFunc(c, "strconv", "ParseUint") || isFunc(c, "strconv", "ParseInt")) {
				return
			}
			base, _ := constInt(info, call.Args[1])
			bits, _ := constInt(info, call.Args[2])
			r.Check(rule, "parseHexCodepoint|base 16, at least 21 bits", call.Pos(), base == 16 && bits >= 21, fmt.Sprintf("code points are parsed with base %d into %d bits", base, bits))
		})
		// any comparison with unicode.MaxRune must accept MaxRune itself
		ast.Inspect(ph.Decl.Body, func(n ast.Node) bool {
			be, ok := n.(*ast.BinaryExpr)
			if !ok {
				return true
			}
			for side, e := range []ast.Expr{be.X, be.Y} {
				c, okc := constInt(info, stripConv(info, e))
				if !okc || c != 0x10ffff {
					continue
				}
				// value OP MaxRune rejecting: only `>` (or MaxRune `<` value)
				good := (side == 1 && be.Op == token.GTR) || (side == 0 && be.Op == token.LSS) || (side == 1 && be.Op == token.LEQ) || (side == 0 && be.Op == token.GEQ)
				r.Check(rule, "parseHexCodepoint|U+10FFFF accepted", be.Pos(), good, "the range test `"+exprStr(be)+"` also rejects U+10FFFF, the last valid code point")
			}
			return true
		})
	} else {
		r.Undecided(rule, "cte.parseHexCodepoint")
	}
}

func safeIdx(s string, i int) byte {
	if i < len(s) {
		return s[i]
	}
	return 0
}

func checkC24ExactFloat(r *core.Run, p *core.Program) {
	f := findFn(p, "cte", "cteListener.ExitValueFloat")
	if f == nil {
		r.Undecided("C24.exact-float", "cte.cteListener.ExitValueFloat")
		return
	}
	info := f.Pkg.TypesInfo
	// (a) no rounding parser reachable
	seen := map[*types.Func]bool{f.Obj: true}
	var visit func(d *ast.FuncDecl, depth int)
	lossy := ""
	var lossyPos token.Pos
	visit = func(d *ast.FuncDecl, depth int) {
		inspectCalls(info, d.Body, func(call *ast.CallExpr, cal *types.Func) {
			if cal == nil {
				return
			}
			if isFunc(cal, "strconv", "ParseFloat") || (cal.Pkg() != nil && cal.Pkg().Path() == "fmt" && strings.HasPrefix(cal.Name(), "Sscan")) {
				lossy, lossyPos = cal.Pkg().Name()+"."+cal.Name()+" in "+d.Name.Name, call.Pos()
				return
			}
			if depth < 3 && cal.Pkg() == f.Pkg.Types && !seen[cal] {
				seen[cal] = true
				if hd := p.FuncDecl(cal); hd != nil && hd.Body != nil {
					visit(hd, depth+1)
				}
			}
		})
	}
	visit(f.Decl, 0)
	r.Check("C24.exact-float", "cte.cteListener.ExitValueFloat|no rounding parser", posOr(lossyPos, f.Decl.Pos()), lossy == "",
		"a float value token reaches "+lossy+", which rounds to the nearest float64 without saying so: the decoded value differs from the literal")
	// (b) OnFloat arguments
	n := 0
	var stack []ast.Node
	ast.Inspect(f.Decl.Body, func(nd ast.Node) bool {
		if nd == nil {
			stack = stack[:len(stack)-1]
			return true
		}
		stack = append(stack, nd)
		call, ok := nd.(*ast.CallExpr)
		if !ok {
			return true
		}
		cal := callee(info, call)
		if cal == nil || cal.Name() != "OnFloat" || len(call.Args) != 1 {
			return true
		}
		n++
		// root variable of the argument
		var root types.Object
		ast.Inspect(call.Args[0], func(k ast.Node) bool {
			if id, ok := k.(*ast.Ident); ok {
				if v, isVar := info.ObjectOf(id).(*types.Var); isVar && root == nil {
					if b, isB := v.Type().Underlying().(*types.Basic); isB && b.Kind() == types.Float64 {
						if init := definingCall(info, f, v); init != nil {
							if ic := callee(info, init); ic != nil && ic.Name() == "Float64" && recvNamed(ic) != nil && recvNamed(ic).Obj().Name() == "Float" {
								root = v
							}
						}
					}
				}
			}
			return true
		})
		exact := false
		for i := len(stack) - 2; i >= 0; i-- {
			if ifs, ok := stack[i].(*ast.IfStmt); ok && stack[i+1] == ast.Node(ifs.Body) {
				ast.Inspect(ifs.Cond, func(k ast.Node) bool {
					if be, ok := k.(*ast.BinaryExpr); ok && be.Op == token.EQL {
						for _, side := range []ast.Expr{be.X, be.Y} {
							if c, ok := objOf(info, side).(*types.Const); ok && c.Name() == "Exact" && c.Pkg().Path() == "math/big" {
								exact = true
							}
						}
					}
					return true
				})
			}
		}
		r.Check("C24.exact-float", "cte.cteListener.ExitValueFloat|OnFloat is exact", call.Pos(), root != nil && exact,
			"the float64 reported for a float literal is not the result of (*big.Float).Float64() checked to be big.Exact: a literal that float64 cannot hold is reported rounded instead of as a big float")
		return true
	})
	r.Floor("C24.exact-float", "OnFloat reports in ExitValueFloat", n, 1)
}

func posOr(a, b token.Pos) token.Pos {
	if a.IsValid() {
		return a
	}
	return b
}

// definingCall returns the call whose (multi-value) result defines v, when v is defined exactly once that way.
func definingCall(info *types.Info, f *fn, v types.Object) *ast.CallExpr {
	var out *ast.CallExpr
	n := 0
	ast.Inspect(f.Decl.Body, func(nd ast.Node) bool {
		as, ok := nd.(*ast.AssignStmt)
		if !ok {
			return true
		}
		for _, l := range as.Lhs {
			if objOf(info, l) == v {
				n++
				if len(as.Rhs) == 1 {
					if c, ok := stripParens(as.Rhs[0]).(*ast.CallExpr); ok {
						out = c
					}
				}
			}
		}
		return true
	})
	if n == 1 {
		return out
	}
	return nil
}

func checkC24CasePairs(r *core.Run, p *core.Program) {
	pkg := p.Pkg("cte")
	info := pkg.TypesInfo
	swap := func(lit string) (string, bool) {
		has := false
		out := []byte(lit)
		for i := 1; i+1 < len(out); i++ { // inside the quotes
			c := out[i]
			if c == '\\' {
				return "", false // escapes: not a plain letter literal
			}
			if c >= 'a' && c <= 'z' {
				out[i] = c - 32
				has = true
			} else if c >= 'A' && c <= 'Z' {
				out[i] = c + 32
				has = true
			}
		}
		return string(out), has
	}
	n := 0
	for _, f := range funcsOf(pkg) {
		file := p.Fset.Position(f.Decl.Pos()).Filename
		if !strings.HasSuffix(file, "/cte/parser.go") {
			continue
		}
		type item struct {
			subj, kind, lit string
			pos            token.Pos
		}
		var items []item
		add := func(subj ast.Expr, kind string, lit ast.Expr) {
			bl, ok := stripParens(lit).(*ast.BasicLit)
			if !ok || (bl.Kind != token.CHAR && bl.Kind != token.STRING) {
				return
			}
			items = append(items, item{exprStr(stripParens(subj)), kind, bl.Value, bl.Pos()})
		}
		ast.Inspect(f.Decl.Body, func(nd ast.Node) bool {
			switch x := nd.(type) {
			case *ast.BinaryExpr:
				if x.Op == token.EQL || x.Op == token.NEQ {
					add(x.X, "cmp", x.Y)
					add(x.Y, "cmp", x.X)
				}
			case *ast.SwitchStmt:
				if x.Tag != nil {
					for _, c := range x.Body.List {
						for _, e := range c.(*ast.CaseClause).List {
							add(x.Tag, "cmp", e)
						}
					}
				}
			case *ast.CallExpr:
				if c := callee(info, x); c != nil && c.Pkg() != nil && c.Pkg().Path() == "strings" && len(x.Args) == 2 {
					switch c.Name() {
					case "HasPrefix", "HasSuffix", "Contains", "ContainsRune", "Index", "IndexByte", "IndexRune", "LastIndex", "LastIndexByte":
						add(x.Args[0], c.Name(), x.Args[1])
					}
				}
			}
			return true
		})
		for _, it := range items {
			sw, has := swap(it.lit)
			if !has {
				continue
			}
			n++
			ok := strings.Contains(it.subj, "ToLower(") || strings.Contains(it.subj, "ToUpper(")
			for _, o := range items {
				if o.subj == it.subj && o.kind == it.kind && o.lit == sw {
					ok = true
				}
			}
			r.Check("C24.case-pairs", f.Name()+"|"+it.kind+" "+it.subj+" "+it.lit, it.pos, ok,
				"the text "+it.subj+" is tested against "+it.lit+" but not against "+sw+" in this function: the lexer accepts both spellings, so the other one is rejected or read as something else")
		}
	}
	r.Floor("C24.case-pairs", "letter tests on token text", n, 10)
}
