package rules

import (
	"fmt"
	"go/ast"
	"go/constant"
	"go/token"
	"go/types"
	"strings"

	"verif/checker/core"
)

func init() { Registry["C15"] = checkC15 }

// canon renders an expression with identifiers resolved through go/types:
// the method's parameters become P0,P1,…, the receiver R, package-level objects pkgpath.Name.
func canon(info *types.Info, e ast.Expr, params map[types.Object]string) string {
	switch e := e.(type) {
	case *ast.ParenExpr:
		return canon(info, e.X, params)
	case *ast.Ident:
		obj := info.ObjectOf(e)
		if s, ok := params[obj]; ok {
			return s
		}
		switch o := obj.(type) {
		case *types.Const, *types.Var, *types.Func, *types.TypeName:
			if o.Pkg() != nil && o.Parent() == o.Pkg().Scope() {
				return shortPkg(o.Pkg().Path()) + "." + o.Name()
			}
		case *types.Nil:
			return "nil"
		}
		if tv, ok := info.Types[e]; ok && tv.Value != nil {
			return tv.Value.ExactString()
		}
		return e.Name
	case *ast.SelectorExpr:
		if _, ok := info.Uses[e.Sel].(*types.PkgName); ok {
			return e.Sel.Name
		}
		if id, ok := e.X.(*ast.Ident); ok {
			if _, isPkg := info.Uses[id].(*types.PkgName); isPkg {
				obj := info.ObjectOf(e.Sel)
				if obj != nil && obj.Pkg() != nil {
					return shortPkg(obj.Pkg().Path()) + "." + obj.Name()
				}
			}
		}
		return canon(info, e.X, params) + "." + e.Sel.Name
	case *ast.CallExpr:
		var args []string
		for _, a := range e.Args {
			args = append(args, canon(info, a, params))
		}
		return canon(info, e.Fun, params) + "(" + strings.Join(args, ",") + ")"
	case *ast.UnaryExpr:
		return e.Op.String() + canon(info, e.X, params)
	case *ast.BinaryExpr:
		return canon(info, e.X, params) + e.Op.String() + canon(info, e.Y, params)
	case *ast.BasicLit:
		if tv, ok := info.Types[e]; ok && tv.Value != nil {
			return tv.Value.ExactString()
		}
		return e.Value
	case *ast.StarExpr:
		return "*" + canon(info, e.X, params)
	case *ast.IndexExpr:
		return canon(info, e.X, params) + "[" + canon(info, e.Index, params) + "]"
	}
	return types.ExprString(e)
}

func shortPkg(path string) string {
	path = strings.TrimPrefix(path, core.ModulePath+"/")
	return path
}

// accepted self-redispatch shapes (condition -> call), from the property statement:
// nil big number / big decimal -> null; NaN float / decimal float / big decimal -> NaN of the same kind.
var c15Redispatch = map[string]string{
	"P0==nil":        "R.OnNull()",
	"math.IsNaN(P0)": "R.OnNan(!internal/common.HasQuietNanBitSet64(P0))",
	"P0.IsNan()":     "R.OnNan(P0.IsSignalingNan())",
	"P0.Form==github.com/cockroachdb/apd/v2.NaNSignaling": "R.OnNan(true)",
	"P0.Form==github.com/cockroachdb/apd/v2.NaN":          "R.OnNan(false)",
}

// which events may use which redispatch target
var c15RedispatchAllowed = map[string]map[string]bool{
	"OnBigInt":          {"R.OnNull()": true},
	"OnBigFloat":        {"R.OnNull()": true},
	"OnBigDecimalFloat": {"R.OnNull()": true, "R.OnNan(true)": true, "R.OnNan(false)": true},
	"OnFloat":           {"R.OnNan(!internal/common.HasQuietNanBitSet64(P0))": true},
	"OnDecimalFloat":    {"R.OnNan(P0.IsSignalingNan())": true},
}

// C15 — the validator passes accepted events through unchanged (proof obligations).
func checkC15(r *core.Run, p *core.Program) {
	r.Level = "proof"
	r.Rule("C15.forward", "each RulesEventReceiver event method ends, on every path that is not an early return, in exactly one call on the next receiver, to the method of the same name, as its last top-level statement; there is no other call on the next receiver, no go/defer, no loop around it.")
	r.Rule("C15.args", "each argument of the forwarding call is the method's own parameter at the same position; parameters are never assigned, incremented, address-taken or element-written in the method.")
	r.Rule("C15.redispatch", "the only early returns are the self-redispatches the property lists (nil big number -> OnNull; NaN -> OnNan of the same kind, shapes resolved through go/types), each followed by return; every other conditional must reject (panic).")
	r.Rule("C15.isolation", "nothing else in package rules can reach the next receiver: the receiver field is used only as the callee object of forwarding calls and assigned only in Init/SetNextReceiver, and no other function of package rules calls a DataEventReceiver method.")
	r.Rule("C15.nan-bit", "common.HasQuietNanBitSet64 tests exactly bit 51 of the IEEE-754 bits (so a quiet NaN is forwarded as quiet, a signalling one as signalling).")
	r.Rule("C15.no-mutation", "no function of package rules writes through a []byte it was handed (element store, copy/append into it): forwarded array data is byte-identical.")
	r.NotDecide("nothing at the level of the receiver methods: the methods are straight-line, so the obligations imply the statement for every stream; behaviour of the next receiver and of panics raised by rules (rejections) is outside the property")
	r.Assume("go/types resolution of callees; a panic raised by validation counts as rejection of the event (nothing is forwarded)")

	pkg := p.Pkg("rules")
	info := pkg.TypesInfo
	a := newAnalysis(p)
	rer := p.LookupType("rules", "RulesEventReceiver")
	iface := p.LookupType("ce/events", "DataEventReceiver")
	if rer == nil || iface == nil {
		r.Undecided("C15.forward", "rules.RulesEventReceiver / events.DataEventReceiver")
		return
	}
	ifaceT := iface.Type().Underlying().(*types.Interface)
	st, _ := rer.Type().Underlying().(*types.Struct)
	var recvField *types.Var
	if st != nil {
		for i := 0; i < st.NumFields(); i++ {
			if types.Identical(st.Field(i).Type(), iface.Type()) {
				if recvField != nil {
					r.Fail("C15.isolation", "rules.RulesEventReceiver|single-next-receiver", st.Field(i).Pos(), "more than one DataEventReceiver field: events could be duplicated to a second receiver")
				}
				recvField = st.Field(i)
			}
		}
	}
	if recvField == nil {
		r.Undecided("C15.forward", "the DataEventReceiver field of rules.RulesEventReceiver")
		return
	}

	nMethods := 0
	for i := 0; i < ifaceT.NumMethods(); i++ {
		m := ifaceT.Method(i)
		f := findFn(p, "rules", "RulesEventReceiver."+m.Name())
		if f == nil {
			r.Undecided("C15.forward", "rules.RulesEventReceiver."+m.Name())
			continue
		}
		nMethods++
		checkC15Method(r, a, info, f, recvField, m.Name())
	}
	r.Floor("C15.forward", "event methods", nMethods, 40)

	// ---- isolation
	uses := 0
	for _, f := range funcsOf(pkg) {
		isRER := recvNamed(f.Obj) != nil && recvNamed(f.Obj).Obj() == rer
		ast.Inspect(f.Decl.Body, func(n ast.Node) bool {
			switch n := n.(type) {
			case *ast.CallExpr:
				cal := callee(info, n)
				if cal != nil && recvType(cal) != nil && types.Identical(recvType(cal), iface.Type()) {
					if !isRER {
						r.Fail("C15.isolation", f.Name()+"|calls "+cal.Name(), n.Pos(), "a function outside RulesEventReceiver calls DataEventReceiver."+cal.Name()+": rules could add or reorder events")
					}
				}
			case *ast.SelectorExpr:
				if fieldOf(info, n) == recvField {
					uses++
				}
			}
			return true
		})
	}
	// every use of the field must be: callee object of a call (x.receiver.M(...)), lhs of an assignment in Init/SetNextReceiver, or a nil comparison
	for _, f := range funcsOf(pkg) {
		parents := map[ast.Node]ast.Node{}
		var stack []ast.Node
		ast.Inspect(f.Decl.Body, func(n ast.Node) bool {
			if n == nil {
				stack = stack[:len(stack)-1]
				return true
			}
			if len(stack) > 0 {
				parents[n] = stack[len(stack)-1]
			}
			stack = append(stack, n)
			return true
		})
		ast.Inspect(f.Decl.Body, func(n ast.Node) bool {
			sel, ok := n.(*ast.SelectorExpr)
			if !ok || fieldOf(info, sel) != recvField {
				return true
			}
			par := parents[sel]
			okUse := false
			switch pn := par.(type) {
			case *ast.SelectorExpr: // x.receiver.Method
				if call, ok := parents[pn].(*ast.CallExpr); ok && call.Fun == pn {
					okUse = true
				}
			case *ast.AssignStmt:
				for _, lhs := range pn.Lhs {
					if lhs == sel {
						okUse = f.Decl.Name.Name == "Init" || f.Decl.Name.Name == "SetNextReceiver"
					}
				}
			case *ast.BinaryExpr:
				okUse = pn.Op == token.EQL || pn.Op == token.NEQ
			}
			if !okUse {
				r.Fail("C15.isolation", f.Name()+"|receiver-escapes", sel.Pos(), "the next-receiver field is read as a value (passed/stored elsewhere) or assigned outside Init/SetNextReceiver: something other than the forwarding calls could reach it")
			}
			return true
		})
	}
	r.Check("C15.isolation", "rules|next-receiver-only-forwarded", token.NoPos, true, "")
	r.Count("C15.isolation uses of the receiver field", uses)

	// ---- nan bit
	if hq := findFn(p, "internal/common", "HasQuietNanBitSet64"); hq == nil {
		r.Undecided("C15.nan-bit", "common.HasQuietNanBitSet64")
	} else {
		hinfo := hq.Pkg.TypesInfo
		ok := false
		if len(hq.Decl.Body.List) == 1 {
			if ret, isRet := hq.Decl.Body.List[0].(*ast.ReturnStmt); isRet && len(ret.Results) == 1 {
				if be, isBin := stripParens(ret.Results[0]).(*ast.BinaryExpr); isBin && be.Op == token.NEQ {
					if z, isC := constInt(hinfo, be.Y); isC && z == 0 {
						if and, isAnd := stripParens(be.X).(*ast.BinaryExpr); isAnd && and.Op == token.AND {
							var maskE, bitsE ast.Expr = and.Y, and.X
							if _, isC := constUint(hinfo, and.X); isC {
								maskE, bitsE = and.X, and.Y
							}
							mask, isC := constUint(hinfo, maskE)
							if call, isCall := stripParens(bitsE).(*ast.CallExpr); isC && isCall && mask == 1<<51 && isFunc(callee(hinfo, call), "math", "Float64bits") {
								ok = true
							}
						}
					}
				}
			}
		}
		r.Check("C15.nan-bit", "internal/common.HasQuietNanBitSet64", hq.Decl.Pos(), ok,
			"HasQuietNanBitSet64 is not `math.Float64bits(v) & (1<<51) != 0`: the NaN kind forwarded by OnFloat would not be the kind received")
	}

	// ---- no mutation of handed []byte in package rules
	nb := 0
	for _, f := range funcsOf(pkg) {
		sig := f.Obj.Type().(*types.Signature)
		byteParams := map[types.Object]bool{}
		for i := 0; i < sig.Params().Len(); i++ {
			if sl, ok := sig.Params().At(i).Type().Underlying().(*types.Slice); ok {
				if b, ok := sl.Elem().Underlying().(*types.Basic); ok && b.Kind() == types.Uint8 {
					byteParams[sig.Params().At(i)] = true
				}
			}
		}
		if len(byteParams) == 0 {
			continue
		}
		nb++
		rootParam := func(e ast.Expr) types.Object {
			for {
				switch x := stripParens(e).(type) {
				case *ast.SliceExpr:
					e = x.X
				case *ast.IndexExpr:
					e = x.X
				case *ast.Ident:
					if byteParams[info.ObjectOf(x)] {
						return info.ObjectOf(x)
					}
					return nil
				default:
					return nil
				}
			}
		}
		ast.Inspect(f.Decl.Body, func(n ast.Node) bool {
			switch s := n.(type) {
			case *ast.AssignStmt:
				for _, lhs := range s.Lhs {
					if ix, ok := stripParens(lhs).(*ast.IndexExpr); ok && rootParam(ix.X) != nil {
						r.Fail("C15.no-mutation", f.Name()+"|element-store", s.Pos(), "stores into the caller's byte slice "+exprStr(ix.X)+": forwarded data would differ from what was received")
					}
				}
			case *ast.CallExpr:
				if id, ok := s.Fun.(*ast.Ident); ok {
					if b, ok := info.Uses[id].(*types.Builtin); ok && len(s.Args) > 0 {
						if b.Name() == "copy" && rootParam(s.Args[0]) != nil {
							r.Fail("C15.no-mutation", f.Name()+"|copy-into-param", s.Pos(), "copy() into the caller's byte slice")
						}
						if b.Name() == "append" {
							// append(param[:k], ...) can overwrite the caller's backing array
							if _, isSlice := stripParens(s.Args[0]).(*ast.SliceExpr); isSlice && rootParam(s.Args[0]) != nil {
								r.Fail("C15.no-mutation", f.Name()+"|append-into-param", s.Pos(), "append() onto a sub-slice of the caller's byte slice can overwrite its contents")
							}
						}
					}
				}
			}
			return true
		})
	}
	r.Check("C15.no-mutation", "rules|functions taking []byte", token.NoPos, true, "")
	r.Floor("C15.no-mutation", "rules functions taking []byte", nb, 10)
}

func checkC15Method(r *core.Run, a *analysis, info *types.Info, f *fn, recvField *types.Var, ev string) {
	name := f.Name()
	sig := f.Obj.Type().(*types.Signature)
	params := map[types.Object]string{}
	var paramList []types.Object
	for i := 0; i < sig.Params().Len(); i++ {
		params[sig.Params().At(i)] = fmt.Sprintf("P%d", i)
		paramList = append(paramList, sig.Params().At(i))
	}
	var recvObj types.Object
	if f.Decl.Recv != nil && len(f.Decl.Recv.List) == 1 && len(f.Decl.Recv.List[0].Names) == 1 {
		recvObj = info.ObjectOf(f.Decl.Recv.List[0].Names[0])
		params[recvObj] = "R"
	}
	isPtrRecv := false
	if _, ok := sig.Recv().Type().(*types.Pointer); ok {
		isPtrRecv = true
	}
	r.Check("C15.forward", name+"|pointer-receiver", f.Decl.Pos(), isPtrRecv, "value receiver: validator state updates would be lost between events")

	// all calls on the next receiver, anywhere in the body (incl. nested/closures)
	var fwdCalls []*ast.CallExpr
	ast.Inspect(f.Decl.Body, func(n ast.Node) bool {
		switch n := n.(type) {
		case *ast.CallExpr:
			if sel, ok := n.Fun.(*ast.SelectorExpr); ok && fieldOf(info, sel.X) == recvField {
				fwdCalls = append(fwdCalls, n)
			}
		case *ast.GoStmt:
			r.Fail("C15.forward", name+"|go-statement", n.Pos(), "go statement in an event method: ordering of forwarded events is no longer the ordering received")
		case *ast.DeferStmt:
			r.Fail("C15.forward", name+"|defer-statement", n.Pos(), "defer in an event method: forwarding could happen after a rejection")
		case *ast.ForStmt, *ast.RangeStmt:
			r.Fail("C15.forward", name+"|loop", n.Pos(), "loop in an event method: an event could be forwarded more than once")
		}
		return true
	})
	stmts := c15Desugar(f.Decl.Body.List)
	// the forwarding call must be the last top-level statement
	var last *ast.CallExpr
	if len(stmts) > 0 {
		if es, ok := stmts[len(stmts)-1].(*ast.ExprStmt); ok {
			if c, ok := es.X.(*ast.CallExpr); ok {
				if sel, ok := c.Fun.(*ast.SelectorExpr); ok && fieldOf(info, sel.X) == recvField {
					last = c
				}
			}
		}
	}
	r.Check("C15.forward", name+"|forwards-last", f.Decl.Pos(), last != nil,
		"the method does not end in a call on the next receiver: an accepted "+ev+" event is dropped (or forwarded before validation finished)")
	r.Check("C15.forward", name+"|forwards-exactly-once", f.Decl.Pos(), len(fwdCalls) == 1,
		fmt.Sprintf("%d calls on the next receiver in this method, expected exactly 1: events are added, duplicated or dropped", len(fwdCalls)))
	if last != nil {
		sel := last.Fun.(*ast.SelectorExpr)
		r.Check("C15.forward", name+"|same-event", last.Pos(), sel.Sel.Name == ev,
			"forwards "+sel.Sel.Name+" instead of "+ev+": the next receiver gets a different event")
		// args
		okArgs := len(last.Args) == len(paramList) && !last.Ellipsis.IsValid()
		detail := ""
		if okArgs {
			for i, arg := range last.Args {
				id, isId := stripParens(arg).(*ast.Ident)
				if !isId || info.ObjectOf(id) != paramList[i] {
					okArgs = false
					detail = fmt.Sprintf("argument %d is %s, not the method's parameter %s", i, exprStr(arg), paramList[i].Name())
					break
				}
			}
		} else {
			detail = "argument count differs from parameter count"
		}
		r.Check("C15.args", name+"|arguments-are-own-parameters", last.Pos(), okArgs, "the forwarded arguments differ from the received ones: "+detail)
	}
	// parameters never modified
	modified := ""
	ast.Inspect(f.Decl.Body, func(n ast.Node) bool {
		switch s := n.(type) {
		case *ast.AssignStmt:
			for _, lhs := range s.Lhs {
				root := stripParens(lhs)
				for {
					switch x := root.(type) {
					case *ast.IndexExpr:
						root = stripParens(x.X)
						continue
					case *ast.StarExpr:
						root = stripParens(x.X)
						continue
					case *ast.SliceExpr:
						root = stripParens(x.X)
						continue
					}
					break
				}
				if id, ok := root.(*ast.Ident); ok {
					if _, isParam := params[info.ObjectOf(id)]; isParam && info.ObjectOf(id) != recvObj {
						if s.Tok != token.DEFINE || info.Defs[id] == nil {
							modified = id.Name
						}
					}
				}
			}
		case *ast.IncDecStmt:
			if id, ok := stripParens(s.X).(*ast.Ident); ok {
				if _, isParam := params[info.ObjectOf(id)]; isParam {
					modified = id.Name
				}
			}
		case *ast.UnaryExpr:
			if s.Op == token.AND {
				if id, ok := stripParens(s.X).(*ast.Ident); ok {
					if _, isParam := params[info.ObjectOf(id)]; isParam && info.ObjectOf(id) != recvObj {
						modified = id.Name + " (address taken)"
					}
				}
			}
		}
		return true
	})
	r.Check("C15.args", name+"|parameters-unmodified", f.Decl.Pos(), modified == "", "parameter "+modified+" is modified before being forwarded")

	// every statement before the last: plain call statements, rejecting ifs, or listed redispatches
	for i, s := range stmts {
		if i == len(stmts)-1 && last != nil {
			break
		}
		switch s := s.(type) {
		case *ast.ExprStmt:
			if _, ok := s.X.(*ast.CallExpr); !ok {
				r.Fail("C15.redispatch", fmt.Sprintf("%s|stmt-shape", name), s.Pos(), "unexpected expression statement")
			}
		case *ast.IfStmt:
			if s.Init != nil || s.Else != nil {
				r.Fail("C15.redispatch", name+"|if-shape", s.Pos(), "conditional with init/else in an event method: shape not covered by the proof obligations")
				continue
			}
			if a.alwaysPanics(info, s.Body.List) {
				continue // validation that rejects
			}
			// must be `{ R.OnX(...); return }`
			cond := canon(info, s.Cond, params)
			okShape := false
			var callS string
			if len(s.Body.List) == 2 {
				if es, ok := s.Body.List[0].(*ast.ExprStmt); ok {
					if c, ok := es.X.(*ast.CallExpr); ok {
						callS = canon(info, c, params)
						if ret, ok := s.Body.List[1].(*ast.ReturnStmt); ok && len(ret.Results) == 0 {
							okShape = true
						}
					}
				}
			}
			want, listed := c15Redispatch[cond]
			allowed := c15RedispatchAllowed[ev][callS]
			r.Check("C15.redispatch", fmt.Sprintf("%s|%s", name, cond), s.Pos(), okShape && listed && want == callS && allowed,
				fmt.Sprintf("conditional `%s` -> `%s` is not one of the deviations the property permits (nil big number -> null, NaN -> NaN event of the same kind, each followed by return)%s", cond, callS,
					map[bool]string{true: "; expected `" + want + "`", false: ""}[listed]))
		case *ast.AssignStmt, *ast.DeclStmt:
			// local bookkeeping is fine as long as parameters are not modified (checked above)
		case *ast.ReturnStmt:
			r.Fail("C15.redispatch", name+"|early-return", s.Pos(), "unconditional return before forwarding: the accepted event is dropped")
		default:
			r.Fail("C15.redispatch", fmt.Sprintf("%s|stmt-shape", name), s.Pos(), fmt.Sprintf("statement of kind %T in an event method: shape not covered by the proof obligations", s))
		}
	}
	// redispatch completeness: the events the property names must redispatch (otherwise a nil pointer / NaN would be forwarded as a number)
	for callS := range c15RedispatchAllowed[ev] {
		found := false
		for _, s := range stmts {
			if ifs, ok := s.(*ast.IfStmt); ok && len(ifs.Body.List) >= 1 {
				if es, ok := ifs.Body.List[0].(*ast.ExprStmt); ok {
					if c, ok := es.X.(*ast.CallExpr); ok && canon(info, c, params) == callS {
						found = true
					}
				}
			}
		}
		r.Check("C15.redispatch", name+"|has "+callS, f.Decl.Pos(), found, "the redispatch "+callS+" named by the property is missing from "+ev)
	}
	_ = constant.MakeBool
}

// c15Desugar rewrites the top-level statement list of an event method into the shape the obligations are stated
// over (guards that end in return, then the straight-line tail), for the equivalent ways of writing it:
//   - `switch x { case A: S; return  case B: T; return }`  ->  `if x == A { S; return }; if x == B { T; return }`
//     (tagless switches likewise; a default clause of a switch in last position becomes the tail);
//   - a final `if c { A } else { B }`  ->  `if c { A; return }; B`;
//   - `if !c { A; return }; B` (B the rest of the method)  ->  `if c { B; return }; A`.
//
// Every rewrite preserves the set of paths and the statements executed on each.
func c15Desugar(list []ast.Stmt) []ast.Stmt {
	endsInReturn := func(b []ast.Stmt) bool {
		if len(b) == 0 {
			return false
		}
		ret, ok := b[len(b)-1].(*ast.ReturnStmt)
		return ok && len(ret.Results) == 0
	}
	withReturn := func(b []ast.Stmt) []ast.Stmt {
		if endsInReturn(b) {
			return b
		}
		return append(append([]ast.Stmt{}, b...), &ast.ReturnStmt{})
	}
	withoutReturn := func(b []ast.Stmt) []ast.Stmt {
		if endsInReturn(b) {
			return b[:len(b)-1]
		}
		return b
	}
	for round := 0; round < 8; round++ {
		changed := false
		var out []ast.Stmt
		for i := 0; i < len(list) && !changed; i++ {
			st := list[i]
			isLast := i == len(list)-1
			switch s := st.(type) {
			case *ast.SwitchStmt:
				if s.Init != nil {
					break
				}
				ok := true
				var ifs []ast.Stmt
				var deflt []ast.Stmt
				hasDefault := false
				for _, c := range s.Body.List {
					cc := c.(*ast.CaseClause)
					if cc.List == nil {
						hasDefault = true
						deflt = cc.Body
						if c != s.Body.List[len(s.Body.List)-1] {
							ok = false
						}
						continue
					}
					if len(cc.List) != 1 || (!endsInReturn(cc.Body) && !isLast) {
						ok = false
						break
					}
					for _, b := range cc.Body {
						if br, isBr := b.(*ast.BranchStmt); isBr && br.Tok == token.FALLTHROUGH {
							ok = false
						}
					}
					var cond ast.Expr = cc.List[0]
					if s.Tag != nil {
						cond = &ast.BinaryExpr{X: s.Tag, Op: token.EQL, Y: cc.List[0], OpPos: cc.Pos()}
					}
					ifs = append(ifs, &ast.IfStmt{If: cc.Pos(), Cond: cond, Body: &ast.BlockStmt{Lbrace: cc.Pos(), List: withReturn(cc.Body)}})
				}
				if !ok || (hasDefault && !isLast) {
					break
				}
				out = append(append(out, list[:i]...), ifs...)
				out = append(out, deflt...)
				out = append(out, list[i+1:]...)
				changed = true
			case *ast.IfStmt:
				if s.Init != nil {
					break
				}
				if s.Else != nil && isLast {
					var tail []ast.Stmt
					switch e := s.Else.(type) {
					case *ast.BlockStmt:
						tail = e.List
					default:
						tail = []ast.Stmt{e}
					}
					out = append(append(out, list[:i]...), &ast.IfStmt{If: s.If, Cond: s.Cond, Body: &ast.BlockStmt{Lbrace: s.Body.Lbrace, List: withReturn(s.Body.List)}})
					out = append(out, tail...)
					changed = true
					break
				}
				if u, isNot := stripParens(s.Cond).(*ast.UnaryExpr); isNot && u.Op == token.NOT && s.Else == nil && endsInReturn(s.Body.List) && !isLast {
					rest := list[i+1:]
					out = append(append(out, list[:i]...), &ast.IfStmt{If: s.If, Cond: u.X, Body: &ast.BlockStmt{Lbrace: s.Body.Lbrace, List: withReturn(rest)}})
					out = append(out, withoutReturn(s.Body.List)...)
					changed = true
				}
			}
		}
		if !changed {
			break
		}
		list = out
	}
	return list
}
