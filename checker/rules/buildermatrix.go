package rules

import (
	"go/types"
	"sort"

	"verif/checker/core"
)

// builderMatrix: effect summary of every (Builder implementation, Builder method).
type builderMatrix struct {
	types   []string
	methods []string
	cell    map[string]map[string]string
	fn      map[string]map[string]*types.Func
}

func newBuilderMatrix(p *core.Program, a *analysis) *builderMatrix {
	pkg := p.Pkg("builder")
	iface := p.LookupType("builder", "Builder")
	ctxT := p.LookupType("builder", "Context")
	if iface == nil || ctxT == nil {
		return nil
	}
	it := iface.Type().Underlying().(*types.Interface)
	m := &builderMatrix{cell: map[string]map[string]string{}, fn: map[string]map[string]*types.Func{}}
	for i := 0; i < it.NumMethods(); i++ {
		m.methods = append(m.methods, it.Method(i).Name())
	}
	sort.Strings(m.methods)
	for _, name := range pkg.Types.Scope().Names() {
		tn, ok := pkg.Types.Scope().Lookup(name).(*types.TypeName)
		if !ok || tn == iface {
			continue
		}
		nt, ok := tn.Type().(*types.Named)
		if !ok || !types.Implements(types.NewPointer(nt), it) {
			continue
		}
		m.types = append(m.types, name)
		m.cell[name] = map[string]string{}
		m.fn[name] = map[string]*types.Func{}
		for _, meth := range m.methods {
			obj, _, _ := types.LookupFieldOrMethod(types.NewPointer(nt), true, pkg.Types, meth)
			f, _ := obj.(*types.Func)
			if f == nil {
				m.cell[name][meth] = "?missing"
				continue
			}
			e := &effectCtx{a: a, p: p, ctxType: ctxT.Type().(*types.Named), selfType: nt}
			m.cell[name][meth] = e.summarize(f)
			m.fn[name][meth] = f
		}
	}
	sort.Strings(m.types)
	return m
}
