package rules

// E1: effect summaries of small dispatch methods. A method body is rendered as a sequence of
// primitive tokens: calls on a *Context argument ("ctx.BeginList()"), re-dispatches to another
// rule ("cur.OnArray", "parent.OnList"), "reject" for certain panics; helper methods of the same
// receiver type are inlined; switch/if structure is kept. Arguments are rendered through go/types
// (constants by name, &ruleVar by variable name, everything runtime-valued as "_").

import (
	"fmt"
	"go/ast"
	"go/constant"
	"go/token"
	"go/types"
	"regexp"
	"sort"
	"strings"

	"verif/checker/core"
)

type effectCtx struct {
	a        *analysis
	p        *core.Program
	depth    int
	ctxType  *types.Named              // rules.Context (calls on it are primitives)
	selfType *types.Named              // the rule type whose helpers are inlined
	params   map[types.Object]bool     // parameters/receivers of the summarised function and inlined helpers (kept by name)
	frozen   map[types.Object]string   // parameter -> the name it had on the reference tree (frozenParamNames)
	locals   map[types.Object]string   // local variables, renamed $v1,$v2,… in order of first appearance (robust to renames)
	aliases  map[types.Object]ast.Expr // v := &x.f  (pointer to a field path): uses of v render as the path
	aliasInf map[types.Object]*types.Info
	outer    *effectCtx // when inlining a helper: the caller's context (arguments are rendered there)
}

func (e *effectCtx) addParams(f *types.Func) {
	if e.params == nil {
		e.params = map[types.Object]bool{}
		e.locals = map[types.Object]string{}
	}
	sig := f.Type().(*types.Signature)
	if sig.Recv() != nil {
		e.params[sig.Recv()] = true
	}
	for i := 0; i < sig.Params().Len(); i++ {
		e.params[sig.Params().At(i)] = true
	}
	// a renamed parameter keeps the name the reference specifications use
	if names, ok := frozenParamNames[core.ObjName(f)]; ok && len(names) == 1+sig.Params().Len() {
		if e.frozen == nil {
			e.frozen = map[types.Object]string{}
		}
		if sig.Recv() != nil && names[0] != "" && names[0] != "_" {
			e.frozen[sig.Recv()] = names[0]
		}
		for i := 0; i < sig.Params().Len(); i++ {
			if names[i+1] != "" && names[i+1] != "_" {
				e.frozen[sig.Params().At(i)] = names[i+1]
			}
		}
	}
	for i := 0; i < sig.Results().Len(); i++ {
		e.params[sig.Results().At(i)] = true
	}
}

func (e *effectCtx) varName(o *types.Var) string {
	if n, ok := e.frozen[o]; ok {
		return "$" + n
	}
	if e.params == nil || e.params[o] {
		return "$" + o.Name()
	}
	if n, ok := e.locals[o]; ok {
		return n
	}
	n := fmt.Sprintf("$v%d", len(e.locals)+1)
	e.locals[o] = n
	return n
}

// summarize renders the effect of a function body.
func (e *effectCtx) summarize(f *types.Func) string {
	d := e.p.FuncDecl(f)
	if d == nil || d.Body == nil {
		return "?nobody"
	}
	info := e.p.Pkgs[core.Rel(f.Pkg())].TypesInfo
	e.addParams(f)
	toks := e.stmts(info, d.Body.List)
	if len(toks) == 0 {
		return "nop"
	}
	return strings.Join(toks, "; ")
}

func (e *effectCtx) stmts(info *types.Info, list []ast.Stmt) []string {
	var out []string
	for _, s := range list {
		out = append(out, e.stmt(info, s)...)
		if len(out) > 0 && out[len(out)-1] == "reject" {
			break
		}
	}
	return out
}

func (e *effectCtx) stmt(info *types.Info, s ast.Stmt) []string {
	switch s := s.(type) {
	case *ast.ExprStmt:
		if call, ok := s.X.(*ast.CallExpr); ok {
			return e.call(info, call)
		}
		return []string{"?expr"}
	case *ast.BlockStmt:
		return e.stmts(info, s.List)
	case *ast.ReturnStmt:
		var out []string
		for _, r := range s.Results {
			if call, ok := r.(*ast.CallExpr); ok {
				out = append(out, e.call(info, call)...)
			}
		}
		return append(out, "return")
	case *ast.IncDecStmt:
		return []string{s.Tok.String() + "(" + e.argStr(info, s.X) + ")"}
	case *ast.AssignStmt:
		// v := &path.to.field  — an alias, not a value: uses of v are rendered as the path
		if s.Tok == token.DEFINE && len(s.Lhs) == 1 && len(s.Rhs) == 1 {
			if u, ok := stripParens(s.Rhs[0]).(*ast.UnaryExpr); ok && u.Op == token.AND {
				if id, ok := s.Lhs[0].(*ast.Ident); ok && fieldOf(info, u.X) != nil {
					if o := info.ObjectOf(id); o != nil {
						if e.aliases == nil {
							e.aliases = map[types.Object]ast.Expr{}
							e.aliasInf = map[types.Object]*types.Info{}
						}
						e.aliases[o] = u.X
						e.aliasInf[o] = info
						return nil
					}
				}
			}
		}
		// complete rendering: every assignment appears with its targets and sources
		var ls, rs []string
		kind := "let"
		if s.Tok == token.DEFINE {
			kind = "def"
		}
		for _, l := range s.Lhs {
			l = stripParens(l)
			if id, ok := l.(*ast.Ident); ok && id.Name == "_" {
				ls = append(ls, "_")
				continue
			}
			if fieldOf(info, l) != nil {
				kind = "set"
			} else if ix, ok := l.(*ast.IndexExpr); ok && fieldOf(info, ix.X) != nil {
				kind = "set"
			}
			ls = append(ls, e.argStr(info, l))
		}
		for _, r := range s.Rhs {
			rs = append(rs, e.argStr(info, r))
		}
		tok := s.Tok.String()
		if s.Tok == token.DEFINE {
			tok = "="
		}
		return []string{kind + "(" + strings.Join(ls, ",") + tok + strings.Join(rs, ",") + ")"}
	case *ast.IfStmt:
		var out []string
		if s.Init != nil {
			out = append(out, e.stmt(info, s.Init)...)
		}
		cond := e.condStr(info, s.Cond)
		thenT := strings.Join(e.stmts(info, s.Body.List), "; ")
		str := "if(" + cond + "){" + thenT + "}"
		if s.Else != nil {
			str += "else{" + strings.Join(e.stmt(info, s.Else), "; ") + "}"
		}
		return append(out, str)
	case *ast.SwitchStmt:
		var parts []string
		for _, c := range switchTable(info, s) {
			var names []string
			for _, ex := range c.Exprs {
				names = append(names, e.argStr(info, ex))
			}
			sort.Strings(names)
			label := strings.Join(names, ",")
			if c.Default {
				label = "default"
			}
			body := strings.Join(e.stmts(info, c.Body), "; ")
			if body == "" {
				body = "nop"
			}
			parts = append(parts, label+":"+body)
		}
		tag := ""
		if s.Tag != nil {
			tag = e.argStr(info, s.Tag)
		}
		return []string{"switch(" + tag + "){" + strings.Join(parts, " | ") + "}"}
	case *ast.DeclStmt, *ast.EmptyStmt:
		return nil
	case *ast.ForStmt:
		init, cond, post := "", "", ""
		if s.Init != nil {
			init = strings.Join(e.stmt(info, s.Init), "; ")
		}
		if s.Cond != nil {
			cond = e.condStr(info, s.Cond)
		}
		if s.Post != nil {
			post = strings.Join(e.stmt(info, s.Post), "; ")
		}
		return []string{"for(" + init + ";" + cond + ";" + post + "){" + strings.Join(e.stmts(info, s.Body.List), "; ") + "}"}
	case *ast.RangeStmt:
		k, v := "_", "_"
		if s.Key != nil {
			k = e.argStr(info, s.Key)
		}
		if s.Value != nil {
			v = e.argStr(info, s.Value)
		}
		return []string{"range(" + k + "," + v + ":" + e.argStr(info, s.X) + "){" + strings.Join(e.stmts(info, s.Body.List), "; ") + "}"}
	case *ast.BranchStmt:
		return []string{s.Tok.String()}
	}
	return []string{"?stmt"}
}

func (e *effectCtx) condStr(info *types.Info, c ast.Expr) string {
	switch c := stripParens(c).(type) {
	case *ast.BinaryExpr:
		return e.condStr(info, c.X) + c.Op.String() + e.condStr(info, c.Y)
	case *ast.UnaryExpr:
		return c.Op.String() + e.condStr(info, c.X)
	case *ast.CallExpr:
		toks := e.call(info, c)
		return strings.Join(toks, ";")
	}
	return e.argStr(info, c)
}

// argStr renders an argument: constants by name or value, &var by name, fields by path, else "_".
func (e *effectCtx) argStr(info *types.Info, x ast.Expr) string {
	x = stripParens(x)
	switch v := x.(type) {
	case *ast.UnaryExpr:
		if v.Op.String() == "&" {
			if obj := objOf(info, v.X); obj != nil {
				if _, ok := obj.(*types.Var); ok && obj.Parent() == obj.Pkg().Scope() {
					return obj.Name()
				}
			}
		}
		if v.Op.String() == "!" {
			return "!" + e.argStr(info, v.X)
		}
	case *ast.Ident:
		obj := info.ObjectOf(v)
		switch o := obj.(type) {
		case *types.Const:
			return o.Name()
		case *types.Nil:
			return "nil"
		case *types.Var:
			if o.Pkg() != nil && o.Parent() == o.Pkg().Scope() {
				return o.Name()
			}
			if ax, ok := e.aliases[o]; ok {
				if e.outer != nil && e.params[o] == false {
					if _, isParamAlias := e.outerParam(o); isParamAlias {
						return e.outer.argStr(e.aliasInf[o], ax)
					}
				}
				return e.argStr(e.aliasInf[o], ax)
			}
			return e.varName(o)
		}
	case *ast.SelectorExpr:
		if obj, ok := info.ObjectOf(v.Sel).(*types.Const); ok {
			return obj.Name()
		}
		if obj, ok := info.ObjectOf(v.Sel).(*types.Var); ok && !obj.IsField() && obj.Pkg() != nil && obj.Parent() == obj.Pkg().Scope() {
			return obj.Pkg().Name() + "." + obj.Name()
		}
		if fld := fieldOf(info, v); fld != nil {
			return e.argStr(info, v.X) + "." + fld.Name()
		}
	case *ast.BasicLit:
		if tv, ok := info.Types[v]; ok && tv.Value != nil {
			if tv.Value.Kind() == constant.String {
				return "_s" // message/description strings carry no semantics
			}
			return tv.Value.ExactString()
		}
	case *ast.CallExpr:
		if tv, ok := info.Types[v.Fun]; ok && tv.IsType() && len(v.Args) == 1 {
			if at := info.TypeOf(v.Args[0]); at != nil && types.Identical(at, tv.Type) {
				return e.argStr(info, v.Args[0]) // conversion to the same type: a no-op
			}
			return types.ExprString(v.Fun) + "(" + e.argStr(info, v.Args[0]) + ")"
		}
		toks := e.call(info, v)
		return strings.Join(toks, ";")
	case *ast.IndexExpr:
		return e.argStr(info, v.X) + "[" + e.argStr(info, v.Index) + "]"
	case *ast.BinaryExpr:
		if tv, ok := info.Types[x]; ok && tv.Value != nil {
			return tv.Value.ExactString()
		}
		return e.argStr(info, v.X) + v.Op.String() + e.argStr(info, v.Y)
	case *ast.SliceExpr:
		lo, hi := "", ""
		if v.Low != nil {
			lo = e.argStr(info, v.Low)
		}
		if v.High != nil {
			hi = e.argStr(info, v.High)
		}
		return e.argStr(info, v.X) + "[" + lo + ":" + hi + "]"
	}
	if tv, ok := info.Types[x]; ok && tv.Value != nil {
		return tv.Value.ExactString()
	}
	return "_"
}

func (e *effectCtx) call(info *types.Info, call *ast.CallExpr) []string {
	if e.a.callPanics(info, call) {
		return []string{"reject"}
	}
	cal := callee(info, call)
	var args []string
	for _, a := range call.Args {
		args = append(args, e.argStr(info, a))
	}
	argS := "(" + strings.Join(args, ",") + ")"
	if cal == nil {
		// builtin / conversion / func value
		if id, ok := call.Fun.(*ast.Ident); ok {
			if _, ok := info.Uses[id].(*types.Builtin); ok {
				return []string{"?pure:" + id.Name + argS}
			}
		}
		if sel, ok := call.Fun.(*ast.SelectorExpr); ok {
			if fld := fieldOf(info, sel); fld != nil {
				return []string{"callfield:" + fld.Name() + argS}
			}
		}
		if tv, ok := info.Types[call.Fun]; ok && tv.IsType() {
			return []string{"?pure:conv" + argS}
		}
		return []string{"?call"}
	}
	rn := recvNamed(cal)
	sel, _ := call.Fun.(*ast.SelectorExpr)
	if rn != nil && e.ctxType != nil && rn.Obj() == e.ctxType.Obj() {
		// an unexported Context method that the reference vocabulary does not know is a helper somebody extracted: inline it
		if !cal.Exported() && !ctxVocabulary()[cal.Name()] && e.depth < 4 {
			if d := e.p.FuncDecl(cal); d != nil && d.Body != nil {
				if toks, ok := e.inlineHelper(cal, d, info, call); ok {
					return toks
				}
			}
		}
		return []string{"ctx." + cal.Name() + argS}
	}
	// dispatch through the EventRule interface
	if rt := recvType(cal); rt != nil {
		if _, isIface := rt.Underlying().(*types.Interface); isIface && sel != nil {
			base := stripParens(sel.X)
			switch b := base.(type) {
			case *ast.SelectorExpr:
				if fld := fieldOf(info, b); fld != nil && fld.Name() == "Rule" {
					return []string{"cur." + cal.Name() + argS}
				}
			case *ast.CallExpr:
				if c2 := callee(info, b); c2 != nil && c2.Name() == "ParentRule" {
					return []string{"parent." + cal.Name() + argS}
				}
			}
			return []string{"iface." + cal.Name() + argS}
		}
	}
	// helper on the same rule type: inline
	if rn != nil && e.selfType != nil && rn.Obj() == e.selfType.Obj() && e.depth < 4 {
		e.depth++
		defer func() { e.depth-- }()
		d := e.p.FuncDecl(cal)
		if d != nil && d.Body != nil {
			// with the arguments substituted for the helper's parameters where that is possible …
			if toks, ok := e.inlineHelper(cal, d, info, call); ok {
				return toks
			}
			// … otherwise under the helper's own parameter names
			e.addParams(cal)
			return e.stmts(e.p.Pkgs[core.Rel(cal.Pkg())].TypesInfo, d.Body.List)
		}
	}
	if core.InModule(cal) {
		// an unexported package-level function of the validator package that takes the context is an extracted helper
		if rn == nil && !cal.Exported() && e.ctxType != nil && cal.Pkg() == e.ctxType.Obj().Pkg() && e.depth < 4 {
			if d := e.p.FuncDecl(cal); d != nil && d.Body != nil {
				takesCtx := false
				sig := cal.Type().(*types.Signature)
				for i := 0; i < sig.Params().Len(); i++ {
					if nt := namedOf(sig.Params().At(i).Type()); nt != nil && nt.Obj() == e.ctxType.Obj() {
						takesCtx = true
					}
				}
				if takesCtx {
					if toks, ok := e.inlineHelper(cal, d, info, call); ok {
						return toks
					}
				}
			}
		}
		return []string{core.ObjName(cal) + argS}
	}
	return []string{"ext:" + cal.Pkg().Name() + "." + cal.Name()}
}

// inlineHelper renders the body of a small helper in place of the call: parameters are replaced by the renderings of
// the call's arguments (only when each argument is a plain path/constant/parameter, so evaluation order cannot matter),
// the receiver by the caller's context. ok=false: not inlinable (the call is rendered as is).
func (e *effectCtx) inlineHelper(cal *types.Func, d *ast.FuncDecl, info *types.Info, call *ast.CallExpr) ([]string, bool) {
	sig := cal.Type().(*types.Signature)
	if sig.Variadic() || sig.Params().Len() != len(call.Args) {
		return nil, false
	}
	hinfo := e.p.Pkgs[core.Rel(cal.Pkg())].TypesInfo
	sub := &effectCtx{a: e.a, p: e.p, depth: e.depth + 1, ctxType: e.ctxType, selfType: e.selfType, params: map[types.Object]bool{}, locals: e.locals,
		aliases: map[types.Object]ast.Expr{}, aliasInf: map[types.Object]*types.Info{}}
	for k, v := range e.params {
		sub.params[k] = v
	}
	for k, v := range e.aliases {
		sub.aliases[k] = v
		sub.aliasInf[k] = e.aliasInf[k]
	}
	if e.locals == nil {
		e.locals = map[types.Object]string{}
		sub.locals = e.locals
	}
	// receiver: the helper's receiver is the same context object as the caller's
	if sig.Recv() != nil {
		if selx, ok := call.Fun.(*ast.SelectorExpr); ok {
			sub.aliases[sig.Recv()] = selx.X
			sub.aliasInf[sig.Recv()] = info
		}
	}
	for i := 0; i < sig.Params().Len(); i++ {
		sub.aliases[sig.Params().At(i)] = call.Args[i]
		sub.aliasInf[sig.Params().At(i)] = info
	}
	// argument renderings must come from the CALLER's naming context
	sub.outer = e
	toks := sub.stmts(hinfo, d.Body.List)
	// a helper that returns a value cannot be spliced in as statements
	if sig.Results().Len() > 0 {
		return nil, false
	}
	// drop a trailing bare return of the helper
	if len(toks) > 0 && toks[len(toks)-1] == "return" {
		toks = toks[:len(toks)-1]
	}
	for _, t := range toks {
		if strings.Contains(t, "return") {
			return nil, false // early returns inside the helper do not translate to the caller
		}
	}
	return toks, true
}

var ctxVocab map[string]bool

// ctxVocabulary: Context method names the reference specifications speak about (spec keys and every ctx.X( mentioned in a spec).
func ctxVocabulary() map[string]bool {
	if ctxVocab != nil {
		return ctxVocab
	}
	v := map[string]bool{}
	scan := func(str string) {
		for _, m := range regexp.MustCompile(`ctx\.([A-Za-z_][A-Za-z0-9_]*)\(`).FindAllStringSubmatch(str, -1) {
			v[m[1]] = true
		}
	}
	for k, alts := range contextSpec {
		v[k] = true
		for _, a := range alts {
			scan(a)
		}
	}
	for _, cells := range c10Spec() {
		for _, alts := range cells {
			for _, a := range alts {
				scan(a)
			}
		}
	}
	for _, n := range extraCtxVocabulary {
		v[n] = true
	}
	ctxVocab = v
	return v
}

// Context methods named by rules outside the spec tables (kept as primitives).
var extraCtxVocabulary = []string{"areRecordTypesAllowed", "stackRule", "hasExpectedObjectCount", "NotifyKey", "MarkObject", "EndDocument", "Reset", "Init"}

func (e *effectCtx) outerParam(o types.Object) (ast.Expr, bool) {
	v, ok := o.(*types.Var)
	if !ok {
		return nil, false
	}
	// parameters and receivers of the inlined helper are aliases created by inlineHelper
	if v.IsField() {
		return nil, false
	}
	ax, ok := e.aliases[o]
	return ax, ok && e.outer != nil && e.outer.aliases[o] == nil
}
