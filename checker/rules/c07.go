package rules

import (
	"fmt"
	"go/ast"
	"go/token"
	"go/types"
	"strings"

	"verif/checker/core"
)

func init() { Registry["C07"] = checkC07 }

func checkC07(r *core.Run, p *core.Program) {
	r.Rule("C07.recover", "every error-returning public entry point of ce, cbe and cte (Marshal*, Unmarshal*, Decode*) either installs, as its first statement, a deferred closure that recovers and stores every non-nil recovered value in its named error result (both accepted forms of the PassThroughPanics guard), or only delegates to such entry points, constructors that cannot reach a panic, and stdlib helpers; no explicit panic, unguarded index of an argument or call through a function value runs outside a recover frame.")
	r.Rule("C07.waitgroup", "every sync.WaitGroup.Add is released on all exits: Done is reached on the normal path and, because the code in between can panic (type generation for unsupported types), a deferred closure releases the wait group and removes or replaces the placeholder stored in the shared cache on the failure path; otherwise the next caller blocks forever in Wait.")
	r.Rule("C07.progress", "the loop that unwinds the builder stack after a decoding error makes progress on every iteration: either it checks the stack depth after calling the top builder's terminator and discards the builder when nothing was removed, or every terminator implementation shrinks the stack.")
	r.Rule("C07.alloc", "no allocation or buffer growth in the CBE reader is sized by an untrusted length that has not been bounded by a constant of at most 1 MiB, by a configured limit, or by having been submitted to the event receiver (where the validator bounds it by the configured array size) — see C08.taint.")
	r.Rule("C07.recursion", "recursion whose depth is driven by the input or by the marshaled value is bounded by a depth counter compared with a limit, or by cycle detection.")
	r.NotDecide("absence of runtime panics inside protected frames (they are converted to errors); termination of third-party loops (ANTLR runtime, compact-time); real stack or heap exhaustion")
	r.Assume("default configuration: Debug.PassThroughPanics is false (when set, panics are deliberately passed through)")
	a := newAnalysis(p)
	m := newBoundaryModel(p, a)

	eps := entryPoints(p)
	for _, f := range eps {
		status, reason := m.classify(f)
		r.Check("C07.recover", f.Name(), f.Decl.Pos(), status != "", "entry point is neither protected by a recover frame nor a pure delegation: "+reason)
		if status == "delegating" {
			// index expressions on arguments need an emptiness guard (a panic here escapes)
			info := f.Pkg.TypesInfo
			ast.Inspect(f.Decl.Body, func(n ast.Node) bool {
				ix, ok := n.(*ast.IndexExpr)
				if !ok {
					return true
				}
				base := objOf(info, stripParens(ix.X))
				if base == nil {
					return true
				}
				if _, isSlice := info.TypeOf(ix.X).Underlying().(*types.Slice); !isSlice {
					return true
				}
				guarded := false
				ast.Inspect(f.Decl.Body, func(m2 ast.Node) bool {
					ifs, ok := m2.(*ast.IfStmt)
					if !ok || ifs.Pos() > ix.Pos() {
						return true
					}
					if branchLeaves(a, info, ifs.Body.List) && !(ifs.Body.Pos() <= ix.Pos() && ix.Pos() < ifs.Body.End()) {
						if condTestsEmpty(info, ifs.Cond, base) {
							guarded = true
						}
						// slice obtained together with an error that is checked (Peek)
						ast.Inspect(f.Decl.Body, func(k ast.Node) bool {
							as, ok := k.(*ast.AssignStmt)
							if ok && len(as.Lhs) == 2 && objOf(info, as.Lhs[0]) == base {
								if eo := objOf(info, as.Lhs[1]); eo != nil && mentionsObj(info, ifs.Cond, eo) {
									guarded = true
								}
							}
							return true
						})
					}
					return true
				})
				r.Check("C07.recover", f.Name()+"|index "+exprStr(ix), ix.Pos(), guarded, "unguarded index "+exprStr(ix)+" outside any recover frame: an empty input panics out of the entry point")
				return true
			})
		}
	}
	r.Floor("C07.recover", "entry points", len(eps), 24)

	// cte.ParseDocument: event-level helper, must only be called from protected entry points
	if pd := p.LookupFunc("cte", "ParseDocument"); pd != nil {
		for _, pkg := range p.Pkgs {
			for _, f := range funcsOf(pkg) {
				inspectCalls(pkg.TypesInfo, f.Decl.Body, func(call *ast.CallExpr, cal *types.Func) {
					if cal != pd {
						return
					}
					s, _ := "", ""
					if g, ok := m.eps[f.Obj]; ok {
						s, _ = m.classify(g)
					}
					r.Check("C07.recover", f.Name()+"|calls ParseDocument", call.Pos(), s == "protected", "ParseDocument lets listener panics escape and is called from a function without a recover frame")
				})
			}
		}
	}

	checkWaitGroups(r, p, a, "C07.waitgroup")
	checkTerminateProgress(r, p, a)
	checkTaint(r, p, a, "C07.alloc")
	checkRecursionBounds(r, p, a)
	checkRefTrackerKinds(r, p, "C07.recursion")
}

// checkWaitGroups is shared with C16.cache-failure and C17.session.
func checkWaitGroups(r *core.Run, p *core.Program, a *analysis, rule string) {
	n := 0
	for _, pkg := range p.Pkgs {
		info := pkg.TypesInfo
		for _, f := range funcsOf(pkg) {
			var addCall *ast.CallExpr
			var wgObj types.Object
			inspectCalls(info, f.Decl.Body, func(call *ast.CallExpr, cal *types.Func) {
				if cal != nil && cal.Name() == "Add" && typeIs(recvType(cal), "sync", "WaitGroup") {
					addCall = call
					if sel, ok := call.Fun.(*ast.SelectorExpr); ok {
						wgObj = objOf(info, sel.X)
					}
				}
			})
			if addCall == nil {
				continue
			}
			n++
			isDone := func(call *ast.CallExpr) bool {
				cal := callee(info, call)
				if cal == nil || cal.Name() != "Done" || !typeIs(recvType(cal), "sync", "WaitGroup") {
					return false
				}
				sel, ok := call.Fun.(*ast.SelectorExpr)
				return ok && objOf(info, sel.X) == wgObj
			}
			// normal-path Done
			normalDone := token.NoPos
			deferredDone, deferredFixesCache := false, false
			ast.Inspect(f.Decl.Body, func(nd ast.Node) bool {
				switch s := nd.(type) {
				case *ast.DeferStmt:
					if isDone(s.Call) {
						deferredDone = true
						deferredFixesCache = true // Done deferred unconditionally: waiters are always released
						return false
					}
					if lit, ok := s.Call.Fun.(*ast.FuncLit); ok {
						// the failure handling may live in a helper that is handed &wg: follow it
						var scan func(body ast.Node, wg types.Object, depth int)
						scan = func(body ast.Node, wg types.Object, depth int) {
							inspectCalls(info, body, func(c *ast.CallExpr, cal *types.Func) {
								if cal == nil {
									return
								}
								if cal.Name() == "Done" && typeIs(recvType(cal), "sync", "WaitGroup") {
									if sel, ok := c.Fun.(*ast.SelectorExpr); ok && objOf(info, stripAddr(sel.X)) == wg {
										deferredDone = true
									}
								}
								if typeIs(recvType(cal), "sync", "Map") && (cal.Name() == "Delete" || cal.Name() == "Store") {
									deferredFixesCache = true
								}
								if depth < 2 && cal.Pkg() == f.Pkg.Types {
									if hd := p.FuncDecl(cal); hd != nil && hd.Body != nil {
										sig := cal.Type().(*types.Signature)
										for i, arg := range c.Args {
											if i < sig.Params().Len() && objOf(info, stripAddr(arg)) == wg {
												scan(hd.Body, sig.Params().At(i), depth+1)
											}
										}
									}
								}
							})
						}
						scan(lit.Body, wgObj, 0)
					}
					return false
				case *ast.CallExpr:
					if isDone(s) {
						normalDone = s.Pos()
					}
				case *ast.FuncLit:
					return false
				}
				return true
			})
			// can anything between Add and Done panic? (any call into module code)
			mayPanic := ""
			if normalDone.IsValid() {
				ast.Inspect(f.Decl.Body, func(nd ast.Node) bool {
					if _, isLit := nd.(*ast.FuncLit); isLit {
						return false
					}
					call, ok := nd.(*ast.CallExpr)
					if !ok || call.Pos() <= addCall.Pos() || call.Pos() >= normalDone {
						return true
					}
					if cal := callee(info, call); cal != nil && core.InModule(cal) {
						mayPanic = core.ObjName(cal)
					}
					return true
				})
			}
			key := f.Name() + "|WaitGroup released on all exits"
			switch {
			case !normalDone.IsValid() && !deferredDone:
				r.Fail(rule, key, addCall.Pos(), "WaitGroup.Add is never followed by Done: every waiter blocks forever")
			case mayPanic != "" && !deferredDone:
				r.Fail(rule, key, addCall.Pos(), "between Add and Done the call to "+mayPanic+" can panic (e.g. unsupported type) and no deferred closure calls Done: the placeholder stays in the cache and the next caller blocks forever in Wait")
			case mayPanic != "" && !deferredFixesCache:
				r.Fail(rule, key, addCall.Pos(), "the failure path releases the wait group but leaves the placeholder in the shared cache: a failed first use poisons later uses")
			default:
				r.Pass(rule, key, addCall.Pos(), "")
			}
		}
	}
	r.Floor(rule, "WaitGroup.Add sites", n, 2)
}

func checkTerminateProgress(r *core.Run, p *core.Program, a *analysis) {
	f := findFn(p, "builder", "Context.ArtificiallyTerminate")
	if f == nil {
		r.Undecided("C07.progress", "builder.Context.ArtificiallyTerminate")
		return
	}
	info := f.Pkg.TypesInfo
	var loop *ast.ForStmt
	ast.Inspect(f.Decl.Body, func(n ast.Node) bool {
		if fs, ok := n.(*ast.ForStmt); ok && loop == nil {
			loop = fs
		}
		return true
	})
	if loop == nil {
		r.Pass("C07.progress", "builder.Context.ArtificiallyTerminate|no-loop", f.Decl.Pos(), "")
		return
	}
	// (b) in-loop progress guard: the loop remembers the stack depth, runs the terminator and unstacks the
	// current builder itself when the depth did not go down (compared after canonicalisation, so an inverted
	// test with `continue`, renamed locals or an else-less early exit read the same)
	guard := false
	if ctxT := p.LookupType("builder", "Context"); ctxT != nil {
		e := &effectCtx{a: a, p: p, ctxType: ctxT.Type().(*types.Named)}
		got := e.summarize(f.Obj)
		for _, want := range []string{
			"for(;?pure:len($_this.builderStack)>1;){def($v1=?pure:len($_this.builderStack)); iface.BuildArtificiallyEndContainer($_this); if(?pure:len($_this.builderStack)>=$v1){ctx.UnstackBuilder()}}",
			"for(;?pure:len($_this.builderStack)>1;){def($v1=?pure:len($_this.builderStack)); iface.BuildArtificiallyEndContainer($_this); if(?pure:len($_this.builderStack)==$v1){ctx.UnstackBuilder()}}",
		} {
			if sameEffect(got, []string{want}) {
				guard = true
			}
		}
	}
	_ = info
	if guard {
		r.Pass("C07.progress", "builder.Context.ArtificiallyTerminate|progress-guard", loop.Pos(), "")
		return
	}
	// (a) every terminator shrinks the stack
	iface := p.LookupType("builder", "Builder")
	it := iface.Type().Underlying().(*types.Interface)
	pkg := p.Pkg("builder")
	shrinks := func(g *types.Func) bool { return strings.HasPrefix(g.Name(), "Unstack") || g.Name() == "EndRecordType" }
	var stuck []string
	for _, name := range pkg.Types.Scope().Names() {
		tn, ok := pkg.Types.Scope().Lookup(name).(*types.TypeName)
		if !ok {
			continue
		}
		nt, ok := tn.Type().(*types.Named)
		if !ok || !types.Implements(types.NewPointer(nt), it) {
			continue
		}
		obj, _, _ := types.LookupFieldOrMethod(types.NewPointer(nt), true, pkg.Types, "BuildArtificiallyEndContainer")
		g, _ := obj.(*types.Func)
		if g == nil || !a.reaches(g, shrinks) {
			stuck = append(stuck, name)
		}
	}
	r.Check("C07.progress", "builder.Context.ArtificiallyTerminate|progress-guard", loop.Pos(), len(stuck) == 0,
		fmt.Sprintf("the unwinding loop `for len(builderStack) > 1` has no progress guard and the terminators of %d builder types (%s…) never remove anything from the stack: a decoding error while such a builder is on the stack spins forever", len(stuck), strings.Join(firstN(stuck, 4), ", ")))
}

func firstN(s []string, n int) []string {
	if len(s) > n {
		return s[:n]
	}
	return s
}

// checkRecursionBounds: value-/input-driven recursion must be bounded.
func checkRecursionBounds(r *core.Run, p *core.Program, a *analysis) {
	pkg := p.Pkg("iterator")
	info := pkg.TypesInfo
	// iterator closures that descend through a pointer without consulting the reference tracker or a depth counter
	n := 0
	for _, f := range funcsOf(pkg) {
		ast.Inspect(f.Decl.Body, func(nd ast.Node) bool {
			lit, ok := nd.(*ast.FuncLit)
			if !ok {
				return true
			}
			descends := false
			ast.Inspect(lit.Body, func(k ast.Node) bool {
				if c, ok := k.(*ast.CallExpr); ok {
					for _, arg := range c.Args {
						if ac, ok := arg.(*ast.CallExpr); ok {
							if cal := callee(info, ac); cal != nil && cal.Name() == "Elem" && typeIs(recvType(cal), "reflect", "Value") {
								descends = true
							}
						}
					}
				}
				return true
			})
			if !descends {
				return true
			}
			n++
			// bounded when recursion support is unconditional or a depth counter exists
			bounded := false
			ast.Inspect(lit.Body, func(k ast.Node) bool {
				if ifs, ok := k.(*ast.IfStmt); ok {
					s := exprStr(ifs.Cond)
					if strings.Contains(strings.ToLower(s), "depth") {
						bounded = true
					}
				}
				return true
			})
			// TryAddLocalReference bounds cycles only when RecursionSupport is on
			if !bounded {
				if af := findFn(p, "iterator", "RootObjectIterator.addLocalReference"); af != nil {
					uncond := true
					ast.Inspect(af.Decl.Body, func(k ast.Node) bool {
						if ifs, ok := k.(*ast.IfStmt); ok && strings.Contains(exprStr(ifs.Cond), "RecursionSupport") {
							uncond = false
						}
						return true
					})
					bounded = uncond
				}
			}
			r.Check("C07.recursion", f.Name()+"|pointer descent bounded", lit.Pos(), bounded,
				"this iterator follows a pointer recursively; cycle detection is active only when Iterator.RecursionSupport is on (default off) and there is no depth bound: marshaling a cyclic value with the default configuration overflows the stack (fatal, not recoverable)")
			return true
		})
	}
	r.Floor("C07.recursion", "pointer-descending iterator closures", n, 1)
}

// refTrackerKinds: which reflect kinds the marshal-side reference tracker (addLocalReference) handles.
// Returns (allowed set or nil when unrestricted, excluded set).
func refTrackerKinds(p *core.Program) (allowed map[string]bool, excluded map[string]bool, f *fn) {
	f = findFn(p, "iterator", "RootObjectIterator.addLocalReference")
	if f == nil {
		return nil, nil, nil
	}
	info := f.Pkg.TypesInfo
	excluded = map[string]bool{}
	isKindCall := func(e ast.Expr) bool {
		c, ok := stripParens(e).(*ast.CallExpr)
		if !ok {
			return false
		}
		cal := callee(info, c)
		return cal != nil && cal.Name() == "Kind" && typeIs(recvType(cal), "reflect", "Value")
	}
	returnsFalse := func(body []ast.Stmt) bool {
		for _, s := range body {
			if ret, ok := s.(*ast.ReturnStmt); ok && len(ret.Results) == 1 {
				if v := constVal(info, ret.Results[0]); v != nil && v.ExactString() == "false" {
					return true
				}
			}
		}
		return false
	}
	kindName := func(e ast.Expr) string {
		if c, ok := objOf(info, e).(*types.Const); ok && c.Pkg() != nil && c.Pkg().Path() == "reflect" {
			return c.Name()
		}
		return ""
	}
	ast.Inspect(f.Decl.Body, func(n ast.Node) bool {
		switch s := n.(type) {
		case *ast.SwitchStmt:
			if s.Tag == nil || !isKindCall(s.Tag) {
				return true
			}
			defaultRejects := false
			var keep []string
			for _, c := range s.Body.List {
				cc := c.(*ast.CaseClause)
				if cc.List == nil {
					defaultRejects = returnsFalse(cc.Body)
					continue
				}
				for _, e := range cc.List {
					if returnsFalse(cc.Body) {
						excluded[kindName(e)] = true
					} else {
						keep = append(keep, kindName(e))
					}
				}
			}
			if defaultRejects {
				allowed = map[string]bool{}
				for _, k := range keep {
					allowed[k] = true
				}
			}
		case *ast.IfStmt:
			if be, ok := stripParens(s.Cond).(*ast.BinaryExpr); ok && isKindCall(be.X) && returnsFalse(s.Body.List) {
				if be.Op == token.EQL {
					excluded[kindName(be.Y)] = true
				}
				if be.Op == token.NEQ {
					allowed = map[string]bool{kindName(be.Y): true}
				}
			}
		}
		return true
	})
	return allowed, excluded, f
}

// checkRefTrackerKinds: cycle detection must cover every kind through which a value can reach itself.
func checkRefTrackerKinds(r *core.Run, p *core.Program, rule string) {
	allowed, excluded, f := refTrackerKinds(p)
	if f == nil {
		r.Undecided(rule, "iterator.RootObjectIterator.addLocalReference")
		return
	}
	missing := []string{}
	for _, k := range []string{"Ptr", "Slice", "Map"} {
		alt := k
		if k == "Ptr" {
			alt = "Pointer"
		}
		if excluded[k] || excluded[alt] || (allowed != nil && !allowed[k] && !allowed[alt]) {
			missing = append(missing, k)
		}
	}
	r.Check(rule, "iterator.RootObjectIterator.addLocalReference|tracks pointers, slices and maps", f.Decl.Pos(), len(missing) == 0,
		"the reference tracker ignores values of kind "+strings.Join(missing, ", ")+": a value that reaches itself through such a kind is iterated without bound (fatal stack overflow) even with recursion support enabled, and shared substructures of that kind are duplicated instead of referenced")
}
