package rules

import (
	"fmt"
	"go/ast"
	"go/constant"
	"go/token"
	"go/types"
	"strings"

	"verif/checker/core"
)

func init() { Registry["C21"] = checkC21 }

func checkC21(r *core.Run, p *core.Program) {
	r.Rule("C21.omit-table", "shouldIncludeField decides, for every FieldOmitBehavior constant: always -> leave out, never -> keep, empty -> keep unless isValueEmpty, zero -> keep unless isValueZero, and the `choose default` value is replaced by the configured default before the decision; isValueZero also covers every value isValueEmpty covers; DecodeGoTags maps each documented tag word (omit, omit_empty, omit_zero, omit_never) to the matching constant, name= to the name and order= to the order.")
	r.Rule("C21.stable-order", "fields are ordered with a stable sort on the tag order using `<` (declaration order is kept among equal orders).")
	r.Rule("C21.index-path", "the index path stored for a field is a fresh copy: no function that walks struct fields recursively stores `append(pathParameter, i)` (a slice that shares the caller's backing array, so sibling fields of a deeply embedded struct overwrite each other's path).")
	r.Rule("C21.shared-names", "the marshaling and the unmarshaling side both take a field's name from common.DecodeGoTags; the unmarshaling side registers each field under its tag name and under ToStructFieldIdentifier(name), normalises a document key with the same ToStructFieldIdentifier when (and only when) case-insensitive matching is on, and with matching off accepts a key only if it equals the field's tag name.")
	r.Rule("C21.unknown-key", "a key that matches no field stacks the ignore builder and leaves the key/value state unchanged; the ignore builder unstacks itself exactly once for a scalar value or reference, hands containers to the container-ignoring builder and unstacks when that child finishes; the container-ignoring builder swallows every value event, stacks itself for nested containers and unstacks (notifying its parent) at the end event.")
	r.NotDecide("the name strings produced by the regular-expression based snake-casing; which values reflect reports as zero/empty; matching under every configuration combination at run time")

	a := newAnalysis(p)
	it := p.Pkg("iterator")
	info := it.TypesInfo

	// ---- omit table -------------------------------------------------------------------------------------
	if f := omitPredicate(p); f == nil {
		r.Undecided("C21.omit-table", "iterator.shouldIncludeField")
	} else {
		cases, tagObj, firstIdx := omitCases(info, f.Decl.Body.List)
		if len(cases) == 0 || tagObj == nil {
			r.Fail("C21.omit-table", "iterator.shouldIncludeField|switch over the omit behaviour", f.Decl.Pos(), "no switch found")
		} else {
			// choose-default replaced before the decision
			replaced := false
			for _, st := range f.Decl.Body.List[:firstIdx] {
				ifs, ok := st.(*ast.IfStmt)
				if !ok {
					continue
				}
				be, ok := stripParens(ifs.Cond).(*ast.BinaryExpr)
				if !ok || be.Op != token.EQL {
					continue
				}
				if o := objOf(info, be.Y); o != nil && o.Name() == "OmitFieldChooseDefault" && objOf(info, be.X) == tagObj {
					for _, b := range ifs.Body.List {
						if as, ok := b.(*ast.AssignStmt); ok && len(as.Lhs) == 1 && objOf(info, as.Lhs[0]) == tagObj {
							if po := objOf(info, as.Rhs[0]); po != nil && paramIndex(f.Obj, po) >= 0 {
								replaced = true
							}
						}
					}
				}
			}
			r.Check("C21.omit-table", "iterator.shouldIncludeField|choose-default replaced by the configured default", f.Decl.Pos(), replaced,
				"the `choose default` omit behaviour is not replaced by the configured default before the decision")
			want := map[string]string{"OmitFieldAlways": "false", "OmitFieldNever": "true", "OmitFieldEmpty": "!isValueEmpty", "OmitFieldZero": "!isValueZero"}
			seen := map[string]bool{}
			for _, c := range cases {
				got := "?"
				if len(c.Body) == 1 {
					if ret, ok := c.Body[0].(*ast.ReturnStmt); ok && len(ret.Results) == 1 {
						e := stripParens(ret.Results[0])
						if cv := constVal(info, e); cv != nil && cv.Kind() == constant.Bool {
							got = fmt.Sprint(constant.BoolVal(cv))
						} else if u, ok := e.(*ast.UnaryExpr); ok && u.Op == token.NOT {
							if call, ok := stripParens(u.X).(*ast.CallExpr); ok {
								if cc := callee(info, call); cc != nil {
									got = "!" + cc.Name()
								}
							}
						} else if call, ok := e.(*ast.CallExpr); ok {
							if cc := callee(info, call); cc != nil {
								got = cc.Name()
							}
						}
					}
				}
				for _, o := range c.Consts {
					seen[o.Name()] = true
					w, known := want[o.Name()]
					r.Check("C21.omit-table", "iterator.shouldIncludeField|"+o.Name(), c.Pos, known && got == w,
						fmt.Sprintf("omit behaviour %s decides `%s`, expected `%s`", o.Name(), got, w))
				}
			}
			for k := range want {
				if !seen[k] {
					r.Fail("C21.omit-table", "iterator.shouldIncludeField|"+k, f.Decl.Pos(), "no case for "+k)
				}
			}
		}
	}
	// isValueZero ⊇ isValueEmpty
	if f := findFn(p, "iterator", "isValueZero"); f != nil {
		calls := false
		inspectCalls(info, f.Decl.Body, func(call *ast.CallExpr, c *types.Func) {
			if c != nil && isFunc(c, "iterator", "isValueEmpty") {
				calls = true
			}
		})
		r.Check("C21.omit-table", "iterator.isValueZero|covers empty values", f.Decl.Pos(), calls,
			"isValueZero no longer treats empty (non-nil, zero-length) containers as zero: omit_zero then keeps fields that it used to leave out (empty slices and maps)")
	} else {
		r.Undecided("C21.omit-table", "iterator.isValueZero")
	}
	// tag words
	if f := findFn(p, "internal/common", "DecodeGoTags"); f == nil {
		r.Undecided("C21.omit-table", "internal/common.DecodeGoTags")
	} else {
		ci := f.Pkg.TypesInfo
		want := map[string]string{"omit": "OmitFieldAlways", "omit_empty": "OmitFieldEmpty", "omit_zero": "OmitFieldZero", "omit_never": "OmitFieldNever"}
		got := map[string]string{}
		fieldSet := map[string]string{}
		ast.Inspect(f.Decl.Body, func(n ast.Node) bool {
			sw, ok := n.(*ast.SwitchStmt)
			if !ok {
				return true
			}
			for _, c := range switchTable(ci, sw) {
				for _, cv := range c.Consts {
					if cv == nil || cv.Kind() != constant.String {
						continue
					}
					word := constant.StringVal(cv)
					for _, st := range c.Body {
						as, ok := st.(*ast.AssignStmt)
						if !ok || len(as.Lhs) != 1 {
							continue
						}
						if fv := fieldOf(ci, as.Lhs[0]); fv != nil {
							fieldSet[word] = fv.Name()
							if o := objOf(ci, as.Rhs[0]); o != nil {
								got[word] = o.Name()
							}
						}
					}
				}
			}
			return true
		})
		for w, c := range want {
			r.Check("C21.omit-table", "DecodeGoTags|tag "+w, f.Decl.Pos(), got[w] == c && fieldSet[w] == "OmitBehavior", fmt.Sprintf("tag word %q sets %s = %s, expected OmitBehavior = %s", w, fieldSet[w], got[w], c))
		}
		r.Check("C21.omit-table", "DecodeGoTags|tag name", f.Decl.Pos(), fieldSet["name"] == "Name", "tag word \"name\" does not set the field name")
		r.Check("C21.omit-table", "DecodeGoTags|tag order", f.Decl.Pos(), fieldSet["order"] == "Order", "tag word \"order\" does not set the field order")
	}

	// `omit` applies to embedded structs as well: the recursion sits inside the omit guard
	if f := findFn(p, "iterator", "extractFields"); f != nil {
		okGuard := true
		found := false
		isAlways := func(e ast.Expr) bool {
			be, ok := stripParens(e).(*ast.BinaryExpr)
			if !ok || be.Op != token.EQL {
				return false
			}
			for _, side := range []ast.Expr{be.X, be.Y} {
				if o := objOf(info, side); o != nil && o.Name() == "OmitFieldAlways" {
					return true
				}
			}
			return false
		}
		inspectCalls(info, f.Decl.Body, func(call *ast.CallExpr, c *types.Func) {
			if c != f.Obj {
				return
			}
			found = true
			conds, pols := pathConds(a, info, f, call)
			if !impliesAtomValue(info, f, conds, pols, isAlways, false) {
				okGuard = false
			}
		})
		r.Check("C21.omit-table", "iterator.extractFields|omit applies to embedded structs", f.Decl.Pos(), found && okGuard,
			"the fields of an embedded struct are collected outside the `omit behaviour != always` test: an embedded struct tagged ce:\"omit\" is flattened into its parent anyway")
	}

	// ---- stable order -------------------------------------------------------------------------------------
	if f := findFn(p, "iterator", "extractFields"); f == nil {
		r.Undecided("C21.stable-order", "iterator.extractFields")
	} else {
		found := false
		inspectCalls(info, f.Decl.Body, func(call *ast.CallExpr, c *types.Func) {
			if c == nil || c.Pkg() == nil || c.Pkg().Path() != "sort" {
				return
			}
			found = true
			stable := c.Name() == "SliceStable" || c.Name() == "Stable"
			r.Check("C21.stable-order", "iterator.extractFields|stable sort", call.Pos(), stable, "fields are sorted with sort."+c.Name()+", which does not keep declaration order among fields of equal tag order (visible with more than 12 fields)")
			// less: fields[i].Order < fields[j].Order
			okLess := false
			if len(call.Args) == 2 {
				if fl, ok := call.Args[1].(*ast.FuncLit); ok && len(fl.Body.List) == 1 {
					if ret, ok := fl.Body.List[0].(*ast.ReturnStmt); ok && len(ret.Results) == 1 {
						if be, ok := stripParens(ret.Results[0]).(*ast.BinaryExpr); ok && be.Op == token.LSS {
							lf, rf := fieldOf(info, be.X), fieldOf(info, be.Y)
							if lf != nil && lf == rf && lf.Name() == "Order" {
								lx, rx := rootIndexVar(info, be.X), rootIndexVar(info, be.Y)
								pl := fl.Type.Params.List
								var pn []types.Object
								for _, fld := range pl {
									for _, nm := range fld.Names {
										pn = append(pn, info.ObjectOf(nm))
									}
								}
								okLess = len(pn) == 2 && lx == pn[0] && rx == pn[1]
							}
						}
					}
				}
			}
			r.Check("C21.stable-order", "iterator.extractFields|less is Order[i] < Order[j]", call.Pos(), okLess, "the sort's less function is not `fields[i].Order < fields[j].Order`")
		})
		if !found {
			r.Fail("C21.stable-order", "iterator.extractFields|stable sort", f.Decl.Pos(), "no sort call found")
		}
	}

	// ---- shadowed fields of embedded structs ------------------------------------------------------------------
	r.Rule("C21.shadowing", "both functions that flatten embedded structs into their parent (the marshaling side's extractFields and the unmarshaling side's makeGeneratorDescs: the ones that recurse on reflect.StructField.Anonymous) resolve clashes of field names by depth, as Go does: somewhere in the function or in what it calls, the lengths of two fields' index paths are compared. Without it a field shadowed by an outer field is written as a second map entry with the same key (a document the decoder rejects) and filled from the wrong entry.")
	for _, spec := range []struct{ rel, fn string }{{"iterator", "extractFields"}, {"builder", "makeGeneratorDescs"}} {
		f := findFn(p, spec.rel, spec.fn)
		if f == nil {
			r.Undecided("C21.shadowing", spec.rel+"."+spec.fn)
			continue
		}
		finfo := f.Pkg.TypesInfo
		recurses := false
		ast.Inspect(f.Decl.Body, func(n ast.Node) bool {
			if sel, ok := n.(*ast.SelectorExpr); ok && sel.Sel.Name == "Anonymous" {
				recurses = true
			}
			return true
		})
		comparesDepth := func(body ast.Node, binfo *types.Info) bool {
			found := false
			ast.Inspect(body, func(n ast.Node) bool {
				be, ok := n.(*ast.BinaryExpr)
				if !ok {
					return true
				}
				switch be.Op {
				case token.LSS, token.GTR, token.LEQ, token.GEQ, token.EQL, token.NEQ:
				default:
					return true
				}
				isDepth := func(e ast.Expr) bool {
					// len(x.IndexPath), len(path), or a map entry that holds such a length
					yes := false
					ast.Inspect(e, func(k ast.Node) bool {
						if c, ok := k.(*ast.CallExpr); ok && len(c.Args) == 1 {
							if id, ok := c.Fun.(*ast.Ident); ok && id.Name == "len" {
								if sl, ok := binfo.TypeOf(c.Args[0]).Underlying().(*types.Slice); ok {
									if b, ok := sl.Elem().Underlying().(*types.Basic); ok && b.Kind() == types.Int {
										yes = true
									}
								}
							}
						}
						return true
					})
					return yes
				}
				if isDepth(be.X) || isDepth(be.Y) {
					found = true
				}
				return true
			})
			return found
		}
		ok := comparesDepth(f.Decl.Body, finfo)
		inspectCalls(finfo, f.Decl.Body, func(call *ast.CallExpr, c *types.Func) {
			if c != nil && c != f.Obj && c.Pkg() == f.Pkg.Types {
				if hd := p.FuncDecl(c); hd != nil && hd.Body != nil && comparesDepth(hd.Body, finfo) {
					ok = true
				}
			}
		})
		r.Check("C21.shadowing", spec.rel+"."+spec.fn+"|name clashes resolved by depth", f.Decl.Pos(), recurses && ok,
			spec.fn+" flattens embedded structs but never compares the depth (index path length) of two fields: struct{Inner; A int} with Inner{A,B int} is marshaled with the key \"a\" twice - a document the decoder rejects as having a duplicate key - and unmarshaled from whichever entry comes last")
	}

	// ---- index path -----------------------------------------------------------------------------------------
	checkIndexPath(r, p, "C21.index-path")

	// ---- shared names ---------------------------------------------------------------------------------------
	// each side reaches common.DecodeGoTags from the function that collects a struct's fields (directly or through
	// whatever helpers it is split into)
	for _, spec := range []struct{ rel, fn string }{{"iterator", "extractFields"}, {"builder", "newStructBuilderGenerator"}} {
		f := findFn(p, spec.rel, spec.fn)
		if f == nil {
			r.Undecided("C21.shared-names", spec.rel+"."+spec.fn)
			continue
		}
		uses := a.reaches(f.Obj, func(c *types.Func) bool { return isFunc(c, "internal/common", "DecodeGoTags") })
		r.Check("C21.shared-names", spec.rel+"."+spec.fn+"|name from DecodeGoTags", f.Decl.Pos(), uses, "the field name is not taken from common.DecodeGoTags on this side: tagged names differ between marshaling and unmarshaling")
	}
	bld := p.Pkg("builder")
	binfo := bld.TypesInfo
	if f := findFn(p, "builder", "newStructBuilderGenerator"); f != nil {
		norm := false
		inspectCalls(binfo, f.Decl.Body, func(call *ast.CallExpr, c *types.Func) {
			if c != nil && isFunc(c, "internal/common", "ToStructFieldIdentifier") {
				norm = true
			}
		})
		r.Check("C21.shared-names", "builder.newStructBuilderGenerator|registers the normalised name", f.Decl.Pos(), norm, "fields are not registered under ToStructFieldIdentifier(name): case-insensitive matching cannot find them")
	} else {
		r.Undecided("C21.shared-names", "builder.newStructBuilderGenerator")
	}
	// the alias must never displace a field registered under its exact name
	if f := findFn(p, "builder", "newStructBuilderGenerator"); f != nil {
		guarded := false
		ast.Inspect(f.Decl.Body, func(n ast.Node) bool {
			ifs, ok := n.(*ast.IfStmt)
			if !ok || ifs.Init == nil {
				return true
			}
			// if _, exists := generatorDescs[alias]; !exists { generatorDescs[alias] = desc }
			as, ok := ifs.Init.(*ast.AssignStmt)
			if !ok || len(as.Lhs) != 2 || len(as.Rhs) != 1 {
				return true
			}
			ix, ok := stripParens(as.Rhs[0]).(*ast.IndexExpr)
			if !ok {
				return true
			}
			if _, isMap := binfo.TypeOf(ix.X).Underlying().(*types.Map); !isMap {
				return true
			}
			u, ok := stripParens(ifs.Cond).(*ast.UnaryExpr)
			if !ok || u.Op != token.NOT || objOf(binfo, u.X) != objOf(binfo, as.Lhs[1]) {
				return true
			}
			for _, st := range ifs.Body.List {
				if a2, ok := st.(*ast.AssignStmt); ok && len(a2.Lhs) == 1 {
					if ix2, ok := stripParens(a2.Lhs[0]).(*ast.IndexExpr); ok && exprStr(ix2.X) == exprStr(ix.X) && exprStr(ix2.Index) == exprStr(ix.Index) {
						guarded = true
					}
				}
			}
			return true
		})
		r.Check("C21.shared-names", "builder.newStructBuilderGenerator|alias registered only when the name is free", f.Decl.Pos(), guarded,
			"the normalised alias of a field is stored in the lookup table without testing whether that key is already taken: when it equals another field's exact (tag) name, that field can no longer be matched")
	}
	// one normaliser, Unicode-aware
	if f := findFn(p, "internal/common", "ToStructFieldIdentifier"); f != nil {
		ci := f.Pkg.TypesInfo
		lower := false
		inspectCalls(ci, f.Decl.Body, func(call *ast.CallExpr, c *types.Func) {
			if c != nil && isFunc(c, "strings", "ToLower") {
				lower = true
			}
		})
		r.Check("C21.shared-names", "internal/common.ToStructFieldIdentifier|lower-cases with strings.ToLower", f.Decl.Pos(), lower,
			"the name normaliser no longer lower-cases with strings.ToLower (the Unicode-aware function the snake-casing also uses): names with non-ASCII upper-case letters (Épée) stop matching their own marshaled key")
	} else {
		r.Undecided("C21.shared-names", "internal/common.ToStructFieldIdentifier")
	}
	if f := findFn(p, "internal/common", "CamelCaseToSnakeCase"); f != nil {
		ci := f.Pkg.TypesInfo
		lower := false
		inspectCalls(ci, f.Decl.Body, func(call *ast.CallExpr, c *types.Func) {
			if c != nil && isFunc(c, "strings", "ToLower") {
				lower = true
			}
		})
		r.Check("C21.shared-names", "internal/common.CamelCaseToSnakeCase|lower-cases with strings.ToLower", f.Decl.Pos(), lower, "the snake-casing no longer lower-cases with strings.ToLower")
	}
	nLookup := 0
	for _, mname := range []string{"BuildFromStringlikeArray", "BuildFromArray"} {
		f := findFn(p, "builder", "structBuilder."+mname)
		if f == nil {
			r.Undecided("C21.shared-names", "builder.structBuilder."+mname)
			continue
		}
		// the lookup may be split off into an unexported helper of the struct builder
		lookupBodies := &ast.BlockStmt{List: []ast.Stmt{f.Decl.Body}}
		inspectCalls(binfo, f.Decl.Body, func(call *ast.CallExpr, c *types.Func) {
			if c != nil && !c.Exported() && c.Pkg() == f.Pkg.Types && recvNamed(c) != nil && recvNamed(c) == recvNamed(f.Obj) {
				if hd := p.FuncDecl(c); hd != nil && hd.Body != nil {
					lookupBodies.List = append(lookupBodies.List, hd.Body)
				}
			}
		})
		// if cfg.CaseInsensitiveStructFieldNames { value = ToStructFieldIdentifier(value) }
		ast.Inspect(lookupBodies, func(n ast.Node) bool {
			ifs, ok := n.(*ast.IfStmt)
			if !ok {
				return true
			}
			fv := fieldOf(binfo, ifs.Cond)
			if fv == nil || fv.Name() != "CaseInsensitiveStructFieldNames" {
				return true
			}
			nLookup++
			norm := false
			inspectCalls(binfo, ifs.Body, func(call *ast.CallExpr, c *types.Func) {
				if c != nil && isFunc(c, "internal/common", "ToStructFieldIdentifier") {
					norm = true
				}
			})
			r.Check("C21.shared-names", "(*builder.structBuilder)."+mname+"|key normalised with ToStructFieldIdentifier when matching is case-insensitive", ifs.Pos(), norm && ifs.Else == nil,
				"with case-insensitive matching on, the document key is not normalised with the function the field names were registered with")
			return true
		})
		// the map lookup result must be confirmed against the exact name when matching is case-sensitive
		exact := false
		ast.Inspect(lookupBodies, func(n ast.Node) bool {
			be, ok := n.(*ast.BinaryExpr)
			if !ok || (be.Op != token.EQL && be.Op != token.NEQ) {
				return true
			}
			for _, side := range []ast.Expr{be.X, be.Y} {
				if fv := fieldOf(binfo, stripConv(binfo, side)); fv != nil && fv.Name() == "Name" {
					exact = true
				}
			}
			return true
		})
		r.Check("C21.shared-names", "(*builder.structBuilder)."+mname+"|case-sensitive matching compares the exact name", f.Decl.Pos(), exact,
			"the lookup table also holds every field under its lower-case, underscore-free alias; with case-insensitive matching OFF a key equal to that alias (e.g. \"myfield\" for MyField) still matches, because the hit is not compared with the field's exact name")
	}
	r.Floor("C21.shared-names", "key lookups in the struct builder", nLookup, 2)

	// ---- unknown key ---------------------------------------------------------------------------------------
	for _, mname := range []string{"BuildFromStringlikeArray", "BuildFromArray"} {
		f := findFn(p, "builder", "structBuilder."+mname)
		if f == nil {
			continue
		}
		okPath := false
		ast.Inspect(f.Decl.Body, func(n ast.Node) bool {
			blk, ok := n.(*ast.BlockStmt)
			if !ok || len(blk.List) != 2 {
				return true
			}
			es, ok1 := blk.List[0].(*ast.ExprStmt)
			_, ok2 := blk.List[1].(*ast.ReturnStmt)
			if !ok1 || !ok2 {
				return true
			}
			call, ok := es.X.(*ast.CallExpr)
			if !ok || len(call.Args) != 1 {
				return true
			}
			c := callee(binfo, call)
			if c != nil && c.Name() == "StackBuilder" {
				if o := objOf(binfo, call.Args[0]); o != nil && o.Name() == "globalIgnoreBuilder" {
					okPath = true
				}
			}
			return true
		})
		r.Check("C21.unknown-key", "(*builder.structBuilder)."+mname+"|unknown key stacks the ignore builder and returns", f.Decl.Pos(), okPath,
			"the branch for a key that matches no field must be exactly: stack the ignore builder, return (without flipping the key/value state)")
	}
	c21Ignore(r, p, a)
}

func rootIndexVar(info *types.Info, e ast.Expr) types.Object {
	for {
		switch x := stripParens(e).(type) {
		case *ast.SelectorExpr:
			e = x.X
		case *ast.IndexExpr:
			return objOf(info, x.Index)
		default:
			return nil
		}
	}
}

// c21Ignore checks the stack discipline of the ignore builders.
func c21Ignore(r *core.Run, p *core.Program, a *analysis) {
	pkg := p.Pkg("builder")
	info := pkg.TypesInfo
	count := func(f *fn, name string) int {
		n := 0
		inspectCalls(info, f.Decl.Body, func(call *ast.CallExpr, c *types.Func) {
			if c != nil && isMethodOf(c, "builder", "Context", name) {
				n++
			}
		})
		return n
	}
	nM := 0
	for _, f := range funcsOf(pkg) {
		rn := recvNamed(f.Obj)
		if rn == nil {
			continue
		}
		m := f.Obj.Name()
		switch rn.Obj().Name() {
		case "ignoreBuilder":
			switch {
			case strings.HasPrefix(m, "BuildFrom"), m == "NotifyChildContainerFinished":
				nM++
				ok := count(f, "UnstackBuilder") == 1 && count(f, "StackBuilder") == 0 && !a.alwaysPanics(info, f.Decl.Body.List)
				r.Check("C21.unknown-key", "(*builder.ignoreBuilder)."+m+"|unstacks exactly once", f.Decl.Pos(), ok, "the ignore builder must leave the stack exactly once when the skipped value (or its container) is complete")
			case strings.HasPrefix(m, "BuildNew"):
				nM++
				ok := count(f, "StackBuilder") == 1 && count(f, "UnstackBuilder") == 0
				r.Check("C21.unknown-key", "(*builder.ignoreBuilder)."+m+"|hands the container to a container-ignoring builder", f.Decl.Pos(), ok, "a skipped container value must be handed to a stacked ignoring builder")
			}
		case "ignoreContainerBuilder":
			switch {
			case strings.HasPrefix(m, "BuildFrom"), m == "NotifyChildContainerFinished":
				nM++
				ok := count(f, "UnstackBuilder") == 0 && count(f, "StackBuilder") == 0 && count(f, "UnstackBuilderAndNotifyChildFinished") == 0 && !a.alwaysPanics(info, f.Decl.Body.List)
				r.Check("C21.unknown-key", "(*builder.ignoreContainerBuilder)."+m+"|swallows the event", f.Decl.Pos(), ok, "inside a skipped container every value must be swallowed without touching the builder stack")
			case strings.HasPrefix(m, "BuildNew"):
				nM++
				ok := count(f, "StackBuilder") == 1
				r.Check("C21.unknown-key", "(*builder.ignoreContainerBuilder)."+m+"|stacks an ignoring builder for the nested container", f.Decl.Pos(), ok, "a container nested in a skipped container must get its own stacked ignoring builder")
			case m == "BuildEndContainer":
				nM++
				ok := count(f, "UnstackBuilderAndNotifyChildFinished") == 1
				r.Check("C21.unknown-key", "(*builder.ignoreContainerBuilder)."+m+"|unstacks and notifies its parent", f.Decl.Pos(), ok, "the end of a skipped container must unstack the ignoring builder and notify the builder below")
			}
		}
	}
	r.Floor("C21.unknown-key", "ignore-builder methods", nM, 45)
}

// checkIndexPath: recursive struct walkers must copy the index path, not append to the caller's slice (shared by C21, C05, C04).
func checkIndexPath(r *core.Run, p *core.Program, rule string) {
	nWalk := 0
	for _, rel := range []string{"iterator", "builder"} {
		pk := p.Pkg(rel)
		pinfo := pk.TypesInfo
		for _, f := range funcsOf(pk) {
			sig := f.Obj.Type().(*types.Signature)
			// []int parameters of a self-recursive function
			recursive := false
			inspectCalls(pinfo, f.Decl.Body, func(call *ast.CallExpr, c *types.Func) {
				if c == f.Obj {
					recursive = true
				}
			})
			if !recursive {
				continue
			}
			for i := 0; i < sig.Params().Len(); i++ {
				pv := sig.Params().At(i)
				sl, ok := pv.Type().Underlying().(*types.Slice)
				if !ok {
					continue
				}
				if b, ok := sl.Elem().Underlying().(*types.Basic); !ok || b.Kind() != types.Int {
					continue
				}
				nWalk++
				bad := token.NoPos
				ast.Inspect(f.Decl.Body, func(n ast.Node) bool {
					as, ok := n.(*ast.AssignStmt)
					if !ok || len(as.Rhs) != 1 {
						return true
					}
					call, ok := as.Rhs[0].(*ast.CallExpr)
					if !ok || len(call.Args) < 2 {
						return true
					}
					if id, ok := call.Fun.(*ast.Ident); !ok || id.Name != "append" {
						return true
					}
					if objOf(pinfo, call.Args[0]) == pv && objOf(pinfo, as.Lhs[0]) != pv {
						bad = as.Pos()
					}
					return true
				})
				r.Check(rule, f.Name()+"|"+pv.Name()+" is copied, not appended to", f.Decl.Pos(), bad == token.NoPos,
					"the field index path is built with append("+pv.Name()+", …) and stored: once the caller's slice has spare capacity (embedding depth 3), all fields of the innermost struct share one backing array and get the last field's index")
			}
		}
	}
	r.Floor(rule, "recursive struct walkers with an index path parameter", nWalk, 2)
}

// omitPredicate finds the function that decides whether a struct field is marshaled: iterator.shouldIncludeField
// by name, or - when it has been renamed - the only unexported function of package iterator that returns bool and
// takes a configuration.FieldOmitBehavior.
func omitPredicate(p *core.Program) *fn {
	if f := findFn(p, "iterator", "shouldIncludeField"); f != nil {
		return f
	}
	var found []*fn
	for _, f := range funcsOf(p.Pkg("iterator")) {
		sig := f.Obj.Type().(*types.Signature)
		if sig.Recv() != nil || f.Obj.Exported() || sig.Results().Len() != 1 {
			continue
		}
		if b, ok := sig.Results().At(0).Type().Underlying().(*types.Basic); !ok || b.Kind() != types.Bool {
			continue
		}
		for i := 0; i < sig.Params().Len(); i++ {
			if nt := namedOf(sig.Params().At(i).Type()); nt != nil && nt.Obj().Name() == "FieldOmitBehavior" {
				found = append(found, f)
				break
			}
		}
	}
	if len(found) == 1 {
		return found[0]
	}
	return nil
}

// omitCase is one arm of the decision over the omit behaviour, read from a switch or from an if / else-if chain.
type omitCase struct {
	Consts []types.Object
	Body   []ast.Stmt
	Pos    token.Pos
}

// omitCases reads `switch tag { case K…: body }` or `if tag == K [|| tag == K2] { body } [else if …]` (also as a
// sequence of ifs whose bodies return) from a statement list; tagObj is the variable compared.
func omitCases(info *types.Info, list []ast.Stmt) (cases []omitCase, tagObj types.Object, firstIdx int) {
	firstIdx = -1
	eqConsts := func(e ast.Expr) ([]types.Object, types.Object) {
		var consts []types.Object
		var tag types.Object
		ok := true
		var walk func(e ast.Expr)
		walk = func(e ast.Expr) {
			e = stripParens(e)
			be, isBin := e.(*ast.BinaryExpr)
			if !isBin {
				ok = false
				return
			}
			switch be.Op {
			case token.LOR:
				walk(be.X)
				walk(be.Y)
			case token.EQL:
				c, isC := objOf(info, be.Y).(*types.Const)
				t := objOf(info, be.X)
				if !isC {
					c, isC = objOf(info, be.X).(*types.Const)
					t = objOf(info, be.Y)
				}
				if !isC || t == nil || (tag != nil && tag != t) {
					ok = false
					return
				}
				tag = t
				consts = append(consts, c)
			default:
				ok = false
			}
		}
		walk(e)
		if !ok {
			return nil, nil
		}
		return consts, tag
	}
	for i, st := range list {
		switch x := st.(type) {
		case *ast.SwitchStmt:
			if x.Tag == nil {
				continue
			}
			var cs []omitCase
			for _, c := range x.Body.List {
				cc := c.(*ast.CaseClause)
				oc := omitCase{Body: cc.Body, Pos: cc.Pos()}
				for _, e := range cc.List {
					if o := objOf(info, e); o != nil {
						oc.Consts = append(oc.Consts, o)
					}
				}
				if cc.List != nil {
					cs = append(cs, oc)
				}
			}
			return cs, objOf(info, x.Tag), i
		case *ast.IfStmt:
			cur := x
			for cur != nil {
				consts, tag := eqConsts(cur.Cond)
				if consts == nil || len(consts) == 0 {
					break
				}
				isOmitConst := false
				for _, c := range consts {
					if strings.HasPrefix(c.Name(), "OmitField") && c.Name() != "OmitFieldChooseDefault" {
						isOmitConst = true
					}
				}
				if !isOmitConst {
					break
				}
				if tagObj == nil {
					tagObj, firstIdx = tag, i
				}
				if tag != tagObj {
					break
				}
				cases = append(cases, omitCase{Consts: consts, Body: cur.Body.List, Pos: cur.Pos()})
				next, _ := cur.Else.(*ast.IfStmt)
				cur = next
			}
		}
	}
	return cases, tagObj, firstIdx
}
