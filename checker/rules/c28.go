package rules

import (
	"go/ast"
	"go/token"
	"go/types"
	"strings"

	"verif/checker/core"
)

func init() { Registry["C28"] = checkC28 }

// readSites lists every call of io.Reader.Read (interface dispatch) in the given packages.
type readSite struct {
	f    *fn
	call *ast.CallExpr
	recv ast.Expr
}

func ioReadSites(p *core.Program, rels ...string) []readSite {
	var out []readSite
	for _, rel := range rels {
		pkg := p.Pkg(rel)
		for _, f := range funcsOf(pkg) {
			inspectCalls(pkg.TypesInfo, f.Decl.Body, func(call *ast.CallExpr, cal *types.Func) {
				if cal != nil && cal.Name() == "Read" && typeIs(recvType(cal), "io", "Reader") {
					if sel, ok := call.Fun.(*ast.SelectorExpr); ok {
						out = append(out, readSite{f, call, sel.X})
					}
				}
			})
		}
	}
	return out
}

func checkC28(r *core.Run, p *core.Program) {
	r.Rule("C28.raw-reader", "the caller's io.Reader is read directly only inside a normalising adapter whose Read (a) retries an empty read a bounded number of times and then fails with io.ErrNoProgress, (b) when data arrives together with an error returns the data with a nil error and holds the error back for the next call, (c) keeps returning a held error; every other Read in the codecs goes through a field that is only ever assigned that adapter, and the adapter is installed and reset at the per-document entry point.")
	r.Rule("C28.third-party", "the stream decoders of the third-party modules (ULEB128, compact float, compact time) are handed the normalised reader field, never the caller's raw reader.")
	r.Rule("C28.cte", "the CTE decoder consumes the stream only through io.Copy / io.ReadAll (which implement the io.Reader contract) and never calls Read itself.")
	r.Rule("C28.universal", "the universal entry points peek through a bufio.Reader and pass that same buffered reader on (C27.peek).")
	r.NotDecide("equality of results between stream and in-memory decoding (follows from the reader contract being honoured, which is what is checked); behaviour of third-party decoders given a contract-conforming normalised reader")
	a := newAnalysis(p)
	pkg := p.Pkg("cbe")
	info := pkg.TypesInfo

	sites := ioReadSites(p, "cbe", "cte", "ce", "rules", "builder", "iterator")
	r.Floor("C28.raw-reader", "io.Reader.Read call sites", len(sites), 2)
	// adapter types: named types of package cbe with a method Read([]byte)(int,error) that itself calls io.Reader.Read on one of its fields
	adapters := map[*types.TypeName]*fn{}
	for _, s := range sites {
		if s.f.Decl.Name.Name == "Read" {
			if rn := recvNamed(s.f.Obj); rn != nil {
				if fld := fieldOf(s.f.Pkg.TypesInfo, s.recv); fld != nil {
					adapters[rn.Obj()] = s.f
				}
			}
		}
	}
	for tn, f := range adapters {
		checkAdapterContract(r, a, f, tn, "C28.raw-reader")
	}
	r.Check("C28.raw-reader", "cbe|normalising adapter exists", token.NoPos, len(adapters) >= 1, "no normalising reader adapter found: every Read call site would have to implement the full io.Reader contract itself")

	// fields that only ever hold an adapter
	normalised := map[*types.Var]bool{}
	for _, f := range funcsOf(pkg) {
		ast.Inspect(f.Decl.Body, func(n ast.Node) bool {
			as, ok := n.(*ast.AssignStmt)
			if !ok || len(as.Lhs) != len(as.Rhs) {
				return true
			}
			for i, lhs := range as.Lhs {
				fld := fieldOf(info, lhs)
				if fld == nil || !typeIs(fld.Type(), "io", "Reader") {
					continue
				}
				if owner := recvNamed(f.Obj); owner != nil && adapters[owner.Obj()] != nil {
					continue // the adapter's own raw field
				}
				rt := info.TypeOf(as.Rhs[i])
				isAdapter := false
				if nt := namedOf(rt); nt != nil && adapters[nt.Obj()] != nil {
					isAdapter = true
				}
				if _, seen := normalised[fld]; !seen {
					normalised[fld] = isAdapter
				} else if !isAdapter {
					normalised[fld] = false
				}
				r.Check("C28.raw-reader", f.Name()+"|assigns "+fld.Name(), as.Pos(), isAdapter, "the reader field "+fld.Name()+" is assigned "+exprStr(as.Rhs[i])+" (type "+rt.String()+"), not the normalising adapter: reads through it see the caller's raw reader")
			}
			return true
		})
	}
	for _, s := range sites {
		sinfo := s.f.Pkg.TypesInfo
		key := s.f.Name() + "|Read on " + exprStr(s.recv)
		if rn := recvNamed(s.f.Obj); rn != nil && adapters[rn.Obj()] == s.f {
			continue // the adapter itself, checked above
		}
		fld := fieldOf(sinfo, s.recv)
		r.Check("C28.raw-reader", key, s.call.Pos(), fld != nil && normalised[fld], "Read is called on "+exprStr(s.recv)+", which is not the normalised reader field: a (0, nil) read or data returned together with EOF is mishandled here")
	}
	// the adapter is reset per document: SetReader assigns a fresh adapter value (or clears its held error)
	if f := findFn(p, "cbe", "Reader.SetReader"); f == nil {
		r.Undecided("C28.raw-reader", "cbe.Reader.SetReader")
	} else {
		fresh := false
		ast.Inspect(f.Decl.Body, func(n ast.Node) bool {
			if as, ok := n.(*ast.AssignStmt); ok && len(as.Rhs) == 1 {
				if cl, ok := as.Rhs[0].(*ast.CompositeLit); ok {
					if nt := namedOf(info.TypeOf(cl)); nt != nil && adapters[nt.Obj()] != nil {
						// must set only the reader (held error starts nil)
						fresh = true
						for _, el := range cl.Elts {
							if kv, ok := el.(*ast.KeyValueExpr); ok && kv.Key.(*ast.Ident).Name == "err" {
								fresh = false
							}
						}
					}
				}
			}
			return true
		})
		r.Check("C28.raw-reader", "cbe.Reader.SetReader|fresh adapter per document", f.Decl.Pos(), fresh, "SetReader does not start each document with a fresh adapter (an error held back from the previous stream would be reported for the new one)")
	}

	// third-party decoders receive a normalised field
	n := 0
	for _, f := range funcsOf(pkg) {
		inspectCalls(info, f.Decl.Body, func(call *ast.CallExpr, cal *types.Func) {
			if cal == nil || core.InModule(cal) || !takesReader(cal) || cal.Pkg() == nil || isStdlib(cal.Pkg().Path()) {
				return
			}
			sig := cal.Type().(*types.Signature)
			for i := 0; i < sig.Params().Len() && i < len(call.Args); i++ {
				if !typeIs(sig.Params().At(i).Type(), "io", "Reader") {
					continue
				}
				n++
				fld := fieldOf(info, call.Args[i])
				r.Check("C28.third-party", f.Name()+"|"+cal.Pkg().Name()+"."+cal.Name(), call.Pos(), fld != nil && normalised[fld], "the third-party decoder is given "+exprStr(call.Args[i])+" instead of the normalised reader field")
			}
		})
	}
	r.Floor("C28.third-party", "third-party stream decoder calls", n, 5)

	// cte
	if f := findFn(p, "cte", "Decoder.Decode"); f == nil {
		r.Undecided("C28.cte", "cte.Decoder.Decode")
	} else {
		cinfo := f.Pkg.TypesInfo
		param := f.Obj.Type().(*types.Signature).Params().At(0)
		okUse, badUse := false, ""
		inspectCalls(cinfo, f.Decl.Body, func(call *ast.CallExpr, cal *types.Func) {
			for _, arg := range call.Args {
				if objOf(cinfo, arg) == param {
					if cal != nil && cal.Pkg() != nil && (cal.Pkg().Path() == "io" || cal.Pkg().Path() == "io/ioutil") && (cal.Name() == "Copy" || cal.Name() == "ReadAll") {
						okUse = true
					} else {
						badUse = exprStr(call.Fun)
					}
				}
			}
			if sel, ok := call.Fun.(*ast.SelectorExpr); ok && objOf(cinfo, sel.X) == param {
				badUse = exprStr(call.Fun)
			}
		})
		r.Check("C28.cte", "cte.Decoder.Decode", f.Decl.Pos(), okUse && badUse == "", "the stream must be consumed only through io.Copy/io.ReadAll; found use "+badUse)
		// and the copy's error is not ignored
		errChecked := false
		ast.Inspect(f.Decl.Body, func(n ast.Node) bool {
			if ifs, ok := n.(*ast.IfStmt); ok && ifs.Init != nil && strings.Contains(exprStr(ifs.Cond), "err != nil") {
				if as, ok := ifs.Init.(*ast.AssignStmt); ok && len(as.Rhs) == 1 && strings.HasPrefix(exprStr(as.Rhs[0]), "io.") {
					errChecked = branchLeaves(a, cinfo, ifs.Body.List)
				}
			}
			return true
		})
		r.Check("C28.cte", "cte.Decoder.Decode|copy error returned", f.Decl.Pos(), errChecked, "the error of reading the stream is not returned")
	}

	// universal
	ce := p.Pkg("ce")
	cinfo := ce.TypesInfo
	nu := 0
	for _, f := range funcsOf(ce) {
		sig := f.Obj.Type().(*types.Signature)
		var rp types.Object
		for i := 0; i < sig.Params().Len(); i++ {
			if typeIs(sig.Params().At(i).Type(), "io", "Reader") {
				rp = sig.Params().At(i)
			}
		}
		if rp == nil {
			continue
		}
		peeks := false
		inspectCalls(cinfo, f.Decl.Body, func(call *ast.CallExpr, cal *types.Func) {
			if cal != nil && cal.Name() == "Peek" {
				peeks = true
			}
		})
		if !peeks {
			continue
		}
		nu++
		// the raw reader may only be wrapped
		bad := ""
		inspectCalls(cinfo, f.Decl.Body, func(call *ast.CallExpr, cal *types.Func) {
			for _, arg := range call.Args {
				if objOf(cinfo, arg) == rp && !(cal != nil && cal.Pkg() != nil && cal.Pkg().Path() == "bufio" && strings.HasPrefix(cal.Name(), "NewReader")) {
					bad = exprStr(call.Fun)
				}
			}
		})
		r.Check("C28.universal", f.Name()+"|raw reader only wrapped", f.Decl.Pos(), bad == "", "after peeking, the raw reader is handed to "+bad+" (the peeked bytes are lost)")
	}
	r.Floor("C28.universal", "peeking entry points", nu, 2)
}

func isStdlib(path string) bool { return !strings.Contains(strings.SplitN(path, "/", 2)[0], ".") }

// checkAdapterContract verifies the Read method of a normalising adapter.
func checkAdapterContract(r *core.Run, a *analysis, f *fn, tn *types.TypeName, rule string) {
	info := f.Pkg.TypesInfo
	name := f.Name()
	var loop *ast.ForStmt
	stickyFirst, retErrNoProgress := false, false
	body := f.Decl.Body.List
	// (c) sticky held error first
	if len(body) > 0 {
		if ifs, ok := body[0].(*ast.IfStmt); ok && strings.Contains(exprStr(ifs.Cond), "!= nil") && fieldOf(info, stripParens(ifs.Cond).(*ast.BinaryExpr).X) != nil {
			if ret, ok := ifs.Body.List[len(ifs.Body.List)-1].(*ast.ReturnStmt); ok && len(ret.Results) == 2 {
				if k, isC := constInt(info, ret.Results[0]); isC && k == 0 && fieldOf(info, ret.Results[1]) != nil {
					stickyFirst = true
				}
			}
		}
	}
	for _, s := range body {
		if fs, ok := s.(*ast.ForStmt); ok {
			loop = fs
		}
	}
	bounded, dataFirst, errSecond := false, false, false
	if loop != nil {
		if be, ok := stripParens(loop.Cond).(*ast.BinaryExpr); ok && be.Op == token.LSS {
			if k, isC := constInt(info, be.Y); isC && k >= 1 && k <= 1000 && loop.Post != nil {
				bounded = true
			}
		}
		var nObj, errObj types.Object
		for _, s := range expandTaglessSwitch(loop.Body.List) {
			switch s := s.(type) {
			case *ast.AssignStmt:
				if len(s.Lhs) == 2 && len(s.Rhs) == 1 {
					if c, ok := s.Rhs[0].(*ast.CallExpr); ok {
						if cal := callee(info, c); cal != nil && cal.Name() == "Read" {
							nObj, errObj = objOf(info, s.Lhs[0]), objOf(info, s.Lhs[1])
						}
					}
				}
			case *ast.IfStmt:
				be, ok := stripParens(s.Cond).(*ast.BinaryExpr)
				if !ok {
					continue
				}
				if be.Op == token.GTR && objOf(info, be.X) == nObj && nObj != nil {
					// n > 0: hold the error, return n, nil
					holds, rets := false, false
					for _, t := range s.Body.List {
						if as, ok := t.(*ast.AssignStmt); ok && len(as.Lhs) == 1 && fieldOf(info, as.Lhs[0]) != nil && objOf(info, as.Rhs[0]) == errObj {
							holds = true
						}
						if ret, ok := t.(*ast.ReturnStmt); ok && len(ret.Results) == 2 && objOf(info, ret.Results[0]) == nObj && isNilExpr(info, ret.Results[1]) {
							rets = true
						}
					}
					if holds && rets && !errSecond {
						dataFirst = true
					}
				}
				if be.Op == token.NEQ && objOf(info, be.X) == errObj && errObj != nil && isNilExpr(info, be.Y) {
					if ret, ok := s.Body.List[len(s.Body.List)-1].(*ast.ReturnStmt); ok && len(ret.Results) == 2 {
						errSecond = true
					}
				}
			}
		}
	}
	for _, s := range body {
		if ret, ok := s.(*ast.ReturnStmt); ok {
			for _, res := range ret.Results {
				if strings.Contains(exprStr(res), "ErrNoProgress") || fieldOf(info, res) != nil {
					retErrNoProgress = true
				}
			}
		}
		if as, ok := s.(*ast.AssignStmt); ok && len(as.Rhs) == 1 && strings.Contains(exprStr(as.Rhs[0]), "ErrNoProgress") {
			retErrNoProgress = true
		}
	}
	// no path returns a nil error after the source's Read without the error of that Read having been stored
	// into a field first (a fast path such as `if n == len(p) { return n, nil }` forgets an error that came
	// with the data; the next call may see a plain EOF and the failure is never reported)
	forgets := token.NoPos
	if loop != nil {
		var readPos token.Pos
		var errObj2 types.Object
		type hold struct {
			pos   token.Pos
			block ast.Node
		}
		var holds []hold
		var stack []ast.Node
		ast.Inspect(loop.Body, func(nd ast.Node) bool {
			if nd == nil {
				stack = stack[:len(stack)-1]
				return true
			}
			stack = append(stack, nd)
			switch s := nd.(type) {
			case *ast.FuncLit:
				stack = stack[:len(stack)-1]
				return false
			case *ast.AssignStmt:
				if len(s.Lhs) == 2 && len(s.Rhs) == 1 && readPos == token.NoPos {
					if c, ok := s.Rhs[0].(*ast.CallExpr); ok {
						if cal := callee(info, c); cal != nil && cal.Name() == "Read" {
							readPos, errObj2 = s.End(), objOf(info, s.Lhs[1])
						}
					}
				}
				if len(s.Lhs) == 1 && len(s.Rhs) == 1 && errObj2 != nil && fieldOf(info, s.Lhs[0]) != nil && objOf(info, s.Rhs[0]) == errObj2 {
					var blk ast.Node
					for i := len(stack) - 2; i >= 0; i-- {
						if _, ok := stack[i].(*ast.BlockStmt); ok {
							blk = stack[i]
							break
						}
						if _, ok := stack[i].(*ast.CaseClause); ok {
							blk = stack[i]
							break
						}
					}
					holds = append(holds, hold{s.Pos(), blk})
				}
			case *ast.ReturnStmt:
				if readPos == token.NoPos || s.Pos() < readPos || len(s.Results) != 2 || !isNilExpr(info, s.Results[1]) {
					return true
				}
				held := false
				for _, h := range holds {
					if h.pos > s.Pos() {
						continue
					}
					for _, anc := range stack {
						if anc == h.block {
							held = true
						}
					}
				}
				if !held && forgets == token.NoPos {
					forgets = s.Pos()
				}
			}
			return true
		})
	}
	at := f.Decl.Pos()
	if forgets != token.NoPos {
		at = forgets
	}
	r.Check(rule, name+"|no success return forgets the error of the same Read", at, loop != nil && forgets == token.NoPos, "after the source's Read a `return n, nil` is reached without the error of that Read having been stored in the adapter: an error delivered together with data is lost and the failure is never reported")
	r.Check(rule, name+"|held error is sticky", f.Decl.Pos(), stickyFirst, "the adapter must first return an error held back from the previous call")
	r.Check(rule, name+"|bounded retry of empty reads", f.Decl.Pos(), loop != nil && bounded && retErrNoProgress, "a (0, nil) read must be retried a bounded number of times and then reported as io.ErrNoProgress (neither spin forever nor be treated as data or EOF)")
	r.Check(rule, name+"|data before error", f.Decl.Pos(), dataFirst && errSecond, "when Read returns n > 0 together with an error the adapter must deliver the n bytes with a nil error and hold the error for the next call (and test n > 0 before err != nil)")
}

// expandTaglessSwitch rewrites `switch { case c1: B1 case c2: B2 … }` statements of a list into the equivalent
// sequence `if c1 { B1 }; if c2 { B2 } …` when every case body but the last leaves (return / continue / break /
// panic-free goto is not accepted), so that first-match semantics are preserved; other statements are kept.
func expandTaglessSwitch(list []ast.Stmt) []ast.Stmt {
	var out []ast.Stmt
	for _, st := range list {
		sw, ok := st.(*ast.SwitchStmt)
		if !ok || sw.Tag != nil || sw.Init != nil {
			out = append(out, st)
			continue
		}
		okAll := true
		var ifs []ast.Stmt
		for i, c := range sw.Body.List {
			cc := c.(*ast.CaseClause)
			if cc.List == nil || len(cc.List) != 1 {
				okAll = false
				break
			}
			if i < len(sw.Body.List)-1 {
				if len(cc.Body) == 0 {
					okAll = false
					break
				}
				switch last := cc.Body[len(cc.Body)-1].(type) {
				case *ast.ReturnStmt:
				case *ast.BranchStmt:
					if last.Tok != token.CONTINUE {
						okAll = false
					}
				default:
					okAll = false
				}
			}
			ifs = append(ifs, &ast.IfStmt{If: cc.Pos(), Cond: cc.List[0], Body: &ast.BlockStmt{Lbrace: cc.Pos(), List: cc.Body, Rbrace: cc.End()}})
		}
		if !okAll {
			out = append(out, st)
			continue
		}
		out = append(out, ifs...)
	}
	return out
}
