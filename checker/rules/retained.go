package rules

import (
	"go/ast"
	"go/token"
	"go/types"
	"strings"

	"verif/checker/core"
)

// E4 (ownership instance): byte slices handed to the builder by events belong to the decoder, which reuses its buffers
// (CBE reader buffer, CTE parser array data, the builder's own chunk buffer). A builder may read them, but anything it
// KEEPS - in the built object, in a struct field, in a closure that runs later - must be a copy.
//
// retainedParams computes, for every function of package builder, which []byte parameters are retained:
//   - wrapped by reflect.ValueOf / handed to reflect SetBytes / Set(ValueOf(..))
//   - stored in a composite literal, a struct field, a map, or appended as an element
//   - referenced inside a function literal (which outlives the call when stored; conservatively any literal)
//   - passed to a module function that retains the corresponding parameter (fixpoint)
// Copies do not retain: common.CloneBytes(p), string(p), copy(dst, p), append(x, p...).

type retainFact struct {
	pos token.Pos
	how string
}

func retainedParams(p *core.Program, rels ...string) map[*types.Func]map[int]retainFact {
	facts := map[*types.Func]map[int]retainFact{}
	var all []*fn
	for _, rel := range rels {
		all = append(all, funcsOf(p.Pkg(rel))...)
	}
	set := func(f *types.Func, i int, pos token.Pos, how string) bool {
		if facts[f] == nil {
			facts[f] = map[int]retainFact{}
		}
		if _, ok := facts[f][i]; ok {
			return false
		}
		facts[f][i] = retainFact{pos, how}
		return true
	}
	for changed := true; changed; {
		changed = false
		for _, f := range all {
			info := f.Pkg.TypesInfo
			sig := f.Obj.Type().(*types.Signature)
			for i := 0; i < sig.Params().Len(); i++ {
				pv := sig.Params().At(i)
				if !isByteSlice(pv.Type()) || pv.Name() == "_" || pv.Name() == "" {
					continue
				}
				if _, done := facts[f.Obj][i]; done {
					continue
				}
				// aliases of the parameter: x := p, x := p[a:b]
				alias := map[types.Object]bool{pv: true}
				for iter := 0; iter < 3; iter++ {
					ast.Inspect(f.Decl.Body, func(n ast.Node) bool {
						as, ok := n.(*ast.AssignStmt)
						if !ok || len(as.Lhs) != len(as.Rhs) {
							return true
						}
						for k, l := range as.Lhs {
							id, ok := l.(*ast.Ident)
							if !ok {
								continue
							}
							if alias[rootObj(info, as.Rhs[k])] {
								if o := info.ObjectOf(id); o != nil {
									alias[o] = true
								}
							}
						}
						return true
					})
				}
				isP := func(e ast.Expr) bool { return alias[rootObj(info, e)] }
				var pos token.Pos
				how := ""
				mark := func(ps token.Pos, h string) {
					if how == "" {
						pos, how = ps, h
					}
				}
				var visit func(n ast.Node, inLit bool)
				visit = func(n ast.Node, inLit bool) {
					ast.Inspect(n, func(m ast.Node) bool {
						switch x := m.(type) {
						case *ast.FuncLit:
							if !inLit {
								// any use of the parameter inside a function literal
								used := false
								ast.Inspect(x.Body, func(q ast.Node) bool {
									if id, ok := q.(*ast.Ident); ok && alias[info.ObjectOf(id)] {
										used = true
									}
									return true
								})
								if used {
									mark(x.Pos(), "captured by a function literal that may run after the event returns")
								}
								return false
							}
						case *ast.CallExpr:
							c := callee(info, x)
							// reflect.ValueOf(p), v.SetBytes(p)
							if c != nil && c.Pkg() != nil && c.Pkg().Path() == "reflect" {
								for _, a := range x.Args {
									if isP(a) && (c.Name() == "ValueOf" || c.Name() == "SetBytes" || c.Name() == "Append") {
										mark(x.Pos(), "wrapped by reflect."+c.Name()+" and placed in the built object")
									}
								}
								return true
							}
							// append(xs, p) (element), not append(xs, p...)
							if id, ok := x.Fun.(*ast.Ident); ok && id.Name == "append" {
								if x.Ellipsis == token.NoPos {
									for _, a := range x.Args[1:] {
										if isP(a) {
											mark(x.Pos(), "appended as an element of a retained slice")
										}
									}
								}
								if len(x.Args) > 0 && isP(x.Args[0]) && len(x.Args) > 1 {
									// append(p, ...) writes into the caller's buffer / result aliases it; treated by the mutation rule, not here
								}
								return true
							}
							// module callee that retains its parameter
							if c != nil && core.InModule(c) {
								for k, a := range x.Args {
									if !isP(a) {
										continue
									}
									if rf, ok := facts[c][k]; ok {
										mark(x.Pos(), "passed to "+c.Name()+", which keeps it ("+rf.how+")")
									}
								}
							}
						case *ast.CompositeLit:
							for _, e := range x.Elts {
								v := e
								if kv, ok := e.(*ast.KeyValueExpr); ok {
									v = kv.Value
								}
								if isP(v) {
									mark(x.Pos(), "stored in a composite literal")
								}
							}
						case *ast.AssignStmt:
							for k, l := range x.Lhs {
								if k >= len(x.Rhs) || !isP(x.Rhs[k]) {
									continue
								}
								switch t := stripParens(l).(type) {
								case *ast.SelectorExpr:
									if fieldOf(info, t) != nil {
										mark(x.Pos(), "stored in the field "+exprStr(t))
									}
								case *ast.IndexExpr:
									mark(x.Pos(), "stored in "+exprStr(t))
								}
							}
						case *ast.ReturnStmt:
							// returning the parameter hands it to the caller: decided at the caller
						}
						return true
					})
				}
				visit(f.Decl.Body, false)
				// `p = common.CloneBytes(p)` as a top-level statement before the keeping use: from there on p is the copy
				if how != "" {
					for _, st := range f.Decl.Body.List {
						as, ok := st.(*ast.AssignStmt)
						if !ok || len(as.Lhs) != 1 || len(as.Rhs) != 1 || as.Tok != token.ASSIGN || objOf(info, as.Lhs[0]) != pv {
							continue
						}
						if call, ok := as.Rhs[0].(*ast.CallExpr); ok && len(call.Args) == 1 && objOf(info, call.Args[0]) == pv {
							if c := callee(info, call); c != nil && isFunc(c, "internal/common", "CloneBytes") && as.Pos() < pos {
								how = ""
							}
						}
					}
				}
				if how != "" {
					if set(f.Obj, i, pos, how) {
						changed = true
					}
				}
			}
		}
	}
	return facts
}

// checkRetainedBytes reports every event-facing function of the builder (Builder.BuildFrom* implementations and
// BuilderEventReceiver.On* methods) that keeps a byte slice it was handed without copying it.
func checkRetainedBytes(r *core.Run, p *core.Program, rule string, only func(name string) bool) int {
	facts := retainedParams(p, "builder")
	n := 0
	for _, f := range funcsOf(p.Pkg("builder")) {
		rn := recvNamed(f.Obj)
		if rn == nil {
			continue
		}
		name := f.Obj.Name()
		entry := strings.HasPrefix(name, "BuildFrom") || (rn.Obj().Name() == "BuilderEventReceiver" && strings.HasPrefix(name, "On"))
		if !entry {
			continue
		}
		sig := f.Obj.Type().(*types.Signature)
		for i := 0; i < sig.Params().Len(); i++ {
			pv := sig.Params().At(i)
			if !isByteSlice(pv.Type()) || pv.Name() == "_" || pv.Name() == "" {
				continue
			}
			if only != nil && !only(f.Name()) {
				continue
			}
			n++
			rf, bad := facts[f.Obj][i]
			pos := f.Decl.Pos()
			if bad {
				pos = rf.pos
			}
			r.Check(rule, f.Name()+"|"+pv.Name()+" is copied before it is kept", pos, !bad,
				"the byte slice "+pv.Name()+" handed in by the decoder is "+rf.how+" without a copy: the decoder reuses that buffer for the next array, identifier or chunk, so the built value changes afterwards")
		}
	}
	return n
}

// checkStoreThenReuse: a slice-typed struct field whose current value is stored away (map entry, other field, element of
// a retained slice) must not be truncated to length 0 and refilled afterwards: the stored value shares the backing array.
func checkStoreThenReuse(r *core.Run, p *core.Program, rule string, rels ...string) int {
	n := 0
	for _, rel := range rels {
		pkg := p.Pkg(rel)
		info := pkg.TypesInfo
		stored := map[*types.Var]token.Pos{}
		truncated := map[*types.Var]token.Pos{}
		for _, f := range funcsOf(pkg) {
			ast.Inspect(f.Decl.Body, func(nd ast.Node) bool {
				as, ok := nd.(*ast.AssignStmt)
				if !ok || len(as.Lhs) != len(as.Rhs) {
					return true
				}
				for i, l := range as.Lhs {
					rf := fieldOf(info, as.Rhs[i])
					if rf != nil {
						if _, isSlice := rf.Type().Underlying().(*types.Slice); isSlice {
							switch t := stripParens(l).(type) {
							case *ast.IndexExpr:
								if _, isMap := info.TypeOf(t.X).Underlying().(*types.Map); isMap {
									stored[rf] = as.Pos()
								}
							case *ast.SelectorExpr:
								if lf := fieldOf(info, t); lf != nil && lf != rf {
									stored[rf] = as.Pos()
								}
							}
						}
					}
					// F = F[:0]
					lf := fieldOf(info, l)
					if sl, ok := stripParens(as.Rhs[i]).(*ast.SliceExpr); ok && lf != nil && fieldOf(info, sl.X) == lf && sl.High != nil {
						if c, ok := constInt(info, sl.High); ok && c == 0 {
							truncated[lf] = as.Pos()
						}
					}
				}
				return true
			})
		}
		for fld, pos := range stored {
			n++
			tp, bad := truncated[fld]
			at := pos
			if bad {
				at = tp
			}
			r.Check(rule, rel+"."+fld.Name()+"|a slice that was stored away is not truncated and refilled", at, !bad,
				"the slice field "+fld.Name()+" is stored into a map/field and later reset with "+fld.Name()+"[:0]: the next appends overwrite the elements of the value that was stored (it shares the backing array)")
		}
	}
	return n
}
