package rules

// Canonical form of effect summaries. The summaries produced by effects.go follow the syntax of the source closely;
// two behaviourally identical bodies that differ by a tidy-up (a local introduced for a repeated sub-expression, a
// switch written as an if chain, an inverted condition with swapped branches, x += 1 for x++, a named constant for a
// literal) would render differently. canon() parses a summary back into a small tree and rewrites it into one
// canonical form; reference specifications and extracted summaries are compared after canon().
//
// Rewrites (each is an equivalence of the rendered program):
//   - def($v=E) with E pure (no call except ?pure:…) is substituted into later uses and dropped, as long as no statement
//     in between stores to a path mentioned in E, and no call other than ?pure intervenes when E reads a field;
//   - switch(T){A,B:X | default:Z} becomes if(T==A||T==B){X}else{Z}; a tagless switch becomes an if chain;
//   - if(!c){A}else{B} becomes if(c){B}else{A}; a != b conditions with an else are turned into == likewise;
//   - an else after a branch that always leaves (return / reject) is flattened: if(c){A; return}else{B} -> if(c){A; return}; B
//     and, at the end of a body, if(c){A; return}; B with a negated c is turned around to the positive condition;
//   - set(P+=1), set(P=P+1) become ++(P) (same for -);
//   - known numeric constants are replaced by their values; remaining $vN are renumbered in order of appearance.

import (
	"fmt"
	"regexp"
	"sort"
	"strings"
)

type nstmt struct {
	kind  string // if switch for range def let set inc dec return reject nop raw break continue
	a, b  string // if: cond; def/let/set: lhs, rhs (+op in c); inc/dec: target; raw: text; for: header; range: header
	c     string
	then  []*nstmt
	els   []*nstmt // nil = no else
	cases []ncase
}

type ncase struct {
	labels []string // nil = default
	body   []*nstmt
}

// splitTop splits s at separator sep occurring at bracket depth 0.
func splitTop(s, sep string) []string {
	var out []string
	depth := 0
	start := 0
	for i := 0; i < len(s); i++ {
		switch s[i] {
		case '(', '{', '[':
			depth++
		case ')', '}', ']':
			depth--
		}
		if depth == 0 && strings.HasPrefix(s[i:], sep) {
			out = append(out, s[start:i])
			start = i + len(sep)
			i += len(sep) - 1
		}
	}
	return append(out, s[start:])
}

// matchClose returns the index of the bracket closing the one at s[open].
func matchClose(s string, open int) int {
	depth := 0
	for i := open; i < len(s); i++ {
		switch s[i] {
		case '(', '{', '[':
			depth++
		case ')', '}', ']':
			depth--
			if depth == 0 {
				return i
			}
		}
	}
	return -1
}

func parseStmts(s string) []*nstmt {
	s = strings.TrimSpace(s)
	if s == "" {
		return nil
	}
	var out []*nstmt
	for _, part := range splitTop(s, "; ") {
		part = strings.TrimSpace(part)
		if part == "" {
			continue
		}
		out = append(out, parseStmt(part))
	}
	return out
}

func parseStmt(s string) *nstmt {
	switch {
	case s == "return", s == "reject", s == "nop", s == "break", s == "continue":
		return &nstmt{kind: s}
	case strings.HasPrefix(s, "if("):
		ce := matchClose(s, 2)
		if ce < 0 || ce+1 >= len(s) || s[ce+1] != '{' {
			break
		}
		be := matchClose(s, ce+1)
		if be < 0 {
			break
		}
		st := &nstmt{kind: "if", a: s[3:ce], then: parseStmts(s[ce+2 : be])}
		rest := s[be+1:]
		if strings.HasPrefix(rest, "else{") {
			ee := matchClose(rest, 4)
			if ee == len(rest)-1 {
				st.els = parseStmts(rest[5:ee])
				if st.els == nil {
					st.els = []*nstmt{}
				}
				return st
			}
			break
		}
		if rest == "" {
			return st
		}
	case strings.HasPrefix(s, "switch("):
		ce := matchClose(s, 6)
		if ce < 0 || ce+1 >= len(s) || s[ce+1] != '{' {
			break
		}
		be := matchClose(s, ce+1)
		if be != len(s)-1 {
			break
		}
		st := &nstmt{kind: "switch", a: s[7:ce]}
		for _, c := range splitTop(s[ce+2:be], " | ") {
			i := topIndex(c, ':')
			if i < 0 {
				return &nstmt{kind: "raw", a: s}
			}
			label, body := c[:i], c[i+1:]
			nc := ncase{body: parseStmts(body)}
			if len(nc.body) == 1 && nc.body[0].kind == "nop" {
				nc.body = nil
			}
			if label != "default" {
				nc.labels = splitTop(label, ",")
			}
			st.cases = append(st.cases, nc)
		}
		return st
	case strings.HasPrefix(s, "for("), strings.HasPrefix(s, "range("):
		open := strings.Index(s, "(")
		ce := matchClose(s, open)
		if ce < 0 || ce+1 >= len(s) || s[ce+1] != '{' {
			break
		}
		be := matchClose(s, ce+1)
		if be != len(s)-1 {
			break
		}
		return &nstmt{kind: s[:open], a: s[open+1 : ce], then: parseStmts(s[ce+2 : be])}
	case strings.HasPrefix(s, "def("), strings.HasPrefix(s, "let("), strings.HasPrefix(s, "set("):
		if matchClose(s, 3) != len(s)-1 {
			break
		}
		inner := s[4 : len(s)-1]
		// operator: first top-level '=' possibly preceded by an arithmetic operator
		i := topIndex(inner, '=')
		if i <= 0 {
			break
		}
		// skip ==, <=, >=, != inside expressions: the assignment operator is the first top-level '=' not part of those
		for i > 0 && i+1 < len(inner) && (inner[i+1] == '=' || inner[i-1] == '=' || inner[i-1] == '!' || inner[i-1] == '<' || inner[i-1] == '>') {
			j := topIndex(inner[i+2:], '=')
			if j < 0 {
				i = -1
				break
			}
			i = i + 2 + j
		}
		if i <= 0 {
			break
		}
		op := "="
		lhs := inner[:i]
		if strings.ContainsAny(lhs[len(lhs)-1:], "+-*/&|^%") {
			op = lhs[len(lhs)-1:] + "="
			lhs = lhs[:len(lhs)-1]
			if strings.HasSuffix(lhs, "&") && op == "^=" { // &^=
				lhs = lhs[:len(lhs)-1]
				op = "&^="
			}
			if (strings.HasSuffix(lhs, "<") && op == "<=") || (strings.HasSuffix(lhs, ">") && op == ">=") { // <<= >>=
				op = lhs[len(lhs)-1:] + op
				lhs = lhs[:len(lhs)-1]
			}
		}
		return &nstmt{kind: s[:3], a: lhs, b: inner[i+1:], c: op}
	case strings.HasPrefix(s, "++("), strings.HasPrefix(s, "--("):
		if matchClose(s, 2) == len(s)-1 {
			k := "inc"
			if s[0] == '-' {
				k = "dec"
			}
			return &nstmt{kind: k, a: s[3 : len(s)-1]}
		}
	}
	return &nstmt{kind: "raw", a: s}
}

func topIndex(s string, ch byte) int {
	depth := 0
	for i := 0; i < len(s); i++ {
		switch s[i] {
		case '(', '{', '[':
			depth++
		case ')', '}', ']':
			depth--
		}
		if depth == 0 && s[i] == ch {
			// the colon of the prefixes ?pure: ext: callfield: belongs to the expression, it is not a separator
			if ch == ':' {
				skip := false
				for _, pre := range []string{"?pure", "ext", "callfield"} {
					if strings.HasSuffix(s[:i], pre) {
						k := i - len(pre) - 1
						if k < 0 || !(s[k] == '$' || s[k] == '_' || s[k] == '.' || (s[k] >= '0' && s[k] <= '9') || (s[k] >= 'a' && s[k] <= 'z') || (s[k] >= 'A' && s[k] <= 'Z')) {
							skip = true
						}
					}
				}
				if skip {
					continue
				}
			}
			return i
		}
	}
	return -1
}

func printStmts(list []*nstmt) string {
	var parts []string
	for _, s := range list {
		parts = append(parts, printStmt(s))
	}
	return strings.Join(parts, "; ")
}

func printStmt(s *nstmt) string {
	switch s.kind {
	case "if":
		str := "if(" + s.a + "){" + printStmts(s.then) + "}"
		if s.els != nil {
			str += "else{" + printStmts(s.els) + "}"
		}
		return str
	case "switch":
		var cs []string
		for _, c := range s.cases {
			label := "default"
			if c.labels != nil {
				label = strings.Join(c.labels, ",")
			}
			body := printStmts(c.body)
			if body == "" {
				body = "nop"
			}
			cs = append(cs, label+":"+body)
		}
		return "switch(" + s.a + "){" + strings.Join(cs, " | ") + "}"
	case "for", "range":
		return s.kind + "(" + s.a + "){" + printStmts(s.then) + "}"
	case "def", "let", "set":
		return s.kind + "(" + s.a + s.c + s.b + ")"
	case "inc":
		return "++(" + s.a + ")"
	case "dec":
		return "--(" + s.a + ")"
	case "raw":
		return s.a
	}
	return s.kind
}

var varRe = regexp.MustCompile(`\$v\d+`)
var identRe = regexp.MustCompile(`[A-Za-z_][A-Za-z0-9_]*`)

// leaves: the statement list always ends by leaving the function (return / reject, or an if/else both of whose branches leave).
func leaves(list []*nstmt) bool {
	if len(list) == 0 {
		return false
	}
	last := list[len(list)-1]
	switch last.kind {
	case "return", "reject":
		return true
	case "if":
		return last.els != nil && leaves(last.then) && leaves(last.els)
	}
	return false
}

func negate(c string) (string, bool) {
	c = strings.TrimSpace(c)
	// only negate simple conditions (no top-level && or ||)
	if len(splitTop(c, "&&")) > 1 || len(splitTop(c, "||")) > 1 {
		return "", false
	}
	if strings.HasPrefix(c, "!") {
		return c[1:], true
	}
	// emptiness tests: len(x)==0 <-> len(x)>0
	if strings.HasPrefix(c, "?pure:len(") {
		if e := matchClose(c, len("?pure:len")); e > 0 {
			switch c[e+1:] {
			case "==0":
				return c[:e+1] + ">0", true
			case ">0", "!=0":
				return c[:e+1] + "==0", true
			}
		}
	}
	// relational operators (integer operands in the summaries): a<b <-> a>=b, a>b <-> a<=b
	for _, pr := range [][2]string{{"<=", ">"}, {">=", "<"}} {
		if parts := splitTop(c, pr[0]); len(parts) == 2 {
			return parts[0] + pr[1] + parts[1], true
		}
	}
	if !strings.Contains(c, "<<") && !strings.Contains(c, ">>") && !strings.Contains(c, "->") {
		for _, pr := range [][2]string{{"<", ">="}, {">", "<="}} {
			if parts := splitTop(c, pr[0]); len(parts) == 2 {
				return parts[0] + pr[1] + parts[1], true
			}
		}
	}
	for _, pr := range [][2]string{{"!=", "=="}, {"==", "!="}} {
		if parts := splitTop(c, pr[0]); len(parts) == 2 {
			return parts[0] + pr[1] + parts[1], true
		}
	}
	return "!" + c, true
}

// negative: the condition is in negative polarity (leading !, or a != comparison).
func negative(c string) bool {
	c = strings.TrimSpace(c)
	if len(splitTop(c, "&&")) > 1 || len(splitTop(c, "||")) > 1 {
		return false
	}
	if strings.HasPrefix(c, "!") {
		return true
	}
	if strings.HasPrefix(c, "?pure:len(") {
		if e := matchClose(c, len("?pure:len")); e > 0 && e+1 < len(c) {
			return c[e+1:] == "==0"
		}
	}
	return len(splitTop(c, "!=")) == 2
}

// normLenCond writes the non-emptiness test in one way: len(x)!=0 -> len(x)>0.
func normLenCond(c string) string {
	c = strings.TrimSpace(c)
	if strings.HasPrefix(c, "?pure:len(") {
		if e := matchClose(c, len("?pure:len")); e > 0 && c[e+1:] == "!=0" {
			return c[:e+1] + ">0"
		}
	}
	return c
}

func isPureExpr(e string) bool {
	// calls other than ?pure:… are impure; our renderings mark module/ctx calls by a name followed by "("
	tmp := strings.ReplaceAll(e, "?pure:", "")
	for _, m := range regexp.MustCompile(`([A-Za-z_][A-Za-z0-9_./*()]*)\(`).FindAllStringSubmatch(tmp, -1) {
		name := m[1]
		switch name {
		case "len", "cap", "conv", "append", "string", "uint64", "int64", "int", "uint", "byte", "uint8", "uint16", "uint32", "int8", "int16", "int32", "float64", "float32", "min", "max":
			continue
		}
		return false
	}
	return !strings.Contains(e, "?call") && !strings.Contains(e, "callfield:")
}

func mentionsPath(e string) []string {
	// field paths read by the expression: $x.a.b  (also indexed)
	return regexp.MustCompile(`\$[A-Za-z_][A-Za-z0-9_]*(?:\.[A-Za-z_][A-Za-z0-9_]*)+`).FindAllString(e, -1)
}

func stmtWrites(s *nstmt) []string {
	switch s.kind {
	case "set", "let", "def":
		return []string{s.a}
	case "inc", "dec":
		return []string{s.a}
	}
	return nil
}

func hasImpureCall(s *nstmt) bool {
	switch s.kind {
	case "raw":
		return !isPureExpr(s.a) || strings.Contains(s.a, "(")
	case "if":
		if !isPureExpr(s.a) {
			return true
		}
		for _, x := range append(append([]*nstmt{}, s.then...), s.els...) {
			if hasImpureCall(x) {
				return true
			}
		}
	case "switch":
		for _, c := range s.cases {
			for _, x := range c.body {
				if hasImpureCall(x) {
					return true
				}
			}
		}
		return !isPureExpr(s.a)
	case "for", "range":
		return true
	case "def", "let", "set":
		return !isPureExpr(s.b)
	}
	return false
}

func replaceVar(s, v, e string) string {
	return regexp.MustCompile(regexp.QuoteMeta(v)+`\b`).ReplaceAllStringFunc(s, func(string) string { return e })
}

func substStmt(s *nstmt, v, e string) {
	switch s.kind {
	case "if":
		s.a = replaceVar(s.a, v, e)
		for _, x := range s.then {
			substStmt(x, v, e)
		}
		for _, x := range s.els {
			substStmt(x, v, e)
		}
	case "switch":
		s.a = replaceVar(s.a, v, e)
		for i := range s.cases {
			for j := range s.cases[i].labels {
				s.cases[i].labels[j] = replaceVar(s.cases[i].labels[j], v, e)
			}
			for _, x := range s.cases[i].body {
				substStmt(x, v, e)
			}
		}
	case "for", "range":
		s.a = replaceVar(s.a, v, e)
		for _, x := range s.then {
			substStmt(x, v, e)
		}
	default:
		s.a = replaceVar(s.a, v, e)
		s.b = replaceVar(s.b, v, e)
	}
}

func usesVar(s *nstmt, v string) bool {
	return strings.Contains(printStmt(s), v) && regexp.MustCompile(regexp.QuoteMeta(v)+`\b`).MatchString(printStmt(s))
}

func assignsVar(list []*nstmt, v string) int {
	n := 0
	var walk func(l []*nstmt)
	walk = func(l []*nstmt) {
		for _, s := range l {
			switch s.kind {
			case "def", "let", "set":
				for _, t := range splitTop(s.a, ",") {
					if t == v {
						n++
					}
				}
			case "inc", "dec":
				if s.a == v {
					n++
				}
			case "if":
				walk(s.then)
				walk(s.els)
			case "switch":
				for _, c := range s.cases {
					walk(c.body)
				}
			case "for", "range":
				if usesVar(&nstmt{kind: "raw", a: s.a}, v) {
					n += 2
				}
				walk(s.then)
			}
		}
	}
	walk(list)
	return n
}

// canonStmts rewrites a statement list in place (returns the new list). atEnd: the list is the tail of a function body.
func canonStmts(list []*nstmt, atEnd bool, all []*nstmt) []*nstmt {
	// 1. nested bodies first
	for _, s := range list {
		switch s.kind {
		case "if":
			s.then = canonStmts(s.then, false, all)
			if s.els != nil {
				s.els = canonStmts(s.els, false, all)
			}
		case "switch":
			for i := range s.cases {
				s.cases[i].body = canonStmts(s.cases[i].body, false, all)
			}
		case "for", "range":
			s.then = canonStmts(loopContinueToIf(s.then), false, all)
		}
	}
	// 2. statement-level rewrites
	var out []*nstmt
	for _, s := range list {
		switch s.kind {
		case "set", "let":
			// x += 1, x = x + 1  ->  ++(x)
			if (s.c == "+=" || s.c == "-=") && s.b == "1" {
				k := "inc"
				if s.c == "-=" {
					k = "dec"
				}
				s = &nstmt{kind: k, a: s.a}
			} else if s.c == "=" && (s.b == s.a+"+1" || s.b == "1+"+s.a) {
				s = &nstmt{kind: "inc", a: s.a}
			} else if s.c == "=" && s.b == s.a+"-1" {
				s = &nstmt{kind: "dec", a: s.a}
			}
		case "switch":
			s = switchToIf(s)
		}
		out = append(out, s)
	}
	list = out
	// 3. if polarity and else flattening
	out = nil
	work := append([]*nstmt{}, list...)
	for i := 0; len(work) > 0; i++ {
		s := work[0]
		work = work[1:]
		if s.kind != "if" {
			out = append(out, s)
			continue
		}
		s.a = normLenCond(s.a)
		if s.els != nil && negative(s.a) {
			if nc, ok := negate(s.a); ok {
				s.a, s.then, s.els = nc, s.els, s.then
			}
		}
		if s.els != nil && len(s.els) == 0 {
			s.els = nil
		}
		if s.els != nil && len(s.then) == 0 {
			if nc, ok := negate(s.a); ok {
				s.a, s.then, s.els = nc, s.els, nil
			}
		}
		// else after a branch that always leaves: flatten
		if s.els != nil && leaves(s.then) {
			els := s.els
			s.els = nil
			out = append(out, s)
			work = append(append([]*nstmt{}, els...), work...) // the flattened statements are themselves flattened
			continue
		}
		if s.els != nil && leaves(s.els) && !leaves(s.then) {
			if nc, ok := negate(s.a); ok {
				then := s.then
				s.a, s.then, s.els = nc, s.els, nil
				out = append(out, s)
				work = append(append([]*nstmt{}, then...), work...)
				continue
			}
		}
		_ = i
		out = append(out, s)
	}
	list = out
	// 4. at the end of a body: if(neg c){A; return}; B  ->  if(c){B; return}; A   (B is followed by the implicit return)
	if atEnd {
		for i, s := range list {
			if s.kind == "if" && s.els == nil && negative(s.a) && leaves(s.then) && i < len(list)-1 {
				rest := list[i+1:]
				simple := true
				for _, x := range rest {
					if x.kind == "if" && leaves(x.then) {
						simple = false // keep chains of guards in their order
					}
				}
				if !simple {
					continue
				}
				if nc, ok := negate(s.a); ok {
					then := s.then
					// drop a trailing bare return of the old then-branch: it becomes the implicit end
					if len(then) > 0 && then[len(then)-1].kind == "return" {
						then = then[:len(then)-1]
					}
					newThen := append(append([]*nstmt{}, rest...), &nstmt{kind: "return"})
					if leaves(rest) {
						newThen = append([]*nstmt{}, rest...)
					}
					s.a, s.then = nc, newThen
					list = append(append(append([]*nstmt{}, list[:i]...), s), then...)
				}
				break
			}
		}
		// a trailing bare return is the implicit end
		if len(list) > 0 && list[len(list)-1].kind == "return" {
			list = list[:len(list)-1]
		}
	}
	return list
}

func switchToIf(s *nstmt) *nstmt {
	var chain, cur *nstmt
	var def []*nstmt
	hasDef := false
	for _, c := range s.cases {
		if c.labels == nil {
			def, hasDef = c.body, true
			continue
		}
		var conds []string
		for _, l := range c.labels {
			if s.a == "" {
				conds = append(conds, l)
			} else {
				conds = append(conds, s.a+"=="+l)
			}
		}
		if s.a != "" {
			sort.Strings(conds)
		}
		n := &nstmt{kind: "if", a: strings.Join(conds, "||"), then: c.body}
		if chain == nil {
			chain, cur = n, n
		} else {
			cur.els = []*nstmt{n}
			cur = n
		}
	}
	if chain == nil {
		if hasDef && len(def) > 0 {
			return &nstmt{kind: "if", a: "true", then: def}
		}
		return &nstmt{kind: "nop"}
	}
	if hasDef && len(def) > 0 {
		cur.els = def
	}
	return chain
}

// inlineDefs substitutes pure single-assignment locals.
func inlineDefs(list []*nstmt, whole []*nstmt) []*nstmt {
	changed := true
	for changed {
		changed = false
		for i, s := range list {
			if s.kind != "def" || s.c != "=" || !varRe.MatchString(s.a) || varRe.FindString(s.a) != s.a {
				continue
			}
			v, e := s.a, s.b
			if !isPureExpr(e) || assignsVar(whole, v) != 1 {
				continue
			}
			paths := mentionsPath(e)
			// every use of v must come before anything that could change the value of e (a store to a path e reads, or a
			// call with unknown effects when e reads a field)
			ok, _ := safeUses(list[i+1:], v, paths, false)
			if !ok {
				continue
			}
			if !usesVarDeep(list[i+1:], v) {
				continue // unused: leave as is
			}
			wrapped := e
			for _, t := range list[i+1:] {
				substStmt(t, v, wrapped)
			}
			list = append(append([]*nstmt{}, list[:i]...), list[i+1:]...)
			changed = true
			break
		}
	}
	for _, s := range list {
		switch s.kind {
		case "if":
			s.then = inlineDefs(s.then, whole)
			if s.els != nil {
				s.els = inlineDefs(s.els, whole)
			}
		case "switch":
			for k := range s.cases {
				s.cases[k].body = inlineDefs(s.cases[k].body, whole)
			}
		case "for", "range":
			s.then = inlineDefs(s.then, whole)
		}
	}
	return list
}

func nested(s *nstmt) bool {
	return s.kind == "if" || s.kind == "switch" || s.kind == "for" || s.kind == "range"
}

func stmtWritesAny(s *nstmt, paths []string) bool {
	for _, w := range stmtWrites(s) {
		for _, pth := range paths {
			if strings.HasPrefix(pth, w) || strings.HasPrefix(w, pth) {
				return true
			}
		}
	}
	return false
}

func writesNested(s *nstmt, paths []string) bool {
	found := false
	var walk func(l []*nstmt)
	walk = func(l []*nstmt) {
		for _, x := range l {
			if stmtWritesAny(x, paths) {
				found = true
			}
			walk(x.then)
			walk(x.els)
			for _, c := range x.cases {
				walk(c.body)
			}
		}
	}
	walk(s.then)
	walk(s.els)
	for _, c := range s.cases {
		walk(c.body)
	}
	return found
}

func usesVarDeep(list []*nstmt, v string) bool {
	for _, s := range list {
		if usesVar(s, v) {
			return true
		}
	}
	return false
}

// constValues: numeric constants of the module by name (filled by the loader of the rules; ambiguous names are dropped).
var constValues = map[string]string{}

var numConvRe = regexp.MustCompile(`(^|[^A-Za-z0-9_.$:])(?:u?int(?:8|16|32|64)?|uintptr|float(?:32|64)|byte|rune)\(`)

func canonEffect(summary string) string {
	if summary == "" || strings.HasPrefix(summary, "?nobody") {
		return summary
	}
	// numeric conversions are written in one way whatever position they were rendered in
	summary = numConvRe.ReplaceAllString(summary, "${1}?pure:conv(")
	list := parseStmts(summary)
	list = expandHelpers(list, 0)
	// helper locals become ordinary locals
	tmp := printStmts(list)
	tmp = regexp.MustCompile(`\$h\d[A-Za-z_]+(\d+)`).ReplaceAllStringFunc(tmp, func(v string) string {
		return "$v9" + regexp.MustCompile(`\D`).ReplaceAllString(v[2:], "")
	})
	list = parseStmts(tmp)
	list = inlineDefs(list, list)
	list = canonStmts(list, true, list)
	out := printStmts(list)
	if out == "" {
		out = "nop"
	}
	// constants by value
	if len(constValues) > 0 {
		out = identRe.ReplaceAllStringFunc(out, func(id string) string {
			if v, ok := constValues[id]; ok {
				return v
			}
			return id
		})
	}
	// renumber locals
	seen := map[string]string{}
	out = varRe.ReplaceAllStringFunc(out, func(v string) string {
		if n, ok := seen[v]; ok {
			return n
		}
		n := fmt.Sprintf("$w%d", len(seen)+1)
		seen[v] = n
		return n
	})
	return strings.ReplaceAll(out, "$w", "$v")
}

// sameEffect compares two summaries up to the canonical form.
func sameEffect(got string, want []string) bool {
	cg := canonEffect(got)
	for _, w := range want {
		if w == got || canonEffect(w) == cg {
			return true
		}
	}
	return false
}

// safeUses walks statements in execution order. hazard: something that may have changed the value of the inlined
// expression has already happened. Returns ok=false when v is used after a hazard; hazardAfter for the caller.
func safeUses(list []*nstmt, v string, paths []string, hazard bool) (bool, bool) {
	for _, t := range list {
		switch t.kind {
		case "if":
			if usesVar(&nstmt{kind: "raw", a: t.a}, v) && hazard {
				return false, hazard
			}
			if len(paths) > 0 && !isPureExpr(t.a) {
				hazard = true
			}
			ok1, h1 := safeUses(t.then, v, paths, hazard)
			ok2, h2 := safeUses(t.els, v, paths, hazard)
			if !ok1 || !ok2 {
				return false, hazard
			}
			hazard = h1 || h2
		case "switch":
			if usesVar(&nstmt{kind: "raw", a: t.a}, v) && hazard {
				return false, hazard
			}
			h := hazard
			for _, c := range t.cases {
				okc, hc := safeUses(c.body, v, paths, hazard)
				if !okc {
					return false, hazard
				}
				h = h || hc
			}
			hazard = h
		case "for", "range":
			// a loop: any hazard in the body reaches every use in the body
			_, hb := safeUses(t.then, v, paths, false)
			if usesVar(t, v) && (hazard || hb || (len(paths) > 0 && !isPureExpr(t.a))) {
				return false, hazard
			}
			hazard = hazard || hb
		default:
			if usesVar(t, v) && hazard {
				return false, hazard
			}
			if stmtWritesAny(t, paths) {
				hazard = true
			}
			if len(paths) > 0 && hasImpureCall(t) {
				hazard = true
			}
		}
	}
	return true, hazard
}

// ---------------------------------------------------------------------------------------------
// Helper expansion. Small unexported Context helpers are an implementation detail: a maintainer may inline one into its
// caller or extract a new one. Extracted (unknown) helpers are inlined by the extractor (effects.go); for the known
// ones both the extracted summary and the reference are expanded with the helper's reference body before they are
// compared, so `ctx.validateArrayTotalByteCount(a,b)` and its inlined body are the same thing.

// parameter names of the unexported Context helpers on the reference tree (the reference bodies in contextSpec use them)
var ctxHelperParams = map[string][]string{
	"beginContainer":              {"rule", "dataType", "expectedObjectCount"},
	"endContainerLike":            {"notifyParent"},
	"addRecordType":               {"id", "objectCount"},
	"validateArrayTotalByteCount": {"byteCount", "maxByteCount"},
	"markUpcomingChunkByteCount":  {"byteCount"},
}

// expression helpers: name -> expression they return
var ctxExprHelpers = map[string]string{
	"areRecordTypesAllowed": "?pure:len($_this.stack)==0",
}

var helperCallRe = regexp.MustCompile(`^ctx\.([a-z][A-Za-z0-9_]*)\((.*)\)$`)

func expandHelpers(list []*nstmt, depth int) []*nstmt {
	var out []*nstmt
	for _, s := range list {
		switch s.kind {
		case "if":
			s.a = expandExprHelpers(s.a)
			s.then = expandHelpers(s.then, depth)
			if s.els != nil {
				s.els = expandHelpers(s.els, depth)
			}
		case "switch":
			for i := range s.cases {
				s.cases[i].body = expandHelpers(s.cases[i].body, depth)
			}
		case "for", "range":
			s.then = expandHelpers(s.then, depth)
		case "raw":
			if m := helperCallRe.FindStringSubmatch(s.a); m != nil && depth < 3 {
				params, known := ctxHelperParams[m[1]]
				bodies := contextSpec[m[1]]
				if known && len(bodies) > 0 && !strings.Contains(strings.TrimSuffix(bodies[0], "; return"), "return") {
					args := splitTop(m[2], ",")
					if m[2] == "" {
						args = nil
					}
					if len(args) == len(params) {
						body := strings.TrimSuffix(bodies[0], "; return")
						// keep the helper's locals apart from the caller's
						body = varRe.ReplaceAllStringFunc(body, func(v string) string { return "$h" + fmt.Sprint(depth) + m[1] + v[2:] })
						for i, pn := range params {
							body = regexp.MustCompile(`\$`+regexp.QuoteMeta(pn)+`\b`).ReplaceAllStringFunc(body, func(string) string { return "\x00" + fmt.Sprint(i) + "\x01" })
						}
						for i := range params {
							body = strings.ReplaceAll(body, "\x00"+fmt.Sprint(i)+"\x01", args[i])
						}
						out = append(out, expandHelpers(parseStmts(body), depth+1)...)
						continue
					}
				}
			}
		}
		out = append(out, s)
	}
	return out
}

func expandExprHelpers(c string) string {
	for name, expr := range ctxExprHelpers {
		c = strings.ReplaceAll(c, "!ctx."+name+"()", "!("+expr+")")
		c = strings.ReplaceAll(c, "ctx."+name+"()", "("+expr+")")
	}
	// !(a==b) -> a!=b ; !(a!=b) -> a==b ; (a==b) -> a==b when it is the whole condition
	for {
		changed := false
		if strings.HasPrefix(c, "!(") && matchClose(c, 1) == len(c)-1 {
			if n, ok := negate(c[2 : len(c)-1]); ok {
				c, changed = n, true
			}
		} else if strings.HasPrefix(c, "(") && matchClose(c, 0) == len(c)-1 {
			c, changed = c[1:len(c)-1], true
		}
		if !changed {
			break
		}
	}
	return c
}

// loopContinueToIf: in a loop body, `if(c){continue}; rest` runs rest exactly when c is false: it is rewritten
// to `if(!c){rest}` (only for a condition that can be negated and when rest holds no further continue/break games
// at this level - the rewrite is applied from the last such guard backwards).
func loopContinueToIf(body []*nstmt) []*nstmt {
	for i := len(body) - 1; i >= 0; i-- {
		s := body[i]
		if s.kind != "if" || s.els != nil || len(s.then) != 1 || s.then[0].kind != "continue" {
			continue
		}
		nc, ok := negate(s.a)
		if !ok {
			continue
		}
		rest := append([]*nstmt{}, body[i+1:]...)
		if len(rest) == 0 {
			if isPureExpr(s.a) {
				body = body[:i] // `if(c){continue}` at the very end of the body does nothing
			}
			continue
		}
		body = append(append([]*nstmt{}, body[:i]...), &nstmt{kind: "if", a: nc, then: rest})
	}
	return body
}
