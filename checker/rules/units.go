package rules

// E4 (unit instance): element counts vs byte counts. Chunk lengths announced by OnArrayChunk are ELEMENT counts,
// the data delivered by OnArrayData is measured in BYTES. The analysis tags parameters, locals and struct fields
// with a unit, propagates tags through assignments and module calls, and reports arithmetic or comparison between
// an element-count value and a byte-count value (8-bit string contexts, where the two coincide, are exempt by name).

import (
	"fmt"
	"go/ast"
	"go/token"
	"go/types"
	"strings"

	"verif/checker/core"
)

type unitEnv struct {
	p     *core.Program
	unit  map[types.Object]string // "E" elements, "B" bytes
	bytes map[types.Object]bool   // []byte values whose len() is a byte count of array data
}

func (u *unitEnv) exprUnit(info *types.Info, e ast.Expr) string {
	e = stripConv(info, e)
	switch x := e.(type) {
	case *ast.Ident:
		return u.unit[info.ObjectOf(x)]
	case *ast.SelectorExpr:
		if fld := fieldOf(info, x); fld != nil {
			return u.unit[fld]
		}
	case *ast.CallExpr:
		if id, ok := x.Fun.(*ast.Ident); ok && id.Name == "len" && len(x.Args) == 1 {
			if o := objOf(info, stripParens(x.Args[0])); o != nil && u.bytes[o] {
				return "B"
			}
			if fld := fieldOf(info, x.Args[0]); fld != nil && u.bytes[fld] {
				return "B"
			}
			return ""
		}
		if cal := callee(info, x); cal != nil {
			switch cal.Name() {
			case "ElementCountToByteCount":
				return "B"
			case "ByteCountToElementCount":
				return "E"
			}
		}
	case *ast.BinaryExpr:
		l, r := u.exprUnit(info, x.X), u.exprUnit(info, x.Y)
		widthish := func(e ast.Expr) bool {
			s := exprStr(e)
			return strings.Contains(s, "ByteWidth") || strings.Contains(s, "elemWidth") || strings.Contains(s, "ElementSize") || strings.Contains(s, "byteWidth")
		}
		switch x.Op {
		case token.QUO:
			if l == "B" && widthish(x.Y) {
				return "E"
			}
		case token.MUL:
			if l == "E" && widthish(x.Y) {
				return "B"
			}
			if r == "E" && widthish(x.X) {
				return "B"
			}
		case token.ADD, token.SUB:
			if l != "" && (r == "" || r == l) {
				return l
			}
			if r != "" && l == "" {
				return r
			}
		}
	}
	return ""
}

// checkUnits runs the analysis over the given packages and reports mixing under the rule id.
func checkUnits(r *core.Run, p *core.Program, rule string, rels ...string) {
	u := &unitEnv{p: p, unit: map[types.Object]string{}, bytes: map[types.Object]bool{}}
	iface := p.LookupType("ce/events", "DataEventReceiver")
	it := iface.Type().Underlying().(*types.Interface)
	// seeds: every implementation of OnArrayChunk / OnArrayData / OnArray in the module
	for _, pkg := range p.Pkgs {
		for _, f := range funcsOf(pkg) {
			rn := recvNamed(f.Obj)
			if rn == nil || !types.Implements(types.NewPointer(rn), it) {
				continue
			}
			sig := f.Obj.Type().(*types.Signature)
			switch f.Decl.Name.Name {
			case "OnArrayChunk":
				u.unit[sig.Params().At(0)] = "E"
			case "OnArrayData":
				u.bytes[sig.Params().At(0)] = true
			case "OnArray":
				u.unit[sig.Params().At(1)] = "E"
				u.bytes[sig.Params().At(2)] = true
			}
		}
	}
	// EventRule methods of the validator have the same parameter meaning
	if er := p.LookupType("rules", "EventRule"); er != nil {
		eit := er.Type().Underlying().(*types.Interface)
		for _, f := range funcsOf(p.Pkg("rules")) {
			rn := recvNamed(f.Obj)
			if rn == nil || !types.Implements(types.NewPointer(rn), eit) {
				continue
			}
			sig := f.Obj.Type().(*types.Signature)
			switch f.Decl.Name.Name {
			case "OnArrayChunk":
				u.unit[sig.Params().At(1)] = "E"
			case "OnArrayData":
				u.bytes[sig.Params().At(1)] = true
			case "OnArray":
				u.unit[sig.Params().At(2)] = "E"
				u.bytes[sig.Params().At(3)] = true
			}
		}
	}
	// declared units: parameters and struct fields whose names say what they count
	nameUnit := func(n string) string {
		ln := strings.ToLower(n)
		switch {
		case strings.Contains(ln, "bytecount") || strings.Contains(ln, "bytelength"):
			return "B"
		case strings.Contains(ln, "elementcount") || strings.Contains(ln, "elemcount") || strings.Contains(ln, "chunkelements"):
			return "E"
		}
		return ""
	}
	for _, rel := range rels {
		pkg := p.Pkg(rel)
		for _, f := range funcsOf(pkg) {
			sig := f.Obj.Type().(*types.Signature)
			for i := 0; i < sig.Params().Len(); i++ {
				if un := nameUnit(sig.Params().At(i).Name()); un != "" {
					if b, ok := sig.Params().At(i).Type().Underlying().(*types.Basic); ok && b.Info()&types.IsInteger != 0 {
						u.unit[sig.Params().At(i)] = un
					}
				}
			}
		}
		for _, name := range pkg.Types.Scope().Names() {
			if tn, ok := pkg.Types.Scope().Lookup(name).(*types.TypeName); ok {
				if st, ok := tn.Type().Underlying().(*types.Struct); ok {
					for i := 0; i < st.NumFields(); i++ {
						if un := nameUnit(st.Field(i).Name()); un != "" {
							if b, ok := st.Field(i).Type().Underlying().(*types.Basic); ok && b.Info()&types.IsInteger != 0 {
								u.unit[st.Field(i)] = un
							}
						}
					}
				}
			}
		}
	}
	exempt := func(f *fn) bool {
		n := f.Decl.Name.Name
		return strings.Contains(n, "String") || strings.Contains(n, "Stringlike")
	}
	var pkgs []string
	pkgs = append(pkgs, rels...)
	// propagation to fixpoint
	for iter := 0; iter < 5; iter++ {
		for _, rel := range pkgs {
			pkg := p.Pkg(rel)
			info := pkg.TypesInfo
			for _, f := range funcsOf(pkg) {
				if exempt(f) {
					continue
				}
				ast.Inspect(f.Decl.Body, func(n ast.Node) bool {
					switch s := n.(type) {
					case *ast.AssignStmt:
						if len(s.Lhs) == len(s.Rhs) && (s.Tok == token.ASSIGN || s.Tok == token.DEFINE) {
							for i, l := range s.Lhs {
								un := u.exprUnit(info, s.Rhs[i])
								var lo types.Object
								if fld := fieldOf(info, l); fld != nil {
									lo = fld
								} else {
									lo = objOf(info, l)
								}
								if lo == nil {
									continue
								}
								if un != "" && u.unit[lo] == "" {
									u.unit[lo] = un
								}
								// byte slices: x = data / x = append(x, data...)
								if ro := objOf(info, stripParens(s.Rhs[i])); ro != nil && u.bytes[ro] {
									u.bytes[lo] = true
								}
								if c, ok := s.Rhs[i].(*ast.CallExpr); ok {
									if id, ok := c.Fun.(*ast.Ident); ok && id.Name == "append" && len(c.Args) >= 2 {
										if ro := objOf(info, stripParens(c.Args[1])); ro != nil && u.bytes[ro] {
											u.bytes[lo] = true
										}
									}
								}
							}
						}
					case *ast.CallExpr:
						cal := callee(info, s)
						if cal == nil || !core.InModule(cal) {
							return true
						}
						sig := cal.Type().(*types.Signature)
						for i, arg := range s.Args {
							if i >= sig.Params().Len() {
								break
							}
							if cal.Name() == "ElementCountToByteCount" || cal.Name() == "ByteCountToElementCount" {
								break
							}
							par := sig.Params().At(i)
							if un := u.exprUnit(info, arg); un != "" && u.unit[par] == "" {
								u.unit[par] = un
							}
							if ao := objOf(info, stripParens(arg)); ao != nil && u.bytes[ao] {
								u.bytes[par] = true
							}
						}
					}
					return true
				})
			}
		}
	}
	// detection
	nOps, nTagged := 0, 0
	for _, rel := range pkgs {
		pkg := p.Pkg(rel)
		info := pkg.TypesInfo
		for _, f := range funcsOf(pkg) {
			if exempt(f) {
				continue
			}
			report := func(pos token.Pos, what, l, rr string, le, re ast.Expr) {
				r.Fail(rule, fmt.Sprintf("%s|%s %s %s", f.Name(), exprStr(le), what, exprStr(re)), pos,
					fmt.Sprintf("%s is an %s count and %s is a %s count: mixing them without converting by the element width makes arrays whose elements are not 8 bits wide end early, never end, or be measured wrongly",
						exprStr(le), unitName(l), exprStr(re), unitName(rr)))
			}
			ast.Inspect(f.Decl.Body, func(n ast.Node) bool {
				switch s := n.(type) {
				case *ast.BinaryExpr:
					switch s.Op {
					case token.ADD, token.SUB, token.EQL, token.NEQ, token.LSS, token.LEQ, token.GTR, token.GEQ:
						l, rr := u.exprUnit(info, s.X), u.exprUnit(info, s.Y)
						if l != "" && rr != "" {
							nOps++
							if l != rr {
								report(s.Pos(), s.Op.String(), l, rr, s.X, s.Y)
							}
						}
					}
				case *ast.AssignStmt:
					if len(s.Lhs) == 1 && len(s.Rhs) == 1 {
						var l string
						if fld := fieldOf(info, s.Lhs[0]); fld != nil {
							l = u.unit[fld]
						} else if o := objOf(info, s.Lhs[0]); o != nil {
							l = u.unit[o]
						}
						rr := u.exprUnit(info, s.Rhs[0])
						if l != "" && rr != "" {
							nOps++
							if l != rr {
								report(s.Pos(), s.Tok.String(), l, rr, s.Lhs[0], s.Rhs[0])
							}
						}
					}
				case *ast.CallExpr:
					// argument unit vs parameter unit, and the converters' operands
					cal := callee(info, s)
					if cal == nil {
						return true
					}
					if (cal.Name() == "ElementCountToByteCount" || cal.Name() == "ByteCountToElementCount") && len(s.Args) == 2 {
						want := map[string]string{"ElementCountToByteCount": "E", "ByteCountToElementCount": "B"}[cal.Name()]
						if got := u.exprUnit(info, s.Args[1]); got != "" {
							nOps++
							if got != want {
								r.Fail(rule, f.Name()+"|"+cal.Name()+"("+exprStr(s.Args[1])+")", s.Pos(), "the converter is applied to a value that already is a "+unitName(got)+" count")
							}
						}
						return true
					}
					if !core.InModule(cal) {
						return true
					}
					sig := cal.Type().(*types.Signature)
					for i, arg := range s.Args {
						if i >= sig.Params().Len() {
							break
						}
						pu, au := u.unit[sig.Params().At(i)], u.exprUnit(info, arg)
						if pu != "" && au != "" {
							nOps++
							if pu != au {
								r.Fail(rule, fmt.Sprintf("%s|%s(arg %d = %s)", f.Name(), cal.Name(), i, exprStr(arg)), s.Pos(),
									fmt.Sprintf("%s is a %s count but parameter %s of %s is used as a %s count", exprStr(arg), unitName(au), sig.Params().At(i).Name(), cal.Name(), unitName(pu)))
							}
						}
					}
				}
				return true
			})
		}
	}
	for range u.unit {
		nTagged++
	}
	r.Count(rule+" unit-tagged variables and fields", nTagged)
	r.Pass(rule, "units|"+strings.Join(rels, ","), token.NoPos, "")
	r.Floor(rule, "operations whose operands both carry a unit", nOps, 6)
}

func unitName(u string) string {
	if u == "E" {
		return "element"
	}
	return "byte"
}
