package rules

import (
	"fmt"
	"go/ast"
	"go/constant"
	"go/token"
	"go/types"
	"math"
	"path/filepath"
	"regexp"
	"sort"
	"strconv"
	"strings"

	"golang.org/x/tools/go/packages"

	"verif/checker/core"
)

func init() { Registry["C25"] = checkC25 }

// fmtTable is a package-level table of package cte indexed by configuration.CTENumericFormat.
type fmtTable struct {
	Var     *types.Var
	Entries map[int64]string
	Pos     token.Pos
}

func isNumericFormatType(t types.Type) bool {
	return typeIs(t, "configuration", "CTENumericFormat")
}

// numericFormatSettings lists the exported constants of configuration.CTENumericFormat (the values a user can configure).
func numericFormatSettings(p *core.Program) (names []string, vals map[string]int64) {
	vals = map[string]int64{}
	scope := p.Pkg("configuration").Types.Scope()
	for _, n := range scope.Names() {
		c, ok := scope.Lookup(n).(*types.Const)
		if !ok || !c.Exported() || !isNumericFormatType(c.Type()) {
			continue
		}
		v, ok := constant.Int64Val(constant.ToInt(c.Val()))
		if !ok {
			continue
		}
		names = append(names, n)
		vals[n] = v
	}
	sort.Slice(names, func(i, j int) bool { return vals[names[i]] < vals[names[j]] })
	return
}

// formatTables extracts every package-level composite literal of package cte keyed by CTENumericFormat constants.
func formatTables(pkg *packages.Package) map[*types.Var]*fmtTable {
	out := map[*types.Var]*fmtTable{}
	info := pkg.TypesInfo
	for _, file := range pkg.Syntax {
		for _, d := range file.Decls {
			gd, ok := d.(*ast.GenDecl)
			if !ok || gd.Tok != token.VAR {
				continue
			}
			for _, sp := range gd.Specs {
				vs := sp.(*ast.ValueSpec)
				for i, name := range vs.Names {
					if i >= len(vs.Values) {
						continue
					}
					cl, ok := vs.Values[i].(*ast.CompositeLit)
					if !ok || len(cl.Elts) == 0 {
						continue
					}
					t := &fmtTable{Entries: map[int64]string{}, Pos: name.Pos()}
					keyed := true
					for _, e := range cl.Elts {
						kv, ok := e.(*ast.KeyValueExpr)
						if !ok || !isNumericFormatType(info.TypeOf(kv.Key)) {
							keyed = false
							break
						}
						k, ok1 := constInt(info, kv.Key)
						v := constVal(info, kv.Value)
						if !ok1 || v == nil || v.Kind() != constant.String {
							keyed = false
							break
						}
						t.Entries[k] = constant.StringVal(v)
					}
					if !keyed {
						continue
					}
					if v, ok := info.Defs[name].(*types.Var); ok {
						t.Var = v
						out[v] = t
					}
				}
			}
		}
	}
	return out
}

type arrayKind struct {
	Letter string // I U F
	Bits   int
	Name   string // Int16
}

var arrayTypeNameRe = regexp.MustCompile(`^ArrayType(Int|Uint|Float)(8|16|32|64)$`)

// evalFormatCond evaluates a boolean expression over the configured format value v.
func evalFormatCond(info *types.Info, e ast.Expr, v int64) (val int64, isBool bool, b bool, ok bool) {
	e = stripParens(e)
	if c, okc := constInt(info, e); okc {
		return c, false, false, true
	}
	if cv := constVal(info, e); cv != nil && cv.Kind() == constant.Bool {
		return 0, true, constant.BoolVal(cv), true
	}
	switch x := e.(type) {
	case *ast.SelectorExpr, *ast.Ident:
		if isNumericFormatType(info.TypeOf(e)) {
			return v, false, false, true
		}
	case *ast.CallExpr:
		// conversion
		if tv, okt := info.Types[x.Fun]; okt && tv.IsType() && len(x.Args) == 1 {
			return evalFormatCond(info, x.Args[0], v)
		}
	case *ast.UnaryExpr:
		if x.Op == token.NOT {
			_, ib, bb, okk := evalFormatCond(info, x.X, v)
			if okk && ib {
				return 0, true, !bb, true
			}
		}
	case *ast.BinaryExpr:
		lv, lb, lbv, lok := evalFormatCond(info, x.X, v)
		rv, rb, rbv, rok := evalFormatCond(info, x.Y, v)
		if !lok || !rok {
			return 0, false, false, false
		}
		switch x.Op {
		case token.LAND:
			if lb && rb {
				return 0, true, lbv && rbv, true
			}
		case token.LOR:
			if lb && rb {
				return 0, true, lbv || rbv, true
			}
		case token.EQL:
			if !lb && !rb {
				return 0, true, lv == rv, true
			}
		case token.NEQ:
			if !lb && !rb {
				return 0, true, lv != rv, true
			}
		case token.GEQ:
			return 0, true, lv >= rv, true
		case token.GTR:
			return 0, true, lv > rv, true
		case token.LEQ:
			return 0, true, lv <= rv, true
		case token.LSS:
			return 0, true, lv < rv, true
		case token.AND:
			return lv & rv, false, false, true
		case token.OR:
			return lv | rv, false, false, true
		case token.AND_NOT:
			return lv &^ rv, false, false, true
		case token.XOR:
			return lv ^ rv, false, false, true
		case token.SHR:
			return lv >> uint(rv), false, false, true
		}
	}
	return 0, false, false, false
}

// c25Path is what a begin-array method does for one configured format value.
type c25Path struct {
	header      string
	headerOK    bool
	closure     *ast.FuncLit
	formatTable *fmtTable // table the `format` variable was read from (nil if none)
	undecided   string
}

func checkC25(r *core.Run, p *core.Program) {
	r.Rule("C25.complete", "every table of package cte that is indexed by a configured numeric format has a non-empty entry for every format constant a user can configure (decimal, zero-fill flag, binary, octal, hexadecimal, each zero-filled).")
	r.Rule("C25.same-setting", "each begin-array function reads the header, the element format and any format test from one and the same configuration field, and that field is the one named after the array type it serves.")
	r.Rule("C25.header-token", "for every array kind and configured format the header text is a sentence of the CTE lexer's array header token of that same kind and width; the token's pushed mode fixes the base the decoder will read the elements in.")
	r.Rule("C25.render", "for every array kind and configured format the element rendering agrees with the header's mode: integer kinds - the fmt format from the table, applied to boundary elements with the Go type the encoder passes, yields text that an element token of the mode accepts and that strconv, with the base and bit size the decoder's listener uses for that token, reads back as the same element; float kinds - the decimal/prefixed mode is fed by the decimal format writer (sample values round-trip through the mode's tokens) and the no-prefix hexadecimal mode only by the no-prefix hexadecimal writer.")
	r.Rule("C25.nan-kind", "float array elements reach the text writer as a float64 built from the element's bits by a bit-exact constructor (common.Float64FromFloat32Bits / Float64FromFloat16Bits / math.Float64frombits); no writer on the path converts a float32 to float64 with a Go conversion before classifying the NaN kind (the hardware conversion turns a signalling NaN into a quiet one).")
	r.Rule("C25.hex-noprefix", "the no-prefix hexadecimal float writer shortens its output only by a suffix it has tested for exactly (a zero exponent, p+00) and by exactly that suffix's length.")
	r.Rule("C25.chain", "for every typed-array header token: lexer mode, parser alternative, listener method, numeric base handed to strconv and element bit size agree (so what C25.render establishes for a mode is what the decoder does).")
	r.Rule("C25.exact-int-of-float", "in the CTE and CBE encoders a floating-point value is converted to an integer type only behind an exact round-trip test: every use of the converted value lies on a path whose conditions include `float(converted) == original` (a test such as value == math.Trunc(value) admits values beyond the integer range, which the conversion then wraps).")
	checkC25ExactIntOfFloat(r, p)
	r.Rule("C25.cutset", "strings/bytes Trim, TrimLeft and TrimRight are given a SET of characters: a constant cutset that repeats a character (such as \"p+00\") shows that a suffix or prefix was meant, and strips more than that (any run of those characters); such calls do not occur in the encoders and the parser.")
	checkC25Cutset(r, p)
	r.Rule("C25.hex-exponent", "where the text parser decides, for base 16, whether a float element already carries an exponent, it searches for 'p' / 'P' only: a character that is itself a hexadecimal digit (e, E, …) is never taken as the exponent marker of a hexadecimal float.")
	r.NotDecide("exactness of strconv/fmt float text for arbitrary values; NaN payloads")
	checkC25HexExponent(r, p)

	pkg := p.Pkg("cte")
	info := pkg.TypesInfo
	names, vals := numericFormatSettings(p)
	r.Floor("C25.complete", "configurable format constants", len(names), 8)
	tables := formatTables(pkg)
	r.Floor("C25.complete", "tables indexed by the numeric format", len(tables), 16)
	var tvars []*types.Var
	for v := range tables {
		tvars = append(tvars, v)
	}
	sort.Slice(tvars, func(i, j int) bool { return tvars[i].Name() < tvars[j].Name() })
	for _, tv := range tvars {
		t := tables[tv]
		for _, n := range names {
			s, ok := t.Entries[vals[n]]
			r.Check("C25.complete", "cte."+tv.Name()+"["+n+"]", t.Pos, ok && s != "",
				fmt.Sprintf("table %s has no entry for %s (= %d): with that setting the encoder writes an empty header / formats elements with an empty format string", tv.Name(), n, vals[n]))
		}
	}

	g, err := LoadLexerGrammar(p.RepoDir)
	if err != nil {
		r.BrokenF("lexer grammar: %v", err)
		return
	}
	lps := listenerElemParsers(p)
	pr, err := loadParserGrammar(p.RepoDir)
	if err != nil {
		r.BrokenF("parser grammar: %v", err)
		return
	}

	// begin ops: package-level table ArrayType -> method
	type beginOp struct {
		typeName string
		kind     arrayKind
		fn       *fn
	}
	var ops []beginOp
	for _, file := range pkg.Syntax {
		ast.Inspect(file, func(n ast.Node) bool {
			kv, ok := n.(*ast.KeyValueExpr)
			if !ok {
				return true
			}
			ko := objOf(info, kv.Key)
			if ko == nil || !typeIs(ko.Type(), "ce/events", "ArrayType") {
				return true
			}
			m := arrayTypeNameRe.FindStringSubmatch(ko.Name())
			if m == nil {
				return true
			}
			var fo *types.Func
			ast.Inspect(kv.Value, func(x ast.Node) bool {
				if sel, ok := x.(*ast.SelectorExpr); ok {
					if f, ok := info.Uses[sel.Sel].(*types.Func); ok {
						fo = f
					}
				}
				return true
			})
			if fo == nil || p.FuncDecl(fo) == nil {
				return true
			}
			bits, _ := strconv.Atoi(m[2])
			ops = append(ops, beginOp{ko.Name(), arrayKind{map[string]string{"Int": "I", "Uint": "U", "Float": "F"}[m[1]], bits, m[1] + m[2]}, &fn{pkg, p.FuncDecl(fo), fo}})
			return true
		})
	}
	sort.Slice(ops, func(i, j int) bool { return ops[i].typeName < ops[j].typeName })
	r.Floor("C25.same-setting", "numeric array kinds with a begin function", len(ops), 11)

	nCells := 0
	for _, op := range ops {
		body := op.fn.Decl.Body
		// ---- same-setting: every CTENumericFormat-typed field selector in the method
		fields := map[*types.Var][]token.Pos{}
		ast.Inspect(body, func(n ast.Node) bool {
			sel, ok := n.(*ast.SelectorExpr)
			if !ok {
				return true
			}
			if fv := fieldOf(info, sel); fv != nil && isNumericFormatType(fv.Type()) {
				fields[fv] = append(fields[fv], sel.Pos())
			}
			return true
		})
		var fnames []string
		for fv := range fields {
			fnames = append(fnames, fv.Name())
		}
		sort.Strings(fnames)
		okSame := len(fnames) == 1 && fnames[0] == op.kind.Name
		r.Check("C25.same-setting", op.fn.Name()+"|reads only Array."+op.kind.Name, op.fn.Decl.Pos(), okSame,
			fmt.Sprintf("the function serving %s reads the format setting(s) %v: header and element format can then follow different settings (or another kind's setting), so the header announces a base the digits are not written in", op.typeName, fnames))

		for _, sn := range names {
			v := vals[sn]
			nCells++
			cell := op.kind.Name + "/" + sn
			path := c25Walk(info, tables, body, v)
			if path.undecided != "" {
				r.Fail("C25.render", cell+"|path decidable", op.fn.Decl.Pos(), "cannot decide which rendering runs for this setting: "+path.undecided)
				continue
			}
			if !path.headerOK || path.header == "" {
				// reported by C25.complete when the entry is missing
				r.Check("C25.header-token", cell+"|header", op.fn.Decl.Pos(), false, fmt.Sprintf("no header text is written for setting %s (empty or missing table entry)", sn))
				continue
			}
			// header token
			var tok *gRule
			for _, n := range g.Order {
				rr := g.Rules[n]
				if !rr.Fragment && rr.Mode == "MODE_NORMAL" && strings.HasPrefix(n, "ARRAY_TYPE_") && g.Matches(n, path.header) {
					tok = rr
					break
				}
			}
			if tok == nil {
				r.Fail("C25.header-token", cell+"|header", op.fn.Decl.Pos(), fmt.Sprintf("header %q is not a sentence of any array header token of the CTE lexer: the document cannot be read back", path.header))
				continue
			}
			m := arrayHeaderRe.FindStringSubmatch(tok.Name)
			okKind := m != nil && m[1] == op.kind.Letter && m[2] == fmt.Sprint(op.kind.Bits)
			r.Check("C25.header-token", cell+"|header", op.fn.Decl.Pos(), okKind, fmt.Sprintf("header %q is the token %s, which announces a different element kind/width than %s", path.header, tok.Name, op.kind.Name))
			if !okKind {
				continue
			}
			mode := pushedMode(tok)
			// element tokens of the mode with the listener base that applies to each
			type elemTok struct {
				name string
				lp   listenerParse
			}
			var etoks []elemTok
			for _, t := range modeTokens(g, mode) {
				if !strings.Contains(t, "ELEM") {
					continue
				}
				// parser rule that mentions the token
				for _, rn := range sortedKeys(pr) {
					if !strings.HasPrefix(rn, "arrayElem") {
						continue
					}
					for _, id := range pr[rn].Idents {
						if id == t {
							if lp, ok := lps["Exit"+strings.ToUpper(rn[:1])+rn[1:]]; ok {
								etoks = append(etoks, elemTok{t, lp})
							}
						}
					}
				}
			}
			if len(etoks) == 0 {
				r.Fail("C25.render", cell+"|mode has element tokens", op.fn.Decl.Pos(), "no element token with a listener found for lexer mode "+mode)
				continue
			}
			if path.closure == nil {
				r.Fail("C25.render", cell+"|element writer", op.fn.Decl.Pos(), "no element writer (addElementsFunc) is installed on this path")
				continue
			}
			// what does the closure call to render an element?
			var render string
			var fmtArg ast.Expr
			var renderPos token.Pos
			inspectCalls(info, path.closure.Body, func(call *ast.CallExpr, c *types.Func) {
				if c == nil || !isMethodOf(c, "cte", "Writer", c.Name()) {
					return
				}
				switch c.Name() {
				case "WriteFmtNotLF":
					if len(call.Args) == 2 {
						render, fmtArg, renderPos = "fmt", call.Args[1], call.Pos()
					}
				case "WriteFloatUsingFormat", "WriteFloat32UsingFormat":
					render, renderPos = "float-format", call.Pos()
				case "WriteFloatHexNoPrefix":
					render, renderPos = "float-hex-noprefix", call.Pos()
				case "WriteFloat":
					render, renderPos = "float-cte", call.Pos()
				}
			})
			format := ""
			if path.formatTable != nil {
				format = path.formatTable.Entries[v]
			}
			switch op.kind.Letter {
			case "I", "U":
				if render != "fmt" || fmtArg == nil {
					r.Fail("C25.render", cell+"|rendering", op.fn.Decl.Pos(), "integer elements are not rendered through WriteFmtNotLF(format, element): rendering "+render+" cannot be judged")
					continue
				}
				if format == "" {
					r.Fail("C25.render", cell+"|rendering", renderPos, "the element format string for this setting is empty or missing")
					continue
				}
				argT, _ := info.TypeOf(fmtArg).Underlying().(*types.Basic)
				if argT == nil || argT.Info()&types.IsInteger == 0 {
					r.Fail("C25.render", cell+"|rendering", renderPos, "the element handed to the formatter is not an integer: "+exprStr(fmtArg))
					continue
				}
				problem := ""
				for _, pat := range samplePatterns(op.kind.Bits) {
					val := castPattern(pat, op.kind.Bits, argT, pkg.TypesSizes)
					text := fmt.Sprintf(format, val)
					var matched *elemTok
					for i := range etoks {
						if g.Matches(etoks[i].name, text) {
							matched = &etoks[i]
							break
						}
					}
					if matched == nil {
						problem = fmt.Sprintf("element with bits %#x is written as %q (format %q on %s), which no element token of mode %s accepts", pat, text, format, argT.Name(), mode)
						break
					}
					clean := strings.ReplaceAll(text, "_", "")
					base := int(matched.lp.Base)
					if op.kind.Letter == "I" {
						got, err := strconv.ParseInt(clean, base, op.kind.Bits)
						want := signExtend(pat, op.kind.Bits)
						if err != nil || got != want {
							problem = fmt.Sprintf("element %d is written as %q (format %q on %s) under header %q; the decoder reads token %s with base %d and gets %v (err %v)", want, text, format, argT.Name(), path.header, matched.name, base, got, err)
							break
						}
					} else {
						got, err := strconv.ParseUint(clean, base, op.kind.Bits)
						if err != nil || got != pat {
							problem = fmt.Sprintf("element %d is written as %q (format %q on %s) under header %q; the decoder reads token %s with base %d and gets %v (err %v)", pat, text, format, argT.Name(), path.header, matched.name, base, got, err)
							break
						}
					}
				}
				r.Check("C25.render", cell+"|rendering", renderPos, problem == "", problem)
			case "F":
				noPrefixMode := strings.HasSuffix(mode, "_X")
				if why := c25FloatValueExact(info, path.closure, op.kind.Bits); why != "" {
					r.Fail("C25.nan-kind", cell+"|element value is built bit-exactly", renderPos, why)
				} else {
					r.Pass("C25.nan-kind", cell+"|element value is built bit-exactly", renderPos, "")
				}
				switch render {
				case "float-hex-noprefix":
					r.Check("C25.render", cell+"|rendering", renderPos, noPrefixMode,
						fmt.Sprintf("elements are written as hexadecimal floats without prefix but the header %q opens mode %s, which reads decimal or 0x-prefixed floats", path.header, mode))
				case "float-cte":
					r.Check("C25.render", cell+"|rendering", renderPos, !noPrefixMode,
						fmt.Sprintf("elements are written in CTE float notation (0x-prefixed) but the header %q opens the no-prefix hexadecimal mode", path.header))
				case "float-format":
					problem := ""
					if noPrefixMode {
						problem = fmt.Sprintf("elements are written with fmt format %q but the header %q opens the no-prefix hexadecimal mode (a %%x float carries a 0x prefix, other verbs are not hexadecimal)", format, path.header)
					} else if format == "" {
						problem = "the element format string for this setting is empty or missing"
					} else {
						for _, fv := range []float64{0.5, 1.5, -2.25, 3, 1e21, 1.25e-7, 100, 65536} {
							text := fmt.Sprintf(format, fv)
							okTok := false
							for _, et := range etoks {
								if g.Matches(et.name, text) {
									okTok = true
								}
							}
							back, err := strconv.ParseFloat(text, 64)
							if !okTok || err != nil || back != fv {
								problem = fmt.Sprintf("element %v is written as %q (format %q): not a float the mode %s reads back as the same value", fv, text, format, mode)
								break
							}
						}
					}
					r.Check("C25.render", cell+"|rendering", renderPos, problem == "", problem)
				default:
					r.Fail("C25.render", cell+"|rendering", op.fn.Decl.Pos(), "float elements are rendered in an unrecognised way: cannot be judged")
				}
			}
		}
	}
	r.Floor("C25.render", "(array kind, format setting) cells", nCells, 88)
	_ = math.Pi

	c25NanWriters(r, p)
	c25HexNoPrefix(r, p)
	chains := checkArrayReadChain(r, p, "C25.chain")
	r.Floor("C25.chain", "typed-array header tokens", chains, 38)
}

func samplePatterns(bits int) []uint64 {
	max := uint64(1)<<uint(bits) - 1
	if bits == 64 {
		max = math.MaxUint64
	}
	half := uint64(1) << uint(bits-1)
	return []uint64{0, 1, 7, 8, 9, 10, 100, half - 1, half, half + 1, max - 1, max, 0x55 & max, 0xaa & max}
}

func signExtend(pat uint64, bits int) int64 {
	if bits == 64 {
		return int64(pat)
	}
	if pat&(1<<uint(bits-1)) != 0 {
		return int64(pat) - int64(1)<<uint(bits)
	}
	return int64(pat)
}

// castPattern models `T(data[0]) | T(data[1])<<8 | …`: the element's bit pattern, zero-extended into the carrier type T.
func castPattern(pat uint64, bits int, t *types.Basic, sizes types.Sizes) interface{} {
	switch t.Kind() {
	case types.Int8:
		return int8(pat)
	case types.Int16:
		return int16(pat)
	case types.Int32:
		return int32(pat)
	case types.Int64:
		return int64(pat)
	case types.Int:
		return int(int64(pat))
	case types.Uint8:
		return uint8(pat)
	case types.Uint16:
		return uint16(pat)
	case types.Uint32:
		return uint32(pat)
	case types.Uint64:
		return uint64(pat)
	case types.Uint, types.Uintptr:
		return uint(pat)
	}
	return pat
}

// c25Walk follows the statements of a begin-array method for one configured format value.
func c25Walk(info *types.Info, tables map[*types.Var]*fmtTable, body *ast.BlockStmt, v int64) c25Path {
	var path c25Path
	formatVars := map[types.Object]*fmtTable{}
	var walk func(list []ast.Stmt) (returned bool)
	tableOf := func(e ast.Expr) *fmtTable {
		ix, ok := stripParens(e).(*ast.IndexExpr)
		if !ok {
			return nil
		}
		if tv, ok := objOf(info, ix.X).(*types.Var); ok {
			return tables[tv]
		}
		return nil
	}
	walk = func(list []ast.Stmt) bool {
		for _, st := range list {
			switch s := st.(type) {
			case *ast.ReturnStmt:
				return true
			case *ast.IfStmt:
				if s.Init != nil {
					path.undecided = "if statement with an init clause"
					return true
				}
				_, isB, b, ok := evalFormatCond(info, s.Cond, v)
				if !ok || !isB {
					path.undecided = "condition `" + exprStr(s.Cond) + "` is not a test of the configured format"
					return true
				}
				if b {
					if walk(s.Body.List) {
						return true
					}
				} else if s.Else != nil {
					switch e := s.Else.(type) {
					case *ast.BlockStmt:
						if walk(e.List) {
							return true
						}
					case *ast.IfStmt:
						if walk([]ast.Stmt{e}) {
							return true
						}
					}
				}
			case *ast.SwitchStmt:
				path.undecided = "switch statement"
				return true
			case *ast.AssignStmt:
				for i, l := range s.Lhs {
					if i >= len(s.Rhs) {
						break
					}
					if t := tableOf(s.Rhs[i]); t != nil {
						if id, ok := l.(*ast.Ident); ok {
							formatVars[info.ObjectOf(id)] = t
						}
					}
					if fv := fieldOf(info, l); fv != nil && fv.Name() == "addElementsFunc" {
						if fl, ok := s.Rhs[i].(*ast.FuncLit); ok {
							path.closure = fl
							path.formatTable = nil
							ast.Inspect(fl.Body, func(n ast.Node) bool {
								if id, ok := n.(*ast.Ident); ok {
									if t := formatVars[info.ObjectOf(id)]; t != nil {
										path.formatTable = t
									}
								}
								if t := tableOf2(info, tables, n); t != nil {
									path.formatTable = t
								}
								return true
							})
						}
					}
				}
			case *ast.ExprStmt:
				call, ok := s.X.(*ast.CallExpr)
				if !ok {
					continue
				}
				c := callee(info, call)
				if c != nil && (c.Name() == "WriteStringNotLF" || c.Name() == "WriteBytesNotLF") && len(call.Args) == 1 {
					if t := tableOf(call.Args[0]); t != nil {
						path.header, path.headerOK = t.Entries[v]
					} else if cv := constVal(info, call.Args[0]); cv != nil && cv.Kind() == constant.String {
						path.header, path.headerOK = constant.StringVal(cv), true
					} else if id, ok := stripParens(call.Args[0]).(*ast.Ident); ok && formatVars[info.ObjectOf(id)] != nil {
						path.header, path.headerOK = formatVars[info.ObjectOf(id)].Entries[v]
					}
				}
			}
		}
		return false
	}
	walk(body.List)
	return path
}

func tableOf2(info *types.Info, tables map[*types.Var]*fmtTable, n ast.Node) *fmtTable {
	ix, ok := n.(*ast.IndexExpr)
	if !ok {
		return nil
	}
	if tv, ok := objOf(info, ix.X).(*types.Var); ok {
		return tables[tv]
	}
	return nil
}

// c25FloatValueExact: the float handed to the writer inside the element closure must come from a bit-exact constructor.
func c25FloatValueExact(info *types.Info, closure *ast.FuncLit, bits int) string {
	why := "no float writer call found in the element closure"
	inspectCalls(info, closure.Body, func(call *ast.CallExpr, c *types.Func) {
		if c == nil || !isMethodOf(c, "cte", "Writer", c.Name()) || !strings.HasPrefix(c.Name(), "WriteFloat") || len(call.Args) == 0 {
			return
		}
		arg := stripParens(call.Args[0])
		ac, ok := arg.(*ast.CallExpr)
		if !ok {
			why = "the element value " + exprStr(arg) + " is not the direct result of a bit-exact constructor"
			return
		}
		cc := callee(info, ac)
		switch {
		case cc != nil && isFunc(cc, "internal/common", "Float64FromFloat32Bits") && bits == 32,
			cc != nil && isFunc(cc, "internal/common", "Float64FromFloat16Bits") && bits == 16,
			cc != nil && isFunc(cc, "math", "Float64frombits") && bits == 64:
			why = ""
		default:
			why = "the element value is built with " + exprStr(ac.Fun) + ": for a " + fmt.Sprint(bits) + "-bit element only the bit-exact constructor keeps a signalling NaN signalling (a Go float32->float64 conversion quiets it)"
		}
	})
	return why
}

// c25NanWriters: in package cte, a function that classifies the NaN kind must not have widened a float32 with a Go conversion first.
func c25NanWriters(r *core.Run, p *core.Program) {
	pkg := p.Pkg("cte")
	info := pkg.TypesInfo
	a := newAnalysis(p)
	referenced := map[*types.Func]bool{}
	for _, pk := range p.Pkgs {
		for _, g := range funcsOf(pk) {
			for _, h := range a.refs(g.Obj) {
				referenced[h] = true
			}
		}
	}
	n := 0
	for _, f := range funcsOf(pkg) {
		classifies := false
		inspectCalls(info, f.Decl.Body, func(call *ast.CallExpr, c *types.Func) {
			if c != nil && (isFunc(c, "internal/common", "HasQuietNanBitSet64") || isFunc(c, "internal/common", "HasQuietNanBitSet32")) {
				classifies = true
			}
		})
		if !classifies {
			continue
		}
		n++
		var widen ast.Expr
		ast.Inspect(f.Decl.Body, func(nd ast.Node) bool {
			call, ok := nd.(*ast.CallExpr)
			if !ok || len(call.Args) != 1 {
				return true
			}
			tv, ok := info.Types[call.Fun]
			if !ok || !tv.IsType() {
				return true
			}
			to, _ := tv.Type.Underlying().(*types.Basic)
			from, _ := info.TypeOf(call.Args[0]).Underlying().(*types.Basic)
			if to != nil && from != nil && to.Kind() == types.Float64 && from.Kind() == types.Float32 {
				widen = call
			}
			return true
		})
		used := referenced[f.Obj]
		// an unreferenced writer is dead code: report only when something calls it
		r.Check("C25.nan-kind", f.Name()+"|classifies the NaN kind on un-widened bits", f.Decl.Pos(), widen == nil || !used,
			"this writer widens a float32 with a Go conversion and then tests the quiet bit: a signalling NaN has already been quieted by the conversion")
	}
	r.Floor("C25.nan-kind", "writers that classify the NaN kind", n, 3)
}

// c25HexNoPrefix: every shortening of the output of WriteFloatHexNoPrefix is justified by an exact suffix test.
func c25HexNoPrefix(r *core.Run, p *core.Program) {
	f := findFn(p, "cte", "Writer.WriteFloatHexNoPrefix")
	if f == nil {
		r.Undecided("C25.hex-noprefix", "cte.Writer.WriteFloatHexNoPrefix")
		return
	}
	info := f.Pkg.TypesInfo
	n := 0
	var visit func(list []ast.Stmt, guard *ast.IfStmt)
	judge := func(st ast.Stmt, k int64, guard *ast.IfStmt) {
		n++
		why := ""
		if guard == nil {
			why = "the output end is moved back unconditionally"
		} else {
			okc := false
			inspectCalls(info, guard.Cond, func(call *ast.CallExpr, c *types.Func) {
				if c == nil || c.Name() != "HasSuffix" || len(call.Args) != 2 {
					return
				}
				suffix := ""
				ast.Inspect(call.Args[1], func(x ast.Node) bool {
					if e, ok := x.(ast.Expr); ok {
						if cv := constVal(info, e); cv != nil && cv.Kind() == constant.String {
							suffix = constant.StringVal(cv)
						}
					}
					return true
				})
				if m := regexp.MustCompile(`^[pP][+-]?0+$`).MatchString(suffix); m && int64(len(suffix)) == k {
					okc = true
				} else {
					why = fmt.Sprintf("the output is shortened by %d bytes under a test for suffix %q: only an exactly tested zero exponent of that length may be dropped", k, suffix)
				}
			})
			if !okc && why == "" {
				why = fmt.Sprintf("the output is shortened by %d bytes under `%s`, which is not an exact suffix test: exponents such as p+100 or p-200 lose their digits", k, exprStr(guard.Cond))
			}
		}
		r.Check("C25.hex-noprefix", "(*cte.Writer).WriteFloatHexNoPrefix|output shortened only by an exactly tested zero exponent", st.Pos(), why == "", why)
	}
	visit = func(list []ast.Stmt, guard *ast.IfStmt) {
		for _, st := range list {
			switch s := st.(type) {
			case *ast.IfStmt:
				visit(s.Body.List, s)
				if e, ok := s.Else.(*ast.BlockStmt); ok {
					visit(e.List, s)
				}
			case *ast.AssignStmt:
				if len(s.Lhs) == 1 && len(s.Rhs) == 1 {
					id, ok := s.Lhs[0].(*ast.Ident)
					if !ok || id.Name != "end" {
						continue
					}
					if s.Tok == token.SUB_ASSIGN {
						if k, ok := constInt(info, s.Rhs[0]); ok {
							judge(s, k, guard)
						} else {
							judge(s, -1, nil)
						}
					} else if s.Tok == token.ASSIGN {
						if b, ok := s.Rhs[0].(*ast.BinaryExpr); ok && b.Op == token.SUB {
							k, _ := constInt(info, b.Y)
							judge(s, k, guard)
						}
					}
				}
			}
		}
	}
	visit(f.Decl.Body.List, nil)
	r.Count("C25.hex-noprefix output shortenings judged", n)
	if n == 0 {
		r.Pass("C25.hex-noprefix", "(*cte.Writer).WriteFloatHexNoPrefix|output shortened only by an exactly tested zero exponent", f.Decl.Pos(), "no shortening")
	}
}

// checkC25HexExponent: conditions of package cte that combine `base == 16` with a search of the text.
func checkC25HexExponent(r *core.Run, p *core.Program) {
	pkg := p.Pkg("cte")
	info := pkg.TypesInfo
	isHexDigit := func(c rune) bool {
		return (c >= '0' && c <= '9') || (c >= 'a' && c <= 'f') || (c >= 'A' && c <= 'F')
	}
	n := 0
	for _, f := range funcsOf(pkg) {
		// functions that distinguish base 16 (`base == 16`, `case 16:` on an integer)
		base16 := false
		ast.Inspect(f.Decl.Body, func(k ast.Node) bool {
			switch x := k.(type) {
			case *ast.BinaryExpr:
				if x.Op == token.EQL {
					if c, isC := constInt(info, x.Y); isC && c == 16 {
						if b, isB := info.TypeOf(x.X).Underlying().(*types.Basic); isB && b.Info()&types.IsInteger != 0 {
							base16 = true
						}
					}
				}
			case *ast.SwitchStmt:
				if x.Tag != nil {
					if b, isB := info.TypeOf(x.Tag).Underlying().(*types.Basic); isB && b.Info()&types.IsInteger != 0 {
						for _, c := range x.Body.List {
							for _, e := range c.(*ast.CaseClause).List {
								if v, isC := constInt(info, e); isC && v == 16 {
									base16 = true
								}
							}
						}
					}
				}
			}
			return true
		})
		if !base16 {
			continue
		}
		// every search of the text for the exponent marker (a constant containing p or P) in such a function
		inspectCalls(info, f.Decl.Body, func(call *ast.CallExpr, cal *types.Func) {
			if cal == nil || cal.Pkg() == nil || cal.Pkg().Path() != "strings" || len(call.Args) != 2 {
				return
			}
			switch cal.Name() {
			case "Contains", "ContainsRune", "ContainsAny", "Index", "IndexAny", "IndexByte", "IndexRune", "LastIndex", "LastIndexAny", "LastIndexByte":
			default:
				return
			}
			tv, ok := info.Types[call.Args[1]]
			if !ok || tv.Value == nil {
				return
			}
			var chars []rune
			switch tv.Value.Kind() {
			case constant.String:
				chars = []rune(constant.StringVal(tv.Value))
			case constant.Int:
				v, _ := constant.Int64Val(tv.Value)
				chars = []rune{rune(v)}
			}
			isExp := false
			for _, c := range chars {
				if c == 'p' || c == 'P' {
					isExp = true
				}
			}
			if !isExp {
				return
			}
			n++
			bad := ""
			for _, c := range chars {
				if isHexDigit(c) {
					bad += string(c)
				}
			}
			r.Check("C25.hex-exponent", fmt.Sprintf("%s|%s", f.Name(), cal.Name()), call.Pos(), bad == "",
				"the text of a base-16 float is searched for its exponent marker together with "+strconv.Quote(bad)+", which are hexadecimal digits: a hexadecimal float element containing them is taken to have an exponent already and is then rejected or misread")
		})
	}
	r.Floor("C25.hex-exponent", "base-16 exponent searches", n, 1)
}

func checkC25ExactIntOfFloat(r *core.Run, p *core.Program) {
	n := 0
	for _, rel := range []string{"cte", "cbe"} {
		pkg := p.Pkg(rel)
		info := pkg.TypesInfo
		a := newAnalysis(p)
		for _, f := range funcsOf(pkg) {
			if rn := recvNamed(f.Obj); rn != nil && (rn.Obj().Name() == "cteListener" || rn.Obj().Name() == "Reader" || rn.Obj().Name() == "Decoder") {
				continue // decoding side: judged by C24 / C01
			}
			if fname := filepath.Base(p.Pos(f.Decl.Pos())); strings.Contains(fname, "parser") || strings.Contains(fname, "decoder") {
				continue // helpers of the decoding side
			}
			ast.Inspect(f.Decl.Body, func(nd ast.Node) bool {
				call, ok := nd.(*ast.CallExpr)
				if !ok || len(call.Args) != 1 {
					return true
				}
				tv, ok := info.Types[call.Fun]
				if !ok || !tv.IsType() {
					return true
				}
				tb, ok := tv.Type.Underlying().(*types.Basic)
				if !ok || tb.Info()&types.IsInteger == 0 {
					return true
				}
				ab, ok := info.TypeOf(call.Args[0]).Underlying().(*types.Basic)
				if !ok || ab.Info()&types.IsFloat == 0 {
					return true
				}
				if cv := constVal(info, call.Args[0]); cv != nil {
					return true // constant conversion: checked by the compiler
				}
				n++
				orig := exprStr(stripParens(call.Args[0]))
				// the variable that receives the converted value (or the conversion itself when used in place)
				var holder types.Object
				ast.Inspect(f.Decl.Body, func(k ast.Node) bool {
					if as, ok := k.(*ast.AssignStmt); ok {
						for i, rhs := range as.Rhs {
							if stripParens(rhs) == ast.Expr(call) && i < len(as.Lhs) {
								holder = objOf(info, as.Lhs[i])
							}
						}
					}
					return true
				})
				isRoundTrip := func(e ast.Expr) bool {
					be, ok := stripParens(e).(*ast.BinaryExpr)
					if !ok || be.Op != token.EQL {
						return false
					}
					for _, pair := range [][2]ast.Expr{{be.X, be.Y}, {be.Y, be.X}} {
						back, ok := stripParens(pair[0]).(*ast.CallExpr)
						if !ok || len(back.Args) != 1 {
							continue
						}
						btv, ok := info.Types[back.Fun]
						if !ok || !btv.IsType() {
							continue
						}
						if bb, ok := btv.Type.Underlying().(*types.Basic); !ok || bb.Info()&types.IsFloat == 0 {
							continue
						}
						inner := stripParens(back.Args[0])
						sameVal := (holder != nil && objOf(info, inner) == holder) || exprStr(inner) == exprStr(call)
						if sameVal && exprStr(stripParens(pair[1])) == orig {
							return true
						}
					}
					return false
				}
				bad := token.NoPos
				check := func(use ast.Node) {
					conds, pols := pathConds(a, info, f, use)
					// uses inside the guard condition itself are the test
					if impliesAtomValue(info, f, conds, pols, isRoundTrip, true) {
						return
					}
					bad = use.Pos()
				}
				if holder == nil {
					// used in place: the conversion expression itself must be guarded (unless it IS the guard)
					inGuard := false
					ast.Inspect(f.Decl.Body, func(k ast.Node) bool {
						if be, ok := k.(*ast.BinaryExpr); ok && isRoundTrip(be) && be.Pos() <= call.Pos() && call.End() <= be.End() {
							inGuard = true
						}
						return true
					})
					if !inGuard {
						check(call)
					}
				} else {
					ast.Inspect(f.Decl.Body, func(k ast.Node) bool {
						if be, ok := k.(*ast.BinaryExpr); ok && isRoundTrip(be) {
							return false // the guard itself
						}
						if id, ok := k.(*ast.Ident); ok && info.Uses[id] == holder {
							check(id)
						}
						return true
					})
				}
				// negative zero passes the round-trip test (int64(-0.0) == 0 and float64(0) == -0.0) but an integer has
				// no negative zero: the conversion must lie on a path that excludes orig == 0 (or tests the sign bit)
				{
					isZeroTest := func(e ast.Expr) bool {
						be, ok := stripParens(e).(*ast.BinaryExpr)
						if !ok || be.Op != token.EQL {
							return false
						}
						for _, pair := range [][2]ast.Expr{{be.X, be.Y}, {be.Y, be.X}} {
							if exprStr(stripParens(pair[0])) == orig {
								if k, isC := constInt(info, pair[1]); isC && k == 0 {
									return true
								}
								if tv, ok := info.Types[pair[1]]; ok && tv.Value != nil && constant.Sign(tv.Value) == 0 {
									return true
								}
							}
						}
						return false
					}
					conds, pols := pathConds(a, info, f, call)
					zeroExcluded := impliesAtomValue(info, f, conds, pols, isZeroTest, false)
					signTested := false
					ast.Inspect(f.Decl.Body, func(k ast.Node) bool {
						if c, ok := k.(*ast.CallExpr); ok && c.Pos() < call.Pos() {
							if cal := callee(info, c); cal != nil && cal.Name() == "Signbit" && len(c.Args) == 1 && exprStr(stripParens(c.Args[0])) == orig {
								signTested = true
							}
						}
						return true
					})
					r.Check("C25.exact-int-of-float", fmt.Sprintf("%s|%s|negative zero", f.Name(), exprStr(call)), call.Pos(), zeroExcluded || signTested,
						"`"+exprStr(call)+"` is reached with "+orig+" == 0 possible: negative zero passes the exact round-trip test and is then written as the integer 0, which reads back as +0")
				}
				r.Check("C25.exact-int-of-float", fmt.Sprintf("%s|%s", f.Name(), exprStr(call)), posOr(bad, call.Pos()), !bad.IsValid(),
					"the integer obtained with `"+exprStr(call)+"` is used on a path that is not guarded by the exact round-trip test `float("+exprStr(call)+") == "+orig+"`: a value outside the integer range (or with a fraction) is written as a wrapped or truncated integer")
				return true
			})
		}
	}
	r.Floor("C25.exact-int-of-float", "float-to-integer conversions in the encoders", n, 1)
}

func checkC25Cutset(r *core.Run, p *core.Program) {
	n := 0
	for _, rel := range []string{"cte", "cbe", "rules", "builder", "iterator", "internal/common", "conversions"} {
		pkg := p.Pkg(rel)
		info := pkg.TypesInfo
		for _, f := range funcsOf(pkg) {
			inspectCalls(info, f.Decl.Body, func(call *ast.CallExpr, c *types.Func) {
				if c == nil || c.Pkg() == nil || (c.Pkg().Path() != "strings" && c.Pkg().Path() != "bytes") || len(call.Args) != 2 {
					return
				}
				switch c.Name() {
				case "Trim", "TrimLeft", "TrimRight":
				default:
					return
				}
				n++
				cv := constVal(info, call.Args[1])
				if cv == nil || cv.Kind() != constant.String {
					return
				}
				seen := map[rune]bool{}
				rep := false
				for _, ch := range constant.StringVal(cv) {
					if seen[ch] {
						rep = true
					}
					seen[ch] = true
				}
				r.Check("C25.cutset", fmt.Sprintf("%s|%s(%s)", f.Name(), c.Name(), strconv.Quote(constant.StringVal(cv))), call.Pos(), !rep,
					fmt.Sprintf("%s.%s is given the cutset %q, which repeats a character: it removes any run of these characters, not that suffix/prefix - digits that belong to the value are cut off", c.Pkg().Name(), c.Name(), constant.StringVal(cv)))
			})
		}
	}
	r.Pass("C25.cutset", "module|no cutset that repeats a character", token.NoPos, "")
	r.Count("C25.cutset Trim/TrimLeft/TrimRight calls", n)
}
