package rules

import (
	"fmt"
	"go/ast"
	"go/token"
	"go/types"
	"strings"

	"verif/checker/core"
)

func init() { Registry["C23"] = checkC23 }

func checkC23(r *core.Run, p *core.Program) {
	r.Rule("C23.buffer-capacity", "data is copied into the CTE writer's scratch buffer only after the buffer has been made large enough for it: every copy(…Buffer…, src) is preceded, on every path, by ExpandBuffer(len(src)) (or a variable holding len(src)), and its result is not used to shorten what is flushed (copy() silently truncates to the destination's length, so a large string or chunk would lose its tail).")
	checkBufferCapacity(r, p, "C23.buffer-capacity", "cte")
	r.Rule("C23.byte-separators", "a writer that separates the items of its argument itself (WriteHexBytes: `if i > 0 { separator }`) decides `first item` by the index of ONE loop over the whole argument: the index tested belongs to a range/for loop over the function's own slice parameter that is not nested in another loop (an index that restarts per block drops the separator at every block boundary).")
	checkC23ByteSeparators(r, p)
	r.Rule("C23.units", "in the CTE array engine chunk lengths (element counts) and delivered data lengths (byte counts) are never added, subtracted or compared without conversion by the element width.")
	r.Rule("C23.partial-element", "the carry-over of a partial element between data events is exact: the leftover holds strictly less than one element (the `not enough to complete it` test is len(data) < missing, strict), a completed element is emitted and counted once and the leftover emptied, the tail of a data event that does not fill an element (len & (width-1) bytes) goes to the leftover and is cut off the data that is emitted, and an empty data event returns before any output.")
	r.Rule("C23.begin-resets", "every entry point that begins an array in the engine (BeginArray, BeginMedia, BeginCustomText, BeginCustomBinary) calls reset() first, and reset() re-initialises every field the engine modifies while an array is encoded (C16 reset engine).")
	r.Rule("C23.separator", "every element writer installed for a non-string array writes the element separator through writeSpaceIfNotFirstElement immediately before each element it writes (inside its per-element loop, or once per non-empty data event for byte-stream kinds whose writer separates bytes itself), so the separators do not depend on how elements are grouped into data events.")
	r.Rule("C23.whole-string", "string-like array data is only accumulated while data events arrive; every decision that depends on characters (escaping, verbatim choice, UTF-8 decoding) is taken on the completed string in the completion callback - no function reachable from a per-data-event writer decodes or classifies characters (a data event may end inside a character).")
	r.Rule("C23.bit-order", "bit arrays: the encoder prints bit i of each data byte as the i-th character (least significant first) and the parser packs the i-th character into bit i; the count of characters printed for the last partial byte is the remaining element count.")
	r.NotDecide("text equality under re-chunking beyond these structural conditions; decode->encode idempotence of the whole document (layout, number text)")

	pkg := p.Pkg("cte")
	info := pkg.TypesInfo

	// ---- units ------------------------------------------------------------------------------------------
	sub := core.NewRun("C23", r.Tier, r.Seed, r.VerifDir)
	sub.Prog = p
	checkUnits(sub, p, "C23.units", "cte")
	for _, o := range sub.Obls {
		r.CheckAt(o.Rule, o.Construct, o.Pos, o.OK, o.Detail)
	}
	for k, v := range sub.Analysed {
		r.Count(k, v)
	}

	// ---- partial element ----------------------------------------------------------------------------------
	add := findFn(p, "cte", "arrayEncoderEngine.AddArrayData")
	if add == nil {
		r.Undecided("C23.partial-element", "cte.arrayEncoderEngine.AddArrayData")
	} else {
		c23Partial(r, p, add)
	}

	// ---- begin resets --------------------------------------------------------------------------------------
	nBegin := 0
	for _, f := range funcsOf(pkg) {
		rn := recvNamed(f.Obj)
		if rn == nil || rn.Obj().Name() != "arrayEncoderEngine" {
			continue
		}
		name := f.Obj.Name()
		if !(name == "BeginArray" || name == "BeginMedia" || strings.HasPrefix(name, "BeginCustom")) {
			continue
		}
		nBegin++
		first := false
		if len(f.Decl.Body.List) > 0 {
			if es, ok := f.Decl.Body.List[0].(*ast.ExprStmt); ok {
				if call, ok := es.X.(*ast.CallExpr); ok {
					if c := callee(info, call); c != nil && isMethodOf(c, "cte", "arrayEncoderEngine", "reset") {
						first = true
					}
				}
			}
		}
		r.Check("C23.begin-resets", "(*cte.arrayEncoderEngine)."+name+"|reset() first", f.Decl.Pos(), first,
			name+" does not start with reset(): separator state, leftover bytes or the string buffer of the previous array leak into this one (the output then depends on what was encoded before)")
	}
	r.Floor("C23.begin-resets", "array begin entry points", nBegin, 4)
	for _, spec := range resetSpecs {
		if spec.rel == "cte" && spec.typ == "arrayEncoderEngine" {
			checkResetSpec(r, p, "C23.begin-resets", spec)
		}
	}

	// ---- separator / whole-string ------------------------------------------------------------------------------
	a := newAnalysis(p)
	nClos := 0
	for _, f := range funcsOf(pkg) {
		rn := recvNamed(f.Obj)
		if rn == nil || rn.Obj().Name() != "arrayEncoderEngine" {
			continue
		}
		idx := 0
		ast.Inspect(f.Decl.Body, func(n ast.Node) bool {
			as, ok := n.(*ast.AssignStmt)
			if !ok || len(as.Lhs) != 1 || len(as.Rhs) != 1 {
				return true
			}
			fv := fieldOf(info, as.Lhs[0])
			if fv == nil || fv.Name() != "addElementsFunc" {
				return true
			}
			fl, isLit := as.Rhs[0].(*ast.FuncLit)
			if !isLit {
				// a method value / function installed directly as the element writer
				idx++
				nClos++
				key := fmt.Sprintf("%s|element writer #%d", f.Name(), idx)
				var target *types.Func
				if sel, ok := stripParens(as.Rhs[0]).(*ast.SelectorExpr); ok {
					target, _ = info.Uses[sel.Sel].(*types.Func)
				} else if id, ok := stripParens(as.Rhs[0]).(*ast.Ident); ok {
					target, _ = info.Uses[id].(*types.Func)
				}
				if target != nil && isMethodOf(target, "cte", "arrayEncoderEngine", target.Name()) && p.FuncDecl(target) != nil {
					problem := c23Separator(info, &ast.FuncLit{Body: p.FuncDecl(target).Body})
					r.Check("C23.separator", key+" separates every element", as.Pos(), problem == "", problem)
				} else {
					r.Fail("C23.separator", key+" separates every element", as.Pos(), "the element writer is "+exprStr(as.Rhs[0])+", which writes the data of every data event without the element separator: data split into several events runs together")
				}
				return true
			}
			idx++
			nClos++
			key := fmt.Sprintf("%s|element writer #%d", f.Name(), idx)
			// string accumulator?
			accumulates := false
			writes := false
			inspectCalls(info, fl.Body, func(call *ast.CallExpr, c *types.Func) {
				if c == nil {
					return
				}
				if isMethodOf(c, "cte", "arrayEncoderEngine", "appendStringbuffer") {
					accumulates = true
				}
				if isMethodOf(c, "cte", "Writer", c.Name()) && strings.HasPrefix(c.Name(), "Write") {
					writes = true
				}
			})
			if accumulates && !writes {
				// whole-string: nothing reachable from here may look at characters
				bad := ""
				inspectCalls(info, fl.Body, func(call *ast.CallExpr, c *types.Func) {
					if c == nil {
						return
					}
					if a.reaches(c, func(g *types.Func) bool {
						if g.Pkg() == nil {
							return false
						}
						if g.Pkg().Path() == "unicode/utf8" {
							return true
						}
						return core.InModule(g) && (strings.HasPrefix(g.Name(), "getEscapeCount") || g.Name() == "IsRuneSafeFor" || g.Name() == "escapeCharQuoted")
					}) {
						bad = c.Name()
					}
				})
				// a `range string(x)` loop in the accumulator itself or in appendStringbuffer decodes characters too
				if ap := findFn(p, "cte", "arrayEncoderEngine.appendStringbuffer"); ap != nil {
					ast.Inspect(ap.Decl.Body, func(m ast.Node) bool {
						if rs, ok := m.(*ast.RangeStmt); ok {
							if b, ok := info.TypeOf(rs.X).Underlying().(*types.Basic); ok && b.Kind() == types.String {
								bad = "range over string in appendStringbuffer"
							}
						}
						return true
					})
				}
				r.Check("C23.whole-string", key+" only accumulates", fl.Pos(), bad == "",
					"the per-data-event path of a string-like array reaches "+bad+", which decodes or classifies characters: a data event may end inside a multi-byte character, so the decision differs from the one taken on the whole string")
				return true
			}
			if !writes {
				return true
			}
			// separator before each element write
			problem := c23Separator(info, fl)
			r.Check("C23.separator", key+" separates every element", fl.Pos(), problem == "", problem)
			return true
		})
	}
	r.Floor("C23.separator", "element writer closures", nClos, 18)
	// the completion callbacks of string-like arrays hand the whole buffer to the quoting writer
	nComp := 0
	for _, f := range funcsOf(pkg) {
		rn := recvNamed(f.Obj)
		if rn == nil || rn.Obj().Name() != "arrayEncoderEngine" {
			continue
		}
		usesBuf := false
		inspectCalls(info, f.Decl.Body, func(call *ast.CallExpr, c *types.Func) {
			if c != nil && isMethodOf(c, "cte", "arrayEncoderEngine", "appendStringbuffer") {
				usesBuf = true
			}
		})
		if !usesBuf || f.Obj.Name() == "appendStringbuffer" {
			continue
		}
		nComp++
		ok := false
		inspectCalls(info, f.Decl.Body, func(call *ast.CallExpr, c *types.Func) {
			if c != nil && isMethodOf(c, "cte", "Writer", "WriteQuotedStringBytes") && len(call.Args) == 2 {
				if fv := fieldOf(info, call.Args[1]); fv != nil && fv.Name() == "stringBuffer" {
					ok = true
				}
			}
		})
		r.Check("C23.whole-string", f.Name()+"|completion writes the whole accumulated string", f.Decl.Pos(), ok,
			"the array accumulates string data but its completion callback does not hand the whole stringBuffer to WriteQuotedStringBytes")
	}
	r.Floor("C23.whole-string", "string-like array kinds", nComp, 4)

	// ---- bit order ---------------------------------------------------------------------------------------
	c23Bits(r, p)
}

// c23Separator: inside the closure, every element write is immediately preceded (same block) by writeSpaceIfNotFirstElement().
func c23Separator(info *types.Info, fl *ast.FuncLit) string {
	problem := ""
	found := 0
	var visit func(list []ast.Stmt)
	isSep := func(st ast.Stmt) bool {
		es, ok := st.(*ast.ExprStmt)
		if !ok {
			return false
		}
		call, ok := es.X.(*ast.CallExpr)
		if !ok {
			return false
		}
		c := callee(info, call)
		return c != nil && isMethodOf(c, "cte", "arrayEncoderEngine", "writeSpaceIfNotFirstElement")
	}
	isWrite := func(st ast.Stmt) bool {
		w := false
		switch st.(type) {
		case *ast.ExprStmt, *ast.AssignStmt:
			inspectCalls(info, st, func(call *ast.CallExpr, c *types.Func) {
				if c != nil && isMethodOf(c, "cte", "Writer", c.Name()) && strings.HasPrefix(c.Name(), "Write") {
					w = true
				}
			})
		}
		return w
	}
	visit = func(list []ast.Stmt) {
		sepSeen := false
		for _, st := range list {
			switch s := st.(type) {
			case *ast.ForStmt:
				visit(s.Body.List)
				continue
			case *ast.RangeStmt:
				visit(s.Body.List)
				continue
			case *ast.IfStmt:
				visit(s.Body.List)
				continue
			}
			if isSep(st) {
				sepSeen = true
				continue
			}
			if isWrite(st) {
				found++
				if !sepSeen {
					problem = "an element is written without writeSpaceIfNotFirstElement() before it in the same block: elements of different data events (or of the same one) run together or get a stray separator"
				}
				sepSeen = false
			}
		}
	}
	visit(fl.Body.List)
	if found == 0 && problem == "" {
		problem = "no element write recognised in the closure"
	}
	return problem
}

// c23Partial judges the carry-over logic of AddArrayData by shape.
func c23Partial(r *core.Run, p *core.Program, f *fn) {
	info := f.Pkg.TypesInfo
	sig := f.Obj.Type().(*types.Signature)
	data := sig.Params().At(0)
	body := f.Decl.Body.List
	// (1) empty data event returns first
	emptyFirst := false
	if len(body) > 0 {
		if ifs, ok := body[0].(*ast.IfStmt); ok && condTestsEmpty(info, ifs.Cond, data) && len(ifs.Body.List) > 0 {
			if _, isRet := ifs.Body.List[len(ifs.Body.List)-1].(*ast.ReturnStmt); isRet {
				// nothing but comments/return
				emptyFirst = len(ifs.Body.List) == 1
			}
		}
	}
	r.Check("C23.partial-element", f.Name()+"|empty data event returns before any output", f.Decl.Pos(), emptyFirst,
		"AddArrayData does not return at once for an empty data event: kinds whose writer emits a separator per data event then write a stray separator, so the text depends on how data was split")
	// the carry-over logic may sit in an unexported helper of the engine that is handed the data: each such helper
	// body is analysed with its own parameter standing for the data event
	type unit struct {
		body *ast.BlockStmt
		data types.Object
	}
	units := []unit{{f.Decl.Body, data}}
	inspectCalls(info, f.Decl.Body, func(call *ast.CallExpr, cal *types.Func) {
		if cal == nil || cal.Exported() || cal.Pkg() != f.Pkg.Types || recvNamed(cal) == nil || recvNamed(cal) != recvNamed(f.Obj) {
			return
		}
		hd := p.FuncDecl(cal)
		if hd == nil || hd.Body == nil {
			return
		}
		hs := cal.Type().(*types.Signature)
		for i, arg := range call.Args {
			if i < hs.Params().Len() && objOf(info, arg) == data {
				// only helpers that keep part of the data in a field of the engine (the carry-over), not the element writers
				hp := hs.Params().At(i)
				keeps := false
				ast.Inspect(hd.Body, func(n ast.Node) bool {
					as, ok := n.(*ast.AssignStmt)
					if !ok || len(as.Lhs) != 1 || len(as.Rhs) != 1 {
						return true
					}
					if c2, ok := as.Rhs[0].(*ast.CallExpr); ok && len(c2.Args) == 2 {
						if id, ok := c2.Fun.(*ast.Ident); ok && id.Name == "append" {
							if fv := fieldOf(info, as.Lhs[0]); fv != nil && fieldOf(info, c2.Args[0]) == fv && rootObj(info, c2.Args[1]) == hp {
								keeps = true
							}
						}
					}
					return true
				})
				if keeps {
					units = append(units, unit{hd.Body, hp})
				}
			}
		}
	})
	isLenOfData := func(e ast.Expr) bool {
		for _, u := range units {
			if v, ok := u.data.(*types.Var); ok && isLenOf(info, e, v) {
				return true
			}
		}
		return false
	}
	isData := func(o types.Object) bool {
		for _, u := range units {
			if o != nil && o == u.data {
				return true
			}
		}
		return false
	}
	allBodies := &ast.BlockStmt{}
	for _, u := range units {
		allBodies.List = append(allBodies.List, u.body)
	}
	// (2) find `fillCount := width - leftoverLength` and the guard `len(data) OP fillCount` that appends everything and returns
	var fillObj types.Object
	ast.Inspect(allBodies, func(n ast.Node) bool {
		as, ok := n.(*ast.AssignStmt)
		if !ok || len(as.Lhs) != 1 || len(as.Rhs) != 1 {
			return true
		}
		be, ok := stripParens(as.Rhs[0]).(*ast.BinaryExpr)
		if !ok || be.Op != token.SUB {
			return true
		}
		if strings.Contains(exprStr(be.X), "ByteWidth") && strings.Contains(strings.ToLower(exprStr(be.Y)), "leftover") {
			fillObj = objOf(info, as.Lhs[0])
		}
		return true
	})
	if fillObj == nil {
		r.Fail("C23.partial-element", f.Name()+"|missing-bytes computation", f.Decl.Pos(), "no `missing := elementByteWidth - len(leftover)` computation found: the carry-over logic cannot be judged")
		return
	}
	guardOK, guardFound := false, false
	var guardPos token.Pos
	ast.Inspect(allBodies, func(n ast.Node) bool {
		ifs, ok := n.(*ast.IfStmt)
		if !ok {
			return true
		}
		be, ok := stripParens(ifs.Cond).(*ast.BinaryExpr)
		if !ok {
			return true
		}
		lenLeft := isLenOfData(be.X) && objOf(info, be.Y) == fillObj
		lenRight := isLenOfData(be.Y) && objOf(info, be.X) == fillObj
		if !lenLeft && !lenRight {
			return true
		}
		// the branch that keeps everything in the leftover and returns
		returns := false
		if len(ifs.Body.List) > 0 {
			_, returns = ifs.Body.List[len(ifs.Body.List)-1].(*ast.ReturnStmt)
		}
		if !returns {
			return true
		}
		guardFound = true
		guardPos = ifs.Pos()
		guardOK = (lenLeft && be.Op == token.LSS) || (lenRight && be.Op == token.GTR)
		return true
	})
	if !guardFound {
		r.Fail("C23.partial-element", f.Name()+"|`not enough to complete the element` test", f.Decl.Pos(), "no `if len(data) < missing { keep; return }` test found")
	} else {
		r.Check("C23.partial-element", f.Name()+"|`not enough to complete the element` test", guardPos, guardOK,
			"the test that keeps a data event in the leftover must be strict (len(data) < missing): with <= a data event that exactly completes the pending element is kept back, the leftover then holds a whole element, and the element (and the end of the array) is lost when no further data arrives")
	}
	// (3) no byte of a data event is dropped: every reslice of data that cuts off a prefix or a suffix is preceded, in the
	// same block, by an append of exactly that part to the leftover field; an emitted leftover is emptied and counted.
	var leftover *types.Var
	ast.Inspect(allBodies, func(n ast.Node) bool {
		as, ok := n.(*ast.AssignStmt)
		if !ok || len(as.Lhs) != 1 || len(as.Rhs) != 1 {
			return true
		}
		if call, ok := as.Rhs[0].(*ast.CallExpr); ok {
			if id, ok := call.Fun.(*ast.Ident); ok && id.Name == "append" && len(call.Args) == 2 {
				if fv := fieldOf(info, as.Lhs[0]); fv != nil && fieldOf(info, call.Args[0]) == fv && isData(rootObj(info, call.Args[1])) {
					leftover = fv
				}
			}
		}
		return true
	})
	if leftover == nil {
		r.Fail("C23.partial-element", f.Name()+"|leftover field", f.Decl.Pos(), "no field receives the unconsumed part of a data event")
		return
	}
	nCuts := 0
	var blocks func(list []ast.Stmt)
	blocks = func(list []ast.Stmt) {
		for i, st := range list {
			switch s := st.(type) {
			case *ast.IfStmt:
				blocks(s.Body.List)
				if e, ok := s.Else.(*ast.BlockStmt); ok {
					blocks(e.List)
				}
			case *ast.ForStmt:
				blocks(s.Body.List)
			case *ast.AssignStmt:
				if len(s.Lhs) != 1 || len(s.Rhs) != 1 || !isData(objOf(info, s.Lhs[0])) {
					continue
				}
				sl, ok := stripParens(s.Rhs[0]).(*ast.SliceExpr)
				if !ok || objOf(info, sl.X) != objOf(info, s.Lhs[0]) {
					continue
				}
				data := objOf(info, s.Lhs[0])
				nCuts++
				// the dropped part
				var dropped string
				switch {
				case sl.Low != nil && sl.High == nil:
					dropped = data.Name() + "[:" + exprStr(sl.Low) + "]"
				case sl.Low == nil && sl.High != nil:
					dropped = data.Name() + "[" + exprStr(sl.High) + ":]"
				default:
					dropped = "?"
				}
				saved := false
				for _, prev := range list[:i] {
					as2, ok := prev.(*ast.AssignStmt)
					if !ok || len(as2.Rhs) != 1 || fieldOf(info, as2.Lhs[0]) != leftover {
						continue
					}
					if call, ok := as2.Rhs[0].(*ast.CallExpr); ok && len(call.Args) == 2 && exprStr(call.Args[1]) == dropped {
						saved = true
					}
				}
				r.Check("C23.partial-element", fmt.Sprintf("%s|cut #%d: the part cut off the data is kept in the leftover", f.Name(), nCuts), s.Pos(), saved,
					"`"+stmtString(s)+"` drops "+dropped+" from the data event, but that part is not appended to the leftover first: those bytes are lost")
			case *ast.ExprStmt:
				call, ok := s.X.(*ast.CallExpr)
				if !ok || len(call.Args) != 1 || fieldOf(info, call.Args[0]) != leftover {
					continue
				}
				if fv := fieldOf(info, call.Fun); fv == nil || fv.Name() != "addElementsFunc" {
					continue
				}
				cleared, counted := false, false
				for _, next := range list[i+1:] {
					switch x := next.(type) {
					case *ast.AssignStmt:
						if len(x.Lhs) == 1 && fieldOf(info, x.Lhs[0]) == leftover {
							if sl, ok := stripParens(x.Rhs[0]).(*ast.SliceExpr); ok && sl.High != nil {
								if c, ok := constInt(info, sl.High); ok && c == 0 {
									cleared = true
								}
							}
						}
					case *ast.IncDecStmt:
						if x.Tok == token.DEC && fieldOf(info, x.X) != nil {
							counted = true
						}
					}
				}
				r.Check("C23.partial-element", f.Name()+"|an emitted carried-over element is counted once and the leftover emptied", s.Pos(), cleared && counted,
					"after the completed carried-over element is handed to the element writer the leftover must be emptied and the remaining element count decremented in the same block")
			}
		}
	}
	for _, u := range units {
		blocks(u.body.List)
	}
	r.Floor("C23.partial-element", "places where part of a data event is cut off", nCuts, 2)
}

func stmtString(n ast.Node) string {
	var sb strings.Builder
	var walk func(n ast.Node)
	walk = func(n ast.Node) {
		switch s := n.(type) {
		case *ast.BlockStmt:
			for _, x := range s.List {
				walk(x)
			}
		case *ast.IfStmt:
			sb.WriteString("if " + types.ExprString(s.Cond) + "\n")
			walk(s.Body)
			if s.Else != nil {
				walk(s.Else)
			}
		case *ast.ForStmt:
			walk(s.Body)
		case *ast.RangeStmt:
			walk(s.Body)
		case *ast.ExprStmt:
			sb.WriteString(types.ExprString(s.X) + "\n")
		case *ast.AssignStmt:
			var l, rr []string
			for _, e := range s.Lhs {
				l = append(l, types.ExprString(e))
			}
			for _, e := range s.Rhs {
				rr = append(rr, types.ExprString(e))
			}
			sb.WriteString(strings.Join(l, ", ") + " " + s.Tok.String() + " " + strings.Join(rr, ", ") + "\n")
		case *ast.IncDecStmt:
			sb.WriteString(types.ExprString(s.X) + s.Tok.String() + "\n")
		case *ast.ReturnStmt:
			sb.WriteString("return\n")
		}
	}
	walk(n)
	return sb.String()
}

// c23Bits: LSB-first on both sides.
func c23Bits(r *core.Run, p *core.Program) {
	enc := findFn(p, "cte", "arrayEncoderEngine.addBooleanArrayData")
	dec := findFn(p, "cte", "cteListener.ExitArrayBit")
	if enc == nil || dec == nil {
		r.Undecided("C23.bit-order", "cte.arrayEncoderEngine.addBooleanArrayData / cte.cteListener.ExitArrayBit")
		return
	}
	info := enc.Pkg.TypesInfo
	// encoder: every bit test is `b & (1 << i)` with i the loop variable counting from 0; '1' written on != 0
	nTests := 0
	// the bit loop may live in an unexported helper of the engine (one helper serving whole and partial bytes)
	encBodies := []ast.Node{enc.Decl.Body}
	inspectCalls(info, enc.Decl.Body, func(c *ast.CallExpr, cal *types.Func) {
		if cal != nil && !cal.Exported() && cal.Pkg() == enc.Pkg.Types && cal != enc.Obj {
			if hd := p.FuncDecl(cal); hd != nil && hd.Body != nil {
				dup := false
				for _, b := range encBodies {
					if b == ast.Node(hd.Body) {
						dup = true
					}
				}
				if !dup {
					encBodies = append(encBodies, hd.Body)
				}
			}
		}
	})
	for _, encBody := range encBodies {
		ast.Inspect(encBody, func(n ast.Node) bool {
			fs, ok := n.(*ast.ForStmt)
			if !ok || fs.Init == nil {
				return true
			}
			as, ok := fs.Init.(*ast.AssignStmt)
			if !ok || len(as.Lhs) != 1 {
				return true
			}
			iv := objOf(info, as.Lhs[0])
			start, _ := constInt(info, as.Rhs[0])
			if _, isInc := fs.Post.(*ast.IncDecStmt); !isInc {
				return true
			}
			ast.Inspect(fs.Body, func(m ast.Node) bool {
				ifs, ok := m.(*ast.IfStmt)
				if !ok {
					return true
				}
				be, ok := stripParens(ifs.Cond).(*ast.BinaryExpr)
				if !ok || be.Op != token.NEQ {
					return true
				}
				and, ok := stripParens(be.X).(*ast.BinaryExpr)
				if !ok || and.Op != token.AND {
					return true
				}
				sh, ok := stripParens(and.Y).(*ast.BinaryExpr)
				if !ok || sh.Op != token.SHL {
					return true
				}
				nTests++
				one, _ := constInt(info, sh.X)
				lsb := one == 1 && objOf(info, sh.Y) == iv && start == 0
				// then-branch writes '1'
				writesOne := false
				inspectCalls(info, ifs.Body, func(call *ast.CallExpr, c *types.Func) {
					if len(call.Args) == 1 {
						if v, ok := constInt(info, call.Args[0]); ok && v == '1' {
							writesOne = true
						}
					}
				})
				r.Check("C23.bit-order", fmt.Sprintf("%s|bit test #%d is bit i, least significant first, '1' when set", enc.Name(), nTests), ifs.Pos(), lsb && writesOne,
					"the i-th character printed for a data byte must be '1' exactly when bit i (1<<i, i from 0) is set; found `"+exprStr(ifs.Cond)+"`")
				return true
			})
			return true
		})
	}
	r.Floor("C23.bit-order", "bit tests in the encoder", nTests, 1)
	// the bytes of a data event are taken in order: every byte read is the head `data[0]` of the not yet consumed
	// data, or `data[n]` right after a loop over `data[:n]`
	if sigE := enc.Obj.Type().(*types.Signature); sigE.Params().Len() == 1 {
		dataP := sigE.Params().At(0)
		var prefixes []string
		ast.Inspect(enc.Decl.Body, func(n ast.Node) bool {
			if rs, ok := n.(*ast.RangeStmt); ok {
				if sl, ok := stripParens(rs.X).(*ast.SliceExpr); ok && objOf(info, sl.X) == dataP && sl.Low == nil && sl.High != nil {
					prefixes = append(prefixes, exprStr(sl.High))
				}
			}
			return true
		})
		bad := ""
		nReads := 0
		ast.Inspect(enc.Decl.Body, func(n ast.Node) bool {
			ix, ok := n.(*ast.IndexExpr)
			if !ok || objOf(info, ix.X) != dataP {
				return true
			}
			nReads++
			if k, isC := constInt(info, ix.Index); isC && k == 0 {
				return true
			}
			for _, pre := range prefixes {
				if exprStr(ix.Index) == pre {
					return true
				}
			}
			bad = exprStr(ix)
			return true
		})
		r.Check("C23.bit-order", enc.Name()+"|data bytes are taken in order", enc.Decl.Pos(), bad == "",
			"`"+bad+"` reads a byte of the data event that is neither the head of the unconsumed data nor the byte right after a loop over a prefix: which byte supplies the bits then depends on how the array was split into data events")
		_ = nReads
	}
	// decoder: nextByte |= 1 << i on '1', i from 0
	okDec := false
	ast.Inspect(dec.Decl.Body, func(n ast.Node) bool {
		fs, ok := n.(*ast.ForStmt)
		if !ok || fs.Init == nil {
			return true
		}
		as, ok := fs.Init.(*ast.AssignStmt)
		if !ok || len(as.Lhs) != 1 {
			return true
		}
		iv := objOf(info, as.Lhs[0])
		start, _ := constInt(info, as.Rhs[0])
		ast.Inspect(fs.Body, func(m ast.Node) bool {
			ifs, ok := m.(*ast.IfStmt)
			if !ok {
				return true
			}
			be, ok := stripParens(ifs.Cond).(*ast.BinaryExpr)
			if !ok || be.Op != token.EQL {
				return true
			}
			if v, ok := constInt(info, be.Y); !ok || v != '1' {
				return true
			}
			for _, st := range ifs.Body.List {
				if as2, ok := st.(*ast.AssignStmt); ok && as2.Tok == token.OR_ASSIGN {
					if sh, ok := stripParens(as2.Rhs[0]).(*ast.BinaryExpr); ok && sh.Op == token.SHL {
						one, _ := constInt(info, sh.X)
						if one == 1 && objOf(info, sh.Y) == iv && start == 0 {
							okDec = true
						}
					}
				}
			}
			return true
		})
		return true
	})
	r.Check("C23.bit-order", dec.Name()+"|character i sets bit i", dec.Decl.Pos(), okDec, "the parser must pack the i-th '1' character of each group of 8 into bit i (1<<i, i from 0)")
	// last partial byte: count := remainingChunkElements; for i < int(count)
	src := stmtString(enc.Decl.Body)
	r.Check("C23.bit-order", enc.Name()+"|partial byte prints the remaining element count", enc.Decl.Pos(),
		strings.Contains(src, "count := _this.remainingChunkElements") && strings.Contains(src, "_this.remainingChunkElements -= count"),
		"the number of characters printed for the last partial byte is not the remaining element count")
}

// checkBufferCapacity: every copy() into a writer's Buffer field in package rel is preceded by
// ExpandBuffer / ExpandBufferTo(len(src)) and its result does not decide how much is flushed.
func checkBufferCapacity(r *core.Run, p *core.Program, ruleID, rel string) {
	pkg := p.Pkg(rel)
	info := pkg.TypesInfo
	n := 0
	for _, f := range funcsOf(pkg) {
		var stack []ast.Node
		ast.Inspect(f.Decl.Body, func(nd ast.Node) bool {
			if nd == nil {
				stack = stack[:len(stack)-1]
				return true
			}
			stack = append(stack, nd)
			call, ok := nd.(*ast.CallExpr)
			if !ok || len(call.Args) != 2 {
				return true
			}
			id, ok := call.Fun.(*ast.Ident)
			if !ok || id.Name != "copy" {
				return true
			}
			if _, isB := info.Uses[id].(*types.Builtin); !isB {
				return true
			}
			// destination rooted at a field named Buffer
			dst := stripParens(call.Args[0])
			for {
				if se, ok := dst.(*ast.SliceExpr); ok {
					dst = stripParens(se.X)
					continue
				}
				break
			}
			fld := fieldOf(info, dst)
			if fld == nil || fld.Name() != "Buffer" {
				return true
			}
			n++
			src := exprStr(stripParens(call.Args[1]))
			// a dominating ExpandBuffer(len(src)) / ExpandBuffer(v) with v := len(src)
			expanded := false
			ast.Inspect(f.Decl.Body, func(k ast.Node) bool {
				ec, ok := k.(*ast.CallExpr)
				if !ok || ec.Pos() >= call.Pos() || len(ec.Args) != 1 {
					return true
				}
				c := callee(info, ec)
				if c == nil || (c.Name() != "ExpandBuffer" && c.Name() != "ExpandBufferTo") {
					return true
				}
				arg := stripParens(ec.Args[0])
				if aid, isId := arg.(*ast.Ident); isId {
					if init := singleInit(info, f, info.ObjectOf(aid)); init != nil {
						arg = stripParens(init)
					} else {
						// n = len(str) assigned (not defined): look for that assignment
						ast.Inspect(f.Decl.Body, func(m ast.Node) bool {
							if as, ok := m.(*ast.AssignStmt); ok && len(as.Lhs) == 1 && len(as.Rhs) == 1 && objOf(info, as.Lhs[0]) == info.ObjectOf(aid) && as.Pos() < ec.Pos() {
								arg = stripParens(as.Rhs[0])
							}
							return true
						})
					}
				}
				if lc, ok := arg.(*ast.CallExpr); ok && len(lc.Args) == 1 {
					if lid, ok := lc.Fun.(*ast.Ident); ok && lid.Name == "len" && exprStr(stripParens(lc.Args[0])) == src {
						// executed on every path to the copy: not nested in a branch the copy is outside of
						expanded = true
					}
				}
				return true
			})
			usesResult := false
			if len(stack) >= 2 {
				switch par := stack[len(stack)-2].(type) {
				case *ast.AssignStmt:
					usesResult = true
					_ = par
				case *ast.ReturnStmt, *ast.BinaryExpr, *ast.CallExpr:
					usesResult = true
				}
			}
			r.Check(ruleID, f.Name()+"|copy into Buffer", call.Pos(), expanded && !usesResult,
				"`"+exprStr(call)+"` is not preceded by ExpandBuffer(len("+src+")) (or its result decides how much is flushed): copy() stops at the buffer's current length, so the tail of a long string or chunk is silently dropped")
			return true
		})
	}
	r.Floor(ruleID, "copies into the writer's buffer", n, 1)
}

func checkC23ByteSeparators(r *core.Run, p *core.Program) {
	pkg := p.Pkg("cte")
	info := pkg.TypesInfo
	nSep := 0
	for _, f := range funcsOf(pkg) {
		if rn := recvNamed(f.Obj); rn == nil || rn.Obj().Name() != "Writer" {
			continue
		}
		sig := f.Obj.Type().(*types.Signature)
		params := map[types.Object]bool{}
		for i := 0; i < sig.Params().Len(); i++ {
			if _, ok := sig.Params().At(i).Type().Underlying().(*types.Slice); ok {
				params[sig.Params().At(i)] = true
			}
		}
		if len(params) == 0 {
			continue
		}
		var loops []ast.Node
		var walk func(n ast.Node)
		walk = func(n ast.Node) {
			ast.Inspect(n, func(m ast.Node) bool {
				switch x := m.(type) {
				case *ast.RangeStmt:
					loops = append(loops, x)
					walk(x.Body)
					loops = loops[:len(loops)-1]
					return false
				case *ast.ForStmt:
					loops = append(loops, x)
					walk(x.Body)
					loops = loops[:len(loops)-1]
					return false
				case *ast.IfStmt:
					// `if i > 0 { … ' ' … }` where i is a loop index
					be, ok := stripParens(x.Cond).(*ast.BinaryExpr)
					if !ok || be.Op != token.GTR {
						return true
					}
					if k, isC := constInt(info, be.Y); !isC || k != 0 {
						return true
					}
					idx := objOf(info, be.X)
					if idx == nil || len(loops) == 0 {
						return true
					}
					writesSep := false
					ast.Inspect(x.Body, func(k ast.Node) bool {
						if e, ok := k.(ast.Expr); ok {
							if v, isC := constInt(info, e); isC && (v == ' ' || v == ',') {
								writesSep = true
							}
						}
						return true
					})
					if !writesSep {
						return true
					}
					nSep++
					okLoop := false
					if len(loops) == 1 {
						if rs, ok := loops[0].(*ast.RangeStmt); ok && objOf(info, rs.Key) == idx && params[objOf(info, rs.X)] {
							okLoop = true
						}
						if fs, ok := loops[0].(*ast.ForStmt); ok && fs.Init != nil {
							if as, ok := fs.Init.(*ast.AssignStmt); ok && len(as.Lhs) == 1 && objOf(info, as.Lhs[0]) == idx {
								if c, ok := stripParens(fs.Cond).(*ast.BinaryExpr); ok && c.Op == token.LSS {
									for po := range params {
										if v, isVar := po.(*types.Var); isVar && isLenOf(info, c.Y, v) {
											okLoop = true
										}
									}
								}
							}
						}
					}
					r.Check("C23.byte-separators", f.Name()+"|first-item test", x.Pos(), okLoop,
						"the `first item` test `"+exprStr(x.Cond)+"` uses an index that does not run over the whole argument in one loop: the separator is missing wherever that index restarts")
				}
				return true
			})
		}
		walk(f.Decl.Body)
	}
	r.Floor("C23.byte-separators", "writers that separate the items of their argument", nSep, 1)
}
