package rules

import (
	"fmt"
	"go/ast"
	"go/token"
	"go/types"
	"regexp"
	"sort"
	"strings"

	"verif/checker/core"
)

func init() { Registry["C16"] = checkC16 }

// E8: field write sets ------------------------------------------------------

type writeSite struct {
	f    *fn
	pos  token.Pos
	top  bool   // a top-level (unconditional) statement of f
	how  string // "assign", "incdec", "delete", "call:<method>"
	cond string // for stores inside an if: the condition text
}

// rootField: if e is x.f, x.f.g, x.f[i], (*x).f … with x of (pointer to) named type nt, return field f.
func rootField(info *types.Info, e ast.Expr, nt *types.Named) *types.Var {
	for {
		switch x := stripParens(e).(type) {
		case *ast.IndexExpr:
			e = x.X
			continue
		case *ast.SliceExpr:
			e = x.X
			continue
		case *ast.StarExpr:
			e = x.X
			continue
		case *ast.SelectorExpr:
			fld := fieldOf(info, x)
			if fld == nil {
				return nil
			}
			if bt := namedOf(info.TypeOf(x.X)); bt != nil && bt.Obj() == nt.Obj() {
				return fld
			}
			e = x.X
			continue
		}
		return nil
	}
}

// fieldWrites collects every store to a first-level field of nt anywhere in the module.
func fieldWrites(p *core.Program, nt *types.Named) map[*types.Var][]writeSite {
	out := map[*types.Var][]writeSite{}
	for _, pkg := range p.Pkgs {
		info := pkg.TypesInfo
		for _, f := range funcsOf(pkg) {
			var visit func(stmts []ast.Stmt, top bool, cond string)
			record := func(e ast.Expr, pos token.Pos, top bool, how, cond string) {
				if fld := rootField(info, e, nt); fld != nil {
					out[fld] = append(out[fld], writeSite{f, pos, top, how, cond})
				}
			}
			exprCalls := func(n ast.Node, top bool, cond string) {
				ast.Inspect(n, func(k ast.Node) bool {
					if _, isLit := k.(*ast.FuncLit); isLit {
						// closures stored for later: their stores are conditional on being called
						ast.Inspect(k, func(m ast.Node) bool {
							switch s := m.(type) {
							case *ast.AssignStmt:
								for _, l := range s.Lhs {
									record(l, s.Pos(), false, "assign", "closure")
								}
							case *ast.IncDecStmt:
								record(s.X, s.Pos(), false, "incdec", "closure")
							}
							return true
						})
						return false
					}
					c, ok := k.(*ast.CallExpr)
					if !ok {
						return true
					}
					if id, ok := c.Fun.(*ast.Ident); ok && id.Name == "delete" && len(c.Args) == 2 {
						record(c.Args[0], c.Pos(), top, "delete", cond)
					}
					if id, ok := c.Fun.(*ast.Ident); ok && id.Name == "copy" && len(c.Args) == 2 {
						// copy into a field's backing array: contents only
						_ = id
					}
					// x.f.M() with pointer receiver: mutation of f through its own method
					if sel, ok := c.Fun.(*ast.SelectorExpr); ok {
						if cal := callee(info, c); cal != nil {
							if sig, ok := cal.Type().(*types.Signature); ok && sig.Recv() != nil {
								if _, isPtr := sig.Recv().Type().(*types.Pointer); isPtr {
									if fld := rootField(info, sel.X, nt); fld != nil {
										if _, isStruct := fld.Type().Underlying().(*types.Struct); isStruct {
											out[fld] = append(out[fld], writeSite{f, c.Pos(), top, "call:" + cal.Name(), cond})
										}
									}
								}
							}
						}
					}
					return true
				})
			}
			visit = func(stmts []ast.Stmt, top bool, cond string) {
				for _, s := range stmts {
					switch s := s.(type) {
					case *ast.AssignStmt:
						for _, l := range s.Lhs {
							record(l, s.Pos(), top, "assign", cond)
						}
						exprCalls(s, top, cond)
					case *ast.IncDecStmt:
						record(s.X, s.Pos(), top, "incdec", cond)
					case *ast.ExprStmt:
						exprCalls(s, top, cond)
					case *ast.IfStmt:
						if s.Init != nil {
							visit([]ast.Stmt{s.Init}, false, cond)
						}
						c := exprStr(s.Cond)
						visit(s.Body.List, false, c)
						if s.Else != nil {
							switch e := s.Else.(type) {
							case *ast.BlockStmt:
								visit(e.List, false, "!("+c+")")
							default:
								visit([]ast.Stmt{e}, false, "!("+c+")")
							}
						}
					case *ast.ForStmt:
						visit(s.Body.List, false, "loop")
						if s.Post != nil {
							visit([]ast.Stmt{s.Post}, false, "loop")
						}
					case *ast.RangeStmt:
						visit(s.Body.List, false, "loop")
					case *ast.SwitchStmt:
						for _, c := range s.Body.List {
							visit(c.(*ast.CaseClause).Body, false, "case")
						}
					case *ast.TypeSwitchStmt:
						for _, c := range s.Body.List {
							visit(c.(*ast.CaseClause).Body, false, "case")
						}
					case *ast.BlockStmt:
						visit(s.List, top, cond)
					case *ast.LabeledStmt:
						visit([]ast.Stmt{s.Stmt}, top, cond)
					case *ast.ReturnStmt, *ast.DeferStmt, *ast.GoStmt, *ast.DeclStmt:
						exprCalls(s, false, cond)
					}
				}
			}
			visit(f.Decl.Body.List, true, "")
		}
	}
	return out
}

type resetSpec struct {
	rel, typ string
	resets   []string            // per-document entry point(s); their definite stores (and those of methods they call at top level) count
	sub      map[string][]string // field -> functions (names or name prefixes ending in *) that re-initialise it before its first use in a document
	scratch  map[string]string   // field -> reason it needs no reset
	why      map[string]string   // field -> reason a sub-reset is sufficient
}

var resetSpecs = []resetSpec{
	{rel: "rules", typ: "Context", resets: []string{"Reset"},
		sub: map[string][]string{
			"arrayType": {"beginArray"}, "arrayMaxByteCount": {"beginArray"}, "arrayTotalByteCount": {"beginArray"}, "builtArrayBuffer": {"beginArray"},
			"utf8RemainderBuffer": {"beginArray"}, "ValidateArrayDataFunc": {"beginArray"},
			"chunkExpectedByteCount": {"BeginChunk*"}, "chunkActualByteCount": {"BeginChunk*"}, "moreChunksFollow": {"BeginChunk*"},
			"recordTypeName": {"BeginRecordType"}, "markerID": {"BeginMarker*"},
		},
		scratch: map[string]string{"utf8RemainderBacking": "backing array of utf8RemainderBuffer, which is re-sliced to length 0 when an array begins"},
	},
	{rel: "cbe", typ: "Reader", resets: []string{"SetReader"},
		scratch: map[string]string{"buffer": "scratch buffer: always written by a read before being read; only ever grows"}},
	{rel: "cbe", typ: "Encoder", resets: []string{"PrepareToEncode"},
		sub: map[string][]string{"arrayType": {"OnArrayBegin", "OnMediaBegin", "OnCustomBegin"}}},
	{rel: "cbe", typ: "Writer", resets: []string{"SetWriter"},
		scratch: map[string]string{"Buffer": "scratch buffer: written before flushed; only ever grows"}},
	{rel: "cte", typ: "EncoderContext", resets: []string{"Begin"},
		sub: map[string][]string{"ContainerHasObjects": {"BeginContainer"}}},
	{rel: "cte", typ: "Writer", resets: []string{"SetWriter"},
		sub:     map[string][]string{"Column": {"WriteLF"}},
		scratch: map[string]string{"Buffer": "scratch buffer: written before flushed; only ever grows"}},
	{rel: "cte", typ: "arrayEncoderEngine", resets: []string{"reset"},
		sub: map[string][]string{"moreChunksFollow": {"BeginChunk"}, "arrayElementBitWidth": {"setElement*"}, "arrayElementByteWidth": {"setElement*"},
			"addElementsFunc": {"beginArray*", "Begin*"}, "onComplete": {"BeginArray", "Begin*"}},
		scratch: map[string]string{"arrayChunkBacking": "backing array of arrayChunkLeftover, which is re-sliced to length 0 by reset"}},
	{rel: "cte", typ: "indenter", resets: []string{"Reset"}},
	{rel: "rules", typ: "RulesEventReceiver", resets: []string{"Reset"},
		scratch: map[string]string{"receiver": "where accepted events are sent: set by Init / SetNextReceiver and kept across documents by design (C15 judges its use)"}},
}

func matchName(name string, pats []string) bool {
	for _, p := range pats {
		if strings.HasSuffix(p, "*") {
			if strings.HasPrefix(name, strings.TrimSuffix(p, "*")) {
				return true
			}
		} else if name == p {
			return true
		}
	}
	return false
}

// definiteStores: fields that the function re-initialises on every path (top-level stores, the accepted map idiom,
// and the definite stores of methods of the same type that it calls at top level).
func definiteStores(p *core.Program, nt *types.Named, writes map[*types.Var][]writeSite, fname string, depth int, seen map[string]bool) map[*types.Var]string {
	out := map[*types.Var]string{}
	if seen[fname] || depth > 3 {
		return out
	}
	seen[fname] = true
	for fld, ws := range writes {
		for _, w := range ws {
			if w.f.Decl.Name.Name != fname || recvNamed(w.f.Obj) == nil || recvNamed(w.f.Obj).Obj() != nt.Obj() {
				continue
			}
			if w.top && (w.how == "assign" || strings.HasPrefix(w.how, "call:")) {
				if strings.HasPrefix(w.how, "call:") && !matchName(strings.TrimPrefix(w.how, "call:"), []string{"Reset", "reset", "Init", "Begin", "SetWriter", "SetReader", "Clear"}) {
					continue
				}
				out[fld] = "unconditional"
			}
			// map idiom: if f == nil || len(f) > 0 { f = make(...) }
			if !w.top && w.how == "assign" && mapIdiomTestsSameField(w.cond, fld.Name()) {
				if _, ok := out[fld]; !ok {
					out[fld] = "re-made when non-empty"
				}
			}
		}
	}
	// top-level calls to methods of the same type
	f := p.LookupFunc(core.Rel(nt.Obj().Pkg()), nt.Obj().Name()+"."+fname)
	if d := p.FuncDecl(f); d != nil && d.Body != nil {
		info := p.Pkgs[core.Rel(nt.Obj().Pkg())].TypesInfo
		// a top-level if/else whose both branches store the field
		for _, s := range d.Body.List {
			ifs, ok := s.(*ast.IfStmt)
			if !ok || ifs.Else == nil {
				continue
			}
			eb, ok := ifs.Else.(*ast.BlockStmt)
			if !ok {
				continue
			}
			stores := func(list []ast.Stmt) map[*types.Var]bool {
				m := map[*types.Var]bool{}
				for _, t := range list {
					if as, ok := t.(*ast.AssignStmt); ok {
						for _, l := range as.Lhs {
							if fld := rootField(info, l, nt); fld != nil {
								m[fld] = true
							}
						}
					}
				}
				return m
			}
			a, b := stores(ifs.Body.List), stores(eb.List)
			for fld := range a {
				if b[fld] {
					if _, ok := out[fld]; !ok {
						out[fld] = "stored on both branches"
					}
				}
			}
		}
		for _, s := range d.Body.List {
			es, ok := s.(*ast.ExprStmt)
			if !ok {
				continue
			}
			c, ok := es.X.(*ast.CallExpr)
			if !ok {
				continue
			}
			if cal := callee(info, c); cal != nil && recvNamed(cal) != nil && recvNamed(cal).Obj() == nt.Obj() {
				for fld, how := range definiteStores(p, nt, writes, cal.Name(), depth+1, seen) {
					if _, ok := out[fld]; !ok {
						out[fld] = how + " via " + cal.Name()
					}
				}
			}
		}
	}
	return out
}

func checkResetSpec(r *core.Run, p *core.Program, rule string, spec resetSpec) {
	tn := p.LookupType(spec.rel, spec.typ)
	if tn == nil {
		r.Undecided(rule, spec.rel+"."+spec.typ)
		return
	}
	nt := tn.Type().(*types.Named)
	st, ok := nt.Underlying().(*types.Struct)
	if !ok {
		return
	}
	writes := fieldWrites(p, nt)
	reset := map[*types.Var]string{}
	for _, rf := range spec.resets {
		if p.LookupFunc(spec.rel, spec.typ+"."+rf) == nil {
			r.Undecided(rule, spec.rel+"."+spec.typ+"."+rf)
			continue
		}
		for fld, how := range definiteStores(p, nt, writes, rf, 0, map[string]bool{}) {
			reset[fld] = how
		}
	}
	initNames := map[string]bool{"Init": true, "New" + spec.typ: true}
	for fld, ws := range writes {
		for _, w := range ws {
			if matchName(w.f.Decl.Name.Name, spec.resets) && recvNamed(w.f.Obj) != nil && recvNamed(w.f.Obj).Obj() == nt.Obj() && !w.top {
				if _, ok := reset[fld]; !ok {
					r.Fail(rule, fmt.Sprintf("%s.%s.%s|reset on some paths only", spec.rel, spec.typ, fld.Name()), w.pos,
						fmt.Sprintf("%s stores field %s only under the condition `%s`: on the other paths the value of the previous document survives", w.f.Decl.Name.Name, fld.Name(), w.cond))
				}
			}
		}
	}
	n := 0
	for i := 0; i < st.NumFields(); i++ {
		fld := st.Field(i)
		// mutated during use? (any store outside Init and outside the reset functions)
		var users []string
		for _, w := range writes[fld] {
			fn := w.f.Decl.Name.Name
			if initNames[fn] || matchName(fn, spec.resets) {
				continue
			}
			users = append(users, w.f.Name())
		}
		if len(users) == 0 {
			continue
		}
		n++
		sort.Strings(users)
		key := fmt.Sprintf("%s.%s.%s", spec.rel, spec.typ, fld.Name())
		if how, ok := reset[fld]; ok {
			r.Pass(rule, key, fld.Pos(), "re-initialised by "+strings.Join(spec.resets, "/")+" ("+how+")")
			continue
		}
		if ft := namedOf(fld.Type()); ft != nil {
			own := false
			for _, other := range resetSpecs {
				if other.typ == ft.Obj().Name() && pkgIs(ft.Obj().Pkg(), other.rel) {
					own = true
				}
			}
			if own {
				r.Pass(rule, key, fld.Pos(), "embedded reusable type with its own reset specification")
				continue
			}
		}
		if reason, ok := spec.scratch[fld.Name()]; ok {
			r.Pass(rule, key, fld.Pos(), "scratch: "+reason)
			continue
		}
		if subs, ok := spec.sub[fld.Name()]; ok {
			// the sub-reset functions must exist and store the field unconditionally
			found := ""
			for _, w := range writes[fld] {
				if matchName(w.f.Decl.Name.Name, subs) && w.top && recvNamed(w.f.Obj) != nil && recvNamed(w.f.Obj).Obj() == nt.Obj() {
					found = w.f.Decl.Name.Name
				}
			}
			if found == "" {
				// the store may sit in a helper that the sub-reset calls unconditionally
				for _, mf := range funcsOf(p.Pkgs[spec.rel]) {
					if recvNamed(mf.Obj) == nil || recvNamed(mf.Obj).Obj() != nt.Obj() || !matchName(mf.Decl.Name.Name, subs) {
						continue
					}
					if _, ok := definiteStores(p, nt, writes, mf.Decl.Name.Name, 0, map[string]bool{})[fld]; ok {
						found = mf.Decl.Name.Name
					}
				}
			}
			r.Check(rule, key, fld.Pos(), found != "", fmt.Sprintf("field %s is expected to be re-initialised by %v before its first use in a document, but none of them stores it unconditionally any more", fld.Name(), subs))
			continue
		}
		r.Fail(rule, key, fld.Pos(), fmt.Sprintf("field %s is modified while a document is processed (%s) but is not re-initialised by %s, by a designated sub-reset, nor listed as scratch: state from an earlier (possibly failed) document leaks into the next one", fld.Name(), strings.Join(firstN(users, 3), ", "), strings.Join(spec.resets, "/")))
	}
	r.Count(rule+" mutable fields of "+spec.rel+"."+spec.typ, n)
}

func checkC16(r *core.Run, p *core.Program) {
	r.Rule("C16.reset", "for every reusable codec/validator type, each field that is modified while a document is processed is re-initialised on every path of the type's per-document entry point (Reset / SetReader / SetWriter / PrepareToEncode / Begin / reset), or by a designated sub-reset that the event protocol places before the field's first use (the store is verified), or is a scratch buffer; a field that is mutated but never reset lets state of an earlier, possibly failed, document leak into the next one.")
	r.Rule("C16.sub-reset-order", "where a field relies on a sub-reset, the structural reason holds: the CTE writer's column is zeroed by the line feed written in OnVersion before any position test; every array-engine Begin* entry calls reset() first; the CBE encoder's pending-short-header flag is cleared when encoding is prepared.")
	r.Rule("C16.fresh-per-call", "Marshal obtains a new root iterator for every call and prepares the encoder first; Unmarshal obtains a new builder receiver for every call and resets the validator and re-attaches it before decoding; the CTE parse entry point creates a new listener per document.")
	r.Rule("C16.cache-failure", "a failed first use does not poison the shared type caches (C07.waitgroup).")
	r.NotDecide("equality of outputs/results/errors between a reused and a fresh instance (the reset-completeness condition is necessary for it)")
	a := newAnalysis(p)
	for _, spec := range resetSpecs {
		checkResetSpec(r, p, "C16.reset", spec)
	}
	checkUnlistedResets(r, p)

	// ---- sub-reset order
	if f := findFn(p, "cte", "EncoderEventReceiver.OnVersion"); f == nil {
		r.Undecided("C16.sub-reset-order", "cte.EncoderEventReceiver.OnVersion")
	} else {
		ok := a.reaches(f.Obj, func(g *types.Func) bool {
			return g.Name() == "WriteLF" && recvNamed(g) != nil && recvNamed(g).Obj().Name() == "Writer"
		})
		r.Check("C16.sub-reset-order", "cte.EncoderEventReceiver.OnVersion|reaches WriteLF", f.Decl.Pos(), ok, "the document header no longer ends in a line feed written through Writer.WriteLF, which is what zeroes the writer's column for a reused encoder")
	}
	if tn := p.LookupType("cte", "arrayEncoderEngine"); tn != nil {
		pkg := p.Pkg("cte")
		n := 0
		for _, f := range funcsOf(pkg) {
			if rn := recvNamed(f.Obj); rn == nil || rn.Obj() != tn || !strings.HasPrefix(f.Decl.Name.Name, "Begin") || f.Decl.Name.Name == "BeginChunk" {
				continue
			}
			n++
			first := false
			if len(f.Decl.Body.List) > 0 {
				if es, ok := f.Decl.Body.List[0].(*ast.ExprStmt); ok {
					if c, ok := es.X.(*ast.CallExpr); ok {
						if cal := callee(pkg.TypesInfo, c); cal != nil && cal.Name() == "reset" {
							first = true
						}
					}
				}
			}
			r.Check("C16.sub-reset-order", f.Name()+"|reset first", f.Decl.Pos(), first, "this array entry point does not start with reset(): leftovers of an earlier (failed) array would be prepended")
		}
		r.Floor("C16.sub-reset-order", "array engine Begin* entry points", n, 4)
	}

	// ---- fresh per call
	for _, rel := range []string{"cbe", "cte"} {
		if f := findFn(p, rel, "Marshaler.Marshal"); f == nil {
			r.Undecided("C16.fresh-per-call", rel+".Marshaler.Marshal")
		} else {
			info := f.Pkg.TypesInfo
			var prep, newIt, iter token.Pos
			inspectCalls(info, f.Decl.Body, func(c *ast.CallExpr, cal *types.Func) {
				if cal == nil {
					return
				}
				switch cal.Name() {
				case "PrepareToEncode":
					prep = c.Pos()
				case "NewIterator":
					newIt = c.Pos()
				case "Iterate":
					iter = c.Pos()
				}
			})
			r.Check("C16.fresh-per-call", rel+".Marshaler.Marshal", f.Decl.Pos(), prep.IsValid() && newIt.IsValid() && iter.IsValid() && prep < iter && newIt < iter,
				"Marshal must prepare the encoder and create a new iterator on every call before iterating")
		}
		if f := findFn(p, rel, "Unmarshaler.Unmarshal"); f == nil {
			r.Undecided("C16.fresh-per-call", rel+".Unmarshaler.Unmarshal")
		} else {
			info := f.Pkg.TypesInfo
			var nb, reset, setNext, decode token.Pos
			inspectCalls(info, f.Decl.Body, func(c *ast.CallExpr, cal *types.Func) {
				if cal == nil {
					return
				}
				switch cal.Name() {
				case "NewBuilderFor":
					nb = c.Pos()
				case "Reset":
					reset = c.Pos()
				case "SetNextReceiver":
					setNext = c.Pos()
				case "Decode":
					decode = c.Pos()
				}
			})
			r.Check("C16.fresh-per-call", rel+".Unmarshaler.Unmarshal", f.Decl.Pos(), nb.IsValid() && reset.IsValid() && setNext.IsValid() && decode.IsValid() && nb < decode && reset < decode && setNext < decode,
				"Unmarshal must create a new builder receiver, reset the validator and attach it to the new receiver before decoding, on every call")
		}
	}
	if f := findFn(p, "cte", "ParseDocument"); f != nil {
		fresh := false
		inspectCalls(f.Pkg.TypesInfo, f.Decl.Body, func(c *ast.CallExpr, cal *types.Func) {
			if cal != nil && cal.Name() == "newCteListener" {
				fresh = true
			}
		})
		r.Check("C16.fresh-per-call", "cte.ParseDocument|new listener", f.Decl.Pos(), fresh, "the parse entry point must create a new listener per document")
	}
	// RulesEventReceiver.Reset resets the context and keeps the receiver; cbe/cte Decoder.Decode sets the reader first
	if f := findFn(p, "rules", "RulesEventReceiver.Reset"); f != nil {
		e := &effectCtx{a: a, p: p}
		got := e.summarize(f.Obj)
		r.Check("C16.fresh-per-call", "rules.RulesEventReceiver.Reset", f.Decl.Pos(), got == "(*rules.Context).Reset()", "RulesEventReceiver.Reset must reset exactly the validation context (it does `"+got+"`)")
	}
	if f := findFn(p, "cbe", "Decoder.Decode"); f != nil {
		info := f.Pkg.TypesInfo
		var setPos, firstRead token.Pos
		inspectCalls(info, f.Decl.Body, func(c *ast.CallExpr, cal *types.Func) {
			if cal == nil {
				return
			}
			if cal.Name() == "SetReader" {
				setPos = c.Pos()
			}
			isRead := func(g *types.Func) bool {
				return strings.HasPrefix(g.Name(), "Read") && recvNamed(g) != nil && recvNamed(g).Obj().Name() == "Reader"
			}
			// a read, or a helper of the decoder that reads (the document header may be read in a helper)
			if (isRead(cal) || (cal.Pkg() == f.Pkg.Types && recvNamed(cal) != nil && recvNamed(cal) == recvNamed(f.Obj) && a.reaches(cal, isRead))) && !firstRead.IsValid() {
				firstRead = c.Pos()
			}
		})
		r.Check("C16.fresh-per-call", "cbe.Decoder.Decode|SetReader first", f.Decl.Pos(), setPos.IsValid() && firstRead.IsValid() && setPos < firstRead, "Decode must install the new reader before reading")
	}

	checkWaitGroups(r, p, a, "C16.cache-failure")
}

// mapIdiomTestsSameField: the condition is `F == nil || len(F) > 0` (either order, != 0 accepted) with the emptiness test
// applied to the field that is re-made - a length test on another field does not make the reset happen when needed.
func mapIdiomTestsSameField(cond, field string) bool {
	m := regexp.MustCompile(`len\(([^()]*)\) *(?:> *0|!= *0)`).FindAllStringSubmatch(cond, -1)
	if len(m) == 0 || !strings.Contains(cond, "||") {
		return false
	}
	for _, g := range m {
		op := strings.TrimSpace(g[1])
		if op != field && !strings.HasSuffix(op, "."+field) {
			return false
		}
	}
	return true
}

// checkUnlistedResets: a struct type that offers a Reset()/reset() method the table above does not know (one that was
// added later) is held to the weakest form of the obligation: a field that methods of the type modify while a
// document is processed, that Reset does not store, and that NO method other than Init/constructors stores
// unconditionally either, keeps the previous document's value whatever the order of calls.
func checkUnlistedResets(r *core.Run, p *core.Program) {
	listed := map[string]bool{}
	for _, sp := range resetSpecs {
		listed[sp.rel+"."+sp.typ] = true
	}
	n := 0
	for _, rel := range core.LibraryPackages {
		if rel == "cte/parser" {
			continue
		}
		pkg := p.Pkg(rel)
		for _, name := range pkg.Types.Scope().Names() {
			tn, ok := pkg.Types.Scope().Lookup(name).(*types.TypeName)
			if !ok || listed[rel+"."+name] {
				continue
			}
			nt, ok := tn.Type().(*types.Named)
			if !ok {
				continue
			}
			if _, isStruct := nt.Underlying().(*types.Struct); !isStruct {
				continue
			}
			resetName := ""
			for _, cand := range []string{"Reset", "reset"} {
				if p.LookupFunc(rel, name+"."+cand) != nil {
					resetName = cand
				}
			}
			if resetName == "" {
				continue
			}
			n++
			writes := fieldWrites(p, nt)
			reset := definiteStores(p, nt, writes, resetName, 0, map[string]bool{})
			for fld, ws := range writes {
				if _, ok := reset[fld]; ok {
					continue
				}
				processing, storedElsewhere := false, false
				for _, w := range ws {
					mn := w.f.Decl.Name.Name
					isInit := mn == "Init" || strings.HasPrefix(mn, "New") || strings.HasPrefix(mn, "new") || mn == resetName
					if isInit && mn != resetName && posInsideFuncLit(w.f, w.pos) {
						processing = true // a callback installed by Init: it runs while documents are processed
					}
					if !isInit {
						processing = true
						if w.top && (w.how == "assign" || strings.HasPrefix(w.how, "call:")) {
							storedElsewhere = true
						}
					}
				}
				if processing && !storedElsewhere {
					r.Fail("C16.reset", fmt.Sprintf("%s.%s.%s|not re-initialised by the new %s", rel, name, fld.Name(), resetName), fld.Pos(),
						fmt.Sprintf("%s.%s offers %s() but the field %s, which is modified while a document is processed, is stored neither by %s nor unconditionally by any other method: a reused instance starts the next document with the previous document's value", rel, name, resetName, fld.Name(), resetName))
				}
			}
		}
	}
	r.Count("C16.reset types with an unlisted Reset method", n)
}

func posInsideFuncLit(f *fn, pos token.Pos) bool {
	in := false
	ast.Inspect(f.Decl.Body, func(n ast.Node) bool {
		if lit, ok := n.(*ast.FuncLit); ok && lit.Pos() <= pos && pos <= lit.End() {
			in = true
		}
		return true
	})
	return in
}
