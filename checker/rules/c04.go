package rules

import (
	"fmt"
	"go/ast"
	"go/types"
	"sort"
	"strings"

	"verif/checker/core"
)

func init() { Registry["C04"] = checkC04 }

// dispatchRow is one row of a reflect-kind dispatch table: outer kind, discriminator, chosen function.
type dispatchRow struct {
	Outer string // reflect kind name
	Sub   string // "" | "type:TypeUID" | "elem:Uint16" | "default"
	Fn    *types.Func
	Pos   ast.Node
}

func (d dispatchRow) Key() string {
	if d.Sub == "" {
		return d.Outer
	}
	return d.Outer + "/" + d.Sub
}

// extractKindDispatch reads `switch t.Kind() { case …: return f; case reflect.Slice: switch t.Elem().Kind() {…} … }`.
func extractKindDispatch(f *fn) []dispatchRow {
	info := f.Pkg.TypesInfo
	var rows []dispatchRow
	retFn := func(st ast.Stmt) *types.Func {
		ret, ok := st.(*ast.ReturnStmt)
		if !ok || len(ret.Results) != 1 {
			return nil
		}
		e := stripParens(ret.Results[0])
		if call, ok := e.(*ast.CallExpr); ok {
			return callee(info, call)
		}
		if o, ok := objOf(info, e).(*types.Func); ok {
			return o
		}
		return nil
	}
	var outerSw *ast.SwitchStmt
	for _, st := range f.Decl.Body.List {
		if s, ok := st.(*ast.SwitchStmt); ok && s.Tag != nil && strings.HasSuffix(exprStr(s.Tag), ".Kind()") {
			outerSw = s
		}
	}
	if outerSw == nil {
		return nil
	}
	for _, c := range switchTable(info, outerSw) {
		if c.Default {
			continue
		}
		var kinds []string
		for _, e := range c.Exprs {
			if o := objOf(info, e); o != nil {
				kinds = append(kinds, o.Name())
			}
		}
		for _, k := range kinds {
			for _, st := range c.Body {
				switch s := st.(type) {
				case *ast.ReturnStmt:
					if fnc := retFn(s); fnc != nil {
						rows = append(rows, dispatchRow{k, "", fnc, s})
					}
				case *ast.SwitchStmt:
					if s.Tag == nil {
						continue
					}
					prefix := "type:"
					if strings.HasSuffix(exprStr(s.Tag), ".Elem().Kind()") {
						prefix = "elem:"
					}
					for _, cc := range switchTable(info, s) {
						var fnc *types.Func
						for _, b := range cc.Body {
							if x := retFn(b); x != nil {
								fnc = x
							}
						}
						if fnc == nil {
							continue
						}
						if cc.Default {
							rows = append(rows, dispatchRow{k, "default", fnc, cc.Clause})
							continue
						}
						for _, e := range cc.Exprs {
							if o := objOf(info, e); o != nil {
								rows = append(rows, dispatchRow{k, prefix + o.Name(), fnc, cc.Clause})
							}
						}
					}
				}
			}
		}
	}
	return rows
}

// emitsTypedArray: the function (an iterator) raises OnArray with a constant array type; returns the constant names.
func emitsTypedArray(p *core.Program, f *types.Func) []string {
	d := p.FuncDecl(f)
	pkg := p.Pkgs[core.Rel(f.Pkg())]
	if d == nil || pkg == nil {
		return nil
	}
	seen := map[string]bool{}
	inspectCalls(pkg.TypesInfo, d.Body, func(call *ast.CallExpr, c *types.Func) {
		if c != nil && core.InModule(c) && c.Pkg() == f.Pkg() && c != f && strings.HasPrefix(c.Name(), "iterate") {
			// platform-dependent iterators delegate to the fixed-width one
			for _, at := range emitsTypedArray(p, c) {
				seen[at] = true
			}
		}
		if c == nil || c.Name() != "OnArray" || len(call.Args) != 3 {
			return
		}
		if o := objOf(pkg.TypesInfo, call.Args[0]); o != nil && strings.HasPrefix(o.Name(), "ArrayType") {
			seen[o.Name()] = true
		}
	})
	return sortedKeys(seen)
}

func checkC04(r *core.Run, p *core.Program) {
	r.Rule("C04.units", "chunk lengths (element counts) and delivered data lengths (byte counts) are never added, subtracted or compared without conversion by the element width, in the builder, the validator, the CBE codec and the CTE array engine (8-bit string contexts exempt).")
	checkUnits(r, p, "C04.units", "builder", "rules", "cbe", "cte")

	r.Rule("C04.kind-dispatch", "the marshaling side's and the unmarshaling side's reflect-kind dispatch tables agree: every (container kind, element kind) row for which the iterator emits a typed array has a row of its own on the builder side (otherwise the typed array event lands in the generic slice/array builder, which treats it as one element), and every special type (UID, time, compact time, URL, big numbers, media, node, edge) handled on one side is handled on the other.")
	r.Rule("C04.retained-bytes", "a builder that keeps a byte slice handed in by an event copies it first (the decoders reuse their buffers), and a slice field that was stored away is not truncated and refilled.")
	r.Rule("C04.index-path", "recursive struct walkers on both sides store a fresh copy of the field index path (no append onto the recursion's path parameter).")
	//r.Rule("C04.edge-end", "a builder that stacks itself when a container begins leaves the stack at the container's end event (or when its child completes), never from a value event (shared with C06).")
	r.Rule("C04.wrapper-shape", "a wrapper builder hands the same destination (its element / pointee / next value) to the delegate in every BuildFrom* method: a method that passes the incoming destination where its siblings pass the wrapper's own element stores the value in the wrong place.")
	//r.Rule("C04.tables", "the CBE code/width/array/chunk-header/time tables and the CTE token/escape/array-format agreements that a marshal-unmarshal round trip rests on (C01.*, C02.tokens, C02.escapes, C22.float-order).")
	r.NotDecide("equality of the resulting Go value; reflect.StructOf type spaces; long-array contents")

	// ---- kind dispatch --------------------------------------------------------------------------------------
	itf := findFn(p, "iterator", "Session.getDefaultIteratorForType")
	blf := findFn(p, "builder", "Session.defaultBuilderGeneratorForType")
	if itf == nil || blf == nil {
		r.Undecided("C04.kind-dispatch", "iterator.Session.getDefaultIteratorForType / builder.Session.defaultBuilderGeneratorForType")
	} else {
		irows, brows := extractKindDispatch(itf), extractKindDispatch(blf)
		r.Floor("C04.kind-dispatch", "iterator dispatch rows", len(irows), 60)
		r.Floor("C04.kind-dispatch", "builder dispatch rows", len(brows), 55)
		bmap := map[string]dispatchRow{}
		for _, b := range brows {
			bmap[b.Key()] = b
		}
		imap := map[string]dispatchRow{}
		for _, i := range irows {
			imap[i.Key()] = i
		}
		for _, row := range irows {
			switch {
			case strings.HasPrefix(row.Sub, "elem:"):
				ats := emitsTypedArray(p, row.Fn)
				if len(ats) == 0 {
					continue
				}
				_, ok := bmap[row.Key()]
				r.Check("C04.kind-dispatch", row.Key()+"|typed array row on the builder side", row.Pos.Pos(), ok,
					fmt.Sprintf("%s values are marshaled as a typed array (%s by %s) but the builder has no row for this element kind: the array event reaches the generic %s builder, which treats it as a single element, so the value cannot be unmarshaled into the type it was marshaled from", strings.ToLower(row.Outer)+" of "+strings.TrimPrefix(row.Sub, "elem:"), strings.Join(ats, "/"), row.Fn.Name(), strings.ToLower(row.Outer)))
			case strings.HasPrefix(row.Sub, "type:"):
				_, ok := bmap[row.Key()]
				if !ok && row.Outer == "Ptr" {
					// pointer special cases fall back to the generic pointer builder wrapping the element's builder
					_, ok = bmap["Struct/type:"+strings.Replace(strings.TrimPrefix(row.Sub, "type:"), "TypeP", "Type", 1)]
				}
				r.Check("C04.kind-dispatch", row.Key()+"|special type handled on the builder side", row.Pos.Pos(), ok,
					fmt.Sprintf("the special type %s is marshaled by %s but the builder's dispatch has no row for it", strings.TrimPrefix(row.Sub, "type:"), row.Fn.Name()))
			case row.Sub == "" || row.Sub == "default":
				_, ok := bmap[row.Key()]
				r.Check("C04.kind-dispatch", row.Key()+"|kind handled on the builder side", row.Pos.Pos(), ok, "the builder's dispatch has no row for kind "+row.Key())
			}
		}
		for _, row := range brows {
			if strings.HasPrefix(row.Sub, "type:") {
				_, ok := imap[row.Key()]
				r.Check("C04.kind-dispatch", row.Key()+"|special type handled on the iterator side", row.Pos.Pos(), ok,
					fmt.Sprintf("the special type %s has a builder (%s) but the iterator's dispatch has no row for it: it would be marshaled as a generic struct/pointer", strings.TrimPrefix(row.Sub, "type:"), row.Fn.Name()))
			}
		}
	}

	// ---- retained bytes / index path ------------------------------------------------------------------------
	n := checkRetainedBytes(r, p, "C04.retained-bytes", nil)
	r.Floor("C04.retained-bytes", "event-facing byte-slice parameters in package builder", n, 40)
	checkStoreThenReuse(r, p, "C04.retained-bytes", "builder")
	checkIndexPath(r, p, "C04.index-path")

	// ---- wrapper shape -----------------------------------------------------------------------------------------
	c04WrapperShape(r, p)

}

// c04WrapperShape: in each wrapper builder type, the destination argument handed to the delegate has the same shape in
// every BuildFrom* method.
func c04WrapperShape(r *core.Run, p *core.Program) {
	pkg := p.Pkg("builder")
	info := pkg.TypesInfo
	type obs struct {
		method string
		shape  string
		pos    ast.Node
	}
	byType := map[string][]obs{}
	for _, f := range funcsOf(pkg) {
		rn := recvNamed(f.Obj)
		if rn == nil || !strings.HasPrefix(f.Obj.Name(), "BuildFrom") || f.Obj.Name() == "BuildFromLocalReference" {
			continue
		}
		sig := f.Obj.Type().(*types.Signature)
		// the delegate call: a call of the same method name on something else, last argument = destination
		inspectCalls(info, f.Decl.Body, func(call *ast.CallExpr, c *types.Func) {
			if c == nil || c.Name() != f.Obj.Name() || len(call.Args) == 0 {
				return
			}
			last := call.Args[len(call.Args)-1]
			if !typeIs(info.TypeOf(last), "reflect", "Value") {
				return
			}
			shape := exprStr(last)
			// normalise: the method's own destination parameter
			if o := objOf(info, last); o != nil && paramIndex(f.Obj, o) >= 0 && paramIndex(f.Obj, o) == sig.Params().Len()-1 {
				shape = "<incoming destination>"
			}
			byType[rn.Obj().Name()] = append(byType[rn.Obj().Name()], obs{f.Obj.Name(), shape, call})
		})
	}
	nTypes := 0
	for _, tname := range sortedKeys(byType) {
		os := byType[tname]
		if len(os) < 8 {
			continue // not a wrapper over the whole event set
		}
		counts := map[string]int{}
		for _, o := range os {
			counts[o.shape]++
		}
		// majority shape
		var shapes []string
		for s := range counts {
			shapes = append(shapes, s)
		}
		sort.Slice(shapes, func(i, j int) bool {
			if counts[shapes[i]] != counts[shapes[j]] {
				return counts[shapes[i]] > counts[shapes[j]]
			}
			return shapes[i] < shapes[j]
		})
		major := shapes[0]
		if counts[major]*4 < len(os)*3 {
			continue // no dominant shape: this type legitimately uses different destinations
		}
		nTypes++
		for _, o := range os {
			r.Check("C04.wrapper-shape", "builder."+tname+"."+o.method+"|delegate destination", o.pos.Pos(), o.shape == major,
				fmt.Sprintf("%s.%s hands `%s` to the delegate as the destination; its %d sibling methods hand `%s`: the value is built into the wrong place", tname, o.method, o.shape, counts[major], major))
		}
	}
	r.Floor("C04.wrapper-shape", "wrapper builder types with a dominant destination shape", nTypes, 5)
}
