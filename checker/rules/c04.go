package rules

import (
	"verif/checker/core"
)

func init() { Registry["C04"] = checkC04 }

func checkC04(r *core.Run, p *core.Program) {
	r.Rule("C04.units", "chunk lengths (element counts) and delivered data lengths (byte counts) are never added, subtracted or compared without conversion by the element width, in the builder, the validator, the CBE codec and the CTE array engine (8-bit string contexts exempt).")
	checkUnits(r, p, "C04.units", "builder", "rules", "cbe", "cte")
}
