package rules

import (
	"fmt"
	"go/ast"
	"go/constant"
	"go/token"
	"go/types"
	"sort"
	"strings"

	"verif/checker/core"
)

func init() { Registry["C01"] = checkC01 }

// ---------------------------------------------------------------------------
// encoder side: which type codes does each Encoder event method write, in which plane, with which payload width

type cbeWrite struct {
	code   string // constant name
	val    int64
	plane7 bool
	width  string // "0","1","2","4","8","var","buf"
	pos    token.Pos
	via    string
}

type cbeModel struct {
	p        *core.Program
	info     *types.Info
	codeType *types.Named
	// writer helper -> payload width for WriteTypedNBits style helpers
	writerWidth map[*types.Func]string
}

func (m *cbeModel) isCode(e ast.Expr) (*types.Const, bool) {
	c, ok := objOf(m.info, stripConv(m.info, e)).(*types.Const)
	if !ok {
		return nil, false
	}
	if nt, ok := c.Type().(*types.Named); ok && nt.Obj() == m.codeType.Obj() {
		return c, true
	}
	return nil, false
}

// writesOf collects the constant-code writes reachable from function f (through package cbe functions).
func (m *cbeModel) writesOf(f *types.Func, seen map[*types.Func]bool, out *[]cbeWrite) {
	if seen[f] {
		return
	}
	seen[f] = true
	d := m.p.FuncDecl(f)
	if d == nil || d.Body == nil || core.Rel(f.Pkg()) != "cbe" {
		return
	}
	plane7 := false
	var visit func(n ast.Node) bool
	visit = func(n ast.Node) bool {
		switch s := n.(type) {
		case *ast.AssignStmt:
			// Buffer[0] = byte(code)
			if len(s.Lhs) == 1 && len(s.Rhs) == 1 {
				if ix, ok := s.Lhs[0].(*ast.IndexExpr); ok {
					if fld := fieldOf(m.info, ix.X); fld != nil && fld.Name() == "Buffer" {
						if c, ok := m.isCode(s.Rhs[0]); ok {
							v, _ := constant.Int64Val(c.Val())
							if c.Name() == "cbeTypePlane7f" {
								plane7 = true
								return true
							}
							*out = append(*out, cbeWrite{code: c.Name(), val: v, plane7: plane7, width: "buf", pos: s.Pos(), via: core.ObjName(f)})
						}
					}
				}
			}
		case *ast.CallExpr:
			cal := callee(m.info, s)
			if cal == nil {
				return true
			}
			if recvNamed(cal) != nil && recvNamed(cal).Obj().Name() == "Writer" && len(s.Args) >= 1 {
				if c, ok := m.isCode(s.Args[0]); ok {
					v, _ := constant.Int64Val(c.Val())
					if c.Name() == "cbeTypePlane7f" && cal.Name() == "WriteType" {
						plane7 = true
						return true
					}
					w, known := m.writerWidth[cal]
					if !known {
						w = "?" + cal.Name()
					}
					*out = append(*out, cbeWrite{code: c.Name(), val: v, plane7: plane7, width: w, pos: s.Pos(), via: core.ObjName(f)})
					plane7 = false
					return true
				}
			}
			if core.Rel(cal.Pkg()) == "cbe" {
				m.writesOf(cal, seen, out)
			}
		}
		return true
	}
	ast.Inspect(d.Body, visit)
}

// computeWriterWidths: for Writer methods whose first parameter is a type code, the payload width is the
// constant of the final FlushBufferFirstBytes(K) minus the 1 code byte; WriteType -> 0; loops -> "var".
func (m *cbeModel) computeWriterWidths() {
	m.writerWidth = map[*types.Func]string{}
	pkg := m.p.Pkg("cbe")
	for _, f := range funcsOf(pkg) {
		if rn := recvNamed(f.Obj); rn == nil || rn.Obj().Name() != "Writer" {
			continue
		}
		sig := f.Obj.Type().(*types.Signature)
		if sig.Params().Len() == 0 {
			continue
		}
		if nt, ok := sig.Params().At(0).Type().(*types.Named); !ok || nt.Obj() != m.codeType.Obj() {
			continue
		}
		width := ""
		hasLoop := false
		ast.Inspect(f.Decl.Body, func(n ast.Node) bool {
			switch s := n.(type) {
			case *ast.ForStmt, *ast.RangeStmt:
				hasLoop = true
			case *ast.CallExpr:
				cal := callee(m.info, s)
				if cal == nil {
					return true
				}
				switch cal.Name() {
				case "FlushBufferFirstBytes":
					if k, ok := constInt(m.info, s.Args[0]); ok {
						width = fmt.Sprint(k - 1)
					}
				case "WriteSingleByte":
					width = "0"
				}
			}
			return true
		})
		if hasLoop {
			width = "var"
		}
		if width != "" {
			m.writerWidth[f.Obj] = width
		}
	}
}

// ---------------------------------------------------------------------------
// decoder side

type cbeCase struct {
	codes   []string
	vals    []int64
	events  map[string]bool
	readers map[string]bool
	width   string
	arrays  map[string]bool // ArrayType constants mentioned
	pos     token.Pos
	clause  *ast.CaseClause
}

// readerWidths: Reader method -> bytes consumed when constant ("" when variable)
func (m *cbeModel) readerWidth(f *types.Func, depth int) string {
	d := m.p.FuncDecl(f)
	if d == nil || d.Body == nil || depth > 3 {
		return ""
	}
	w := ""
	ast.Inspect(d.Body, func(n ast.Node) bool {
		call, ok := n.(*ast.CallExpr)
		if !ok {
			return true
		}
		cal := callee(m.info, call)
		if cal == nil {
			return true
		}
		switch {
		case cal.Name() == "readIntoBuffer" && len(call.Args) == 1:
			if k, ok := constInt(m.info, call.Args[0]); ok {
				w = fmt.Sprint(k)
			}
		case cal.Name() == "Read" && typeIs(recvType(cal), "io", "Reader"):
			// Read(buffer[:K])
			if sl, ok := call.Args[0].(*ast.SliceExpr); ok && sl.High != nil {
				if k, ok := constInt(m.info, sl.High); ok {
					w = fmt.Sprint(k)
				}
			}
		case recvNamed(cal) != nil && recvNamed(cal).Obj().Name() == "Reader" && w == "":
			if x := m.readerWidth(cal, depth+1); x != "" {
				w = x
			}
		}
		return true
	})
	return w
}

func (m *cbeModel) caseInfo(cc *ast.CaseClause, seen map[*types.Func]bool) cbeCase {
	ci := cbeCase{events: map[string]bool{}, readers: map[string]bool{}, arrays: map[string]bool{}, pos: cc.Pos(), clause: cc}
	var walk func(n ast.Node)
	walk = func(n ast.Node) {
		ast.Inspect(n, func(n ast.Node) bool {
			switch s := n.(type) {
			case *ast.CallExpr:
				cal := callee(m.info, s)
				if cal == nil {
					return true
				}
				if rt := recvType(cal); rt != nil && typeIs(rt, "ce/events", "DataEventReceiver") {
					ci.events[cal.Name()] = true
					return true
				}
				if rn := recvNamed(cal); rn != nil && rn.Obj().Name() == "Reader" {
					ci.readers[cal.Name()] = true
					if w := m.readerWidth(cal, 0); w != "" && ci.width == "" {
						ci.width = w
					}
					if cal.Name() == "ReadBytes" && len(s.Args) == 1 {
						if k, ok := constInt(m.info, s.Args[0]); ok {
							ci.width = fmt.Sprint(k)
						}
					}
					return true
				}
				if core.Rel(cal.Pkg()) == "cbe" && !seen[cal] {
					seen[cal] = true
					if d := m.p.FuncDecl(cal); d != nil && d.Body != nil {
						walk(d.Body)
					}
				}
			case *ast.SelectorExpr:
				if c, ok := m.info.ObjectOf(s.Sel).(*types.Const); ok {
					if nt := namedOf(c.Type()); nt != nil && nt.Obj().Name() == "ArrayType" {
						ci.arrays[c.Name()] = true
					}
				}
			}
			return true
		})
	}
	for _, st := range cc.Body {
		walk(st)
	}
	return ci
}

func setStr(m map[string]bool) string {
	var ks []string
	for k := range m {
		ks = append(ks, k)
	}
	sort.Strings(ks)
	return "{" + strings.Join(ks, ",") + "}"
}

var intFamily = map[string]bool{"OnInt": true, "OnPositiveInt": true, "OnNegativeInt": true, "OnBigInt": true}
var boolFamily = map[string]bool{"OnBoolean": true, "OnTrue": true, "OnFalse": true}
var floatFamily = map[string]bool{"OnFloat": true, "OnBigFloat": true, "OnDecimalFloat": true, "OnBigDecimalFloat": true, "OnNan": true}
var arrayFamily = map[string]bool{"OnArray": true, "OnStringlikeArray": true, "OnArrayBegin": true, "OnArrayChunk": true, "OnArrayData": true, "OnMedia": true, "OnMediaBegin": true, "OnCustomBinary": true, "OnCustomBegin": true, "OnCustomText": true}

func familyOf(ev string) map[string]bool {
	switch {
	case intFamily[ev]:
		return intFamily
	case floatFamily[ev]:
		return floatFamily
	case arrayFamily[ev]:
		return arrayFamily
	case boolFamily[ev]:
		return boolFamily
	}
	return map[string]bool{ev: true}
}

func checkC01(r *core.Run, p *core.Program) {
	r.Rule("C01.codes", "every constant type code an Encoder event method can write (directly, through Writer helpers, or by storing it in the output buffer), in the plane it is written in, has a case in the decoder's dispatch for that plane, and that case raises an event of the same family as the encoder method (exactly the same event for positive/negative integer forms and for structural events).")
	r.Rule("C01.widths", "the number of payload bytes the writer emits for a fixed-width code equals the number of bytes the reader consumes in the decoder's case for that code; multi-byte values are assembled/disassembled little-endian with shift = 8*byte index on both sides.")
	r.Rule("C01.array-tables", "for every array type the encoder's code table, plane table and short-array table agree with the decoder: the long-form code maps back to the same array type in the plane the encoder uses, each short-array code decodes to the same element type with byte count = element count * element size, the short-form length mask equals the encoder's maximum short length, and the 16 short string codes decode length = code - base.")
	r.Rule("C01.chunk-header", "the chunk header is written as (count << 1) | continuation and read as (header >> 1, header & 1 == 1).")
	r.Rule("C01.time-table", "each compact-time kind is written with the code whose decoder case reads the same kind.")
	r.Rule("C01.encoder-state", "the CBE encoder and writer re-initialise, on every path of their per-document entry points, every field they modify while encoding (a writer that keeps the previous document's string sink sends array contents to the wrong destination).")
	r.Rule("C01.buffer-capacity", "data is copied into the CBE writer's scratch buffer only after ExpandBufferTo(len(src)) on every path, and the result of copy() does not decide how much is flushed (copy() stops at the destination's length: the array header would announce more bytes than are written).")
	checkBufferCapacity(r, p, "C01.buffer-capacity", "cbe")
	r.Rule("C01.no-unsafe-views", "no library package other than internal/arrays (judged by C26) imports package unsafe: in particular no decoded string or slice is a reinterpreted view of the reader's reused buffer.")
	{
		nPk := 0
		for _, rel := range core.LibraryPackages {
			if rel == "internal/arrays" || rel == "cte/parser" {
				continue
			}
			nPk++
			pk := p.Pkg(rel)
			for _, file := range pk.Syntax {
				for _, imp := range file.Imports {
					if imp.Path.Value == `"unsafe"` {
						r.Fail("C01.no-unsafe-views", rel+"|imports unsafe", imp.Pos(), "package "+rel+" imports unsafe: a value handed to the event receiver can then be a view of a buffer the decoder reuses, and changes after the event returned")
					}
				}
			}
		}
		r.Pass("C01.no-unsafe-views", "library packages|no unsafe outside internal/arrays", token.NoPos, "")
		r.Count("C01.no-unsafe-views packages scanned", nPk)
	}
	r.NotDecide("value equality of payloads (integer width selection is C22; float bit patterns, NaN payloads, time fields and the third-party ULEB128/compact-float/compact-time codecs are runtime-valued)")
	r.Assume("negative zero written as the negative 8-bit integer form with value 0 and float specials written as decimal-float specials cross event families by design (CE specification); they are exempt from the same-family rule")

	pkg := p.Pkg("cbe")
	info := pkg.TypesInfo
	codeT := p.LookupType("cbe", "cbeTypeField")
	if codeT == nil {
		r.Undecided("C01.codes", "cbe.cbeTypeField")
		return
	}
	m := &cbeModel{p: p, info: info, codeType: codeT.Type().(*types.Named)}
	m.computeWriterWidths()

	// decoder tables
	mainLoop := findFn(p, "cbe", "Decoder.runMainDecodeLoop")
	plane7 := findFn(p, "cbe", "Decoder.decodePlane7f")
	if mainLoop == nil || plane7 == nil {
		r.Undecided("C01.codes", "cbe.Decoder.runMainDecodeLoop / decodePlane7f")
		return
	}
	type planeTable struct {
		byVal  map[int64]*cbeCase
		masked map[int64]*cbeCase // cases of a `switch code & mask`
		mask   int64
		deflt  *cbeCase
	}
	extract := func(f *fn) planeTable {
		pt := planeTable{byVal: map[int64]*cbeCase{}, masked: map[int64]*cbeCase{}}
		ast.Inspect(f.Decl.Body, func(n ast.Node) bool {
			sw, ok := n.(*ast.SwitchStmt)
			if !ok || sw.Tag == nil {
				return true
			}
			tagT, _ := info.TypeOf(sw.Tag).(*types.Named)
			if tagT == nil || tagT.Obj() != codeT {
				return true
			}
			masked := false
			if be, ok := stripParens(sw.Tag).(*ast.BinaryExpr); ok && be.Op == token.AND {
				masked = true
				if k, ok := constInt(info, be.Y); ok {
					pt.mask = k
				}
			}
			for _, c := range switchTable(info, sw) {
				ci := m.caseInfo(c.Clause, map[*types.Func]bool{})
				if c.Default {
					if !masked {
						cc := ci
						pt.deflt = &cc
					}
					continue
				}
				for i, cv := range c.Consts {
					if cv == nil {
						continue
					}
					v, _ := constant.Int64Val(constant.ToInt(cv))
					cc := ci
					if co, ok := objOf(info, c.Exprs[i]).(*types.Const); ok {
						cc.codes = []string{co.Name()}
					}
					if masked {
						pt.masked[v] = &cc
					} else {
						pt.byVal[v] = &cc
					}
				}
			}
			return false
		})
		return pt
	}
	mainT := extract(mainLoop)
	p7T := extract(plane7)
	r.Floor("C01.codes", "main-plane decoder cases", len(mainT.byVal), 50)
	r.Floor("C01.codes", "plane-7f decoder cases", len(p7T.byVal)+len(p7T.masked), 14)

	// plane-7f default: table lookup cbePlane7fTypeToArrayType
	p7Array := map[int64]string{}
	arrToCode := map[string]*types.Const{}
	isP7 := map[string]bool{}
	tableOf := func(name string, f func(key *types.Const, val ast.Expr)) bool {
		v, _ := pkg.Types.Scope().Lookup(name).(*types.Var)
		if v == nil {
			return false
		}
		found := false
		for _, file := range pkg.Syntax {
			ast.Inspect(file, func(n ast.Node) bool {
				vs, ok := n.(*ast.ValueSpec)
				if !ok {
					return true
				}
				for i, id := range vs.Names {
					if info.ObjectOf(id) == v && i < len(vs.Values) {
						if cl, ok := vs.Values[i].(*ast.CompositeLit); ok {
							found = true
							for _, el := range cl.Elts {
								if kv, ok := el.(*ast.KeyValueExpr); ok {
									if kc, ok := objOf(info, kv.Key).(*types.Const); ok {
										f(kc, kv.Value)
									}
								}
							}
						}
					}
				}
				return true
			})
		}
		return found
	}
	if !tableOf("cbePlane7fTypeToArrayType", func(k *types.Const, v ast.Expr) {
		kv, _ := constant.Int64Val(k.Val())
		if c, ok := objOf(info, v).(*types.Const); ok {
			p7Array[kv] = c.Name()
		}
	}) {
		r.Undecided("C01.array-tables", "cbe.cbePlane7fTypeToArrayType")
	}
	if !tableOf("arrayTypeToCBEType", func(k *types.Const, v ast.Expr) {
		if c, ok := objOf(info, v).(*types.Const); ok {
			arrToCode[k.Name()] = c
		}
	}) {
		r.Undecided("C01.array-tables", "cbe.arrayTypeToCBEType")
	}
	if !tableOf("isPlane7fArray", func(k *types.Const, v ast.Expr) {
		if cv := constVal(info, v); cv != nil {
			isP7[k.Name()] = constant.BoolVal(cv)
		}
	}) {
		r.Undecided("C01.array-tables", "cbe.isPlane7fArray")
	}

	// ---- encoder writes
	iface := p.LookupType("ce/events", "DataEventReceiver")
	it := iface.Type().Underlying().(*types.Interface)
	nWrites := 0
	for i := 0; i < it.NumMethods(); i++ {
		ev := it.Method(i).Name()
		f := p.LookupFunc("cbe", "Encoder."+ev)
		if f == nil {
			r.Undecided("C01.codes", "cbe.Encoder."+ev)
			continue
		}
		var ws []cbeWrite
		m.writesOf(f, map[*types.Func]bool{}, &ws)
		seenKey := map[string]bool{}
		for _, w := range ws {
			key := fmt.Sprintf("cbe.Encoder.%s writes %s%s", ev, map[bool]string{true: "7f:", false: ""}[w.plane7], w.code)
			if seenKey[key] {
				continue
			}
			seenKey[key] = true
			nWrites++
			tab := mainT
			if w.plane7 {
				tab = p7T
			}
			cc := tab.byVal[w.val]
			if cc == nil && w.plane7 {
				// short array codes are matched by the masked switch; long arrays by the default table
				if _, ok := p7Array[w.val]; ok {
					cc = tab.deflt
				}
			}
			if cc == nil {
				r.Fail("C01.codes", key, w.pos, fmt.Sprintf("the encoder writes code %s (0x%02x) in the %s plane (via %s) but the decoder has no case for it there", w.code, w.val, map[bool]string{true: "7f", false: "main"}[w.plane7], w.via))
				continue
			}
			// family
			fam := familyOf(ev)
			exempt := (w.code == "cbeTypeNegInt8" && floatFamily[ev]) || (w.code == "cbeTypeDecimal" && (floatFamily[ev])) || w.code == "cbeTypeNull"
			okFam := false
			for e := range cc.events {
				if fam[e] {
					okFam = true
				}
			}
			if ev == "OnPositiveInt" || ev == "OnNegativeInt" {
				okFam = cc.events[ev]
			}
			if w.code == "cbeTypeNull" {
				okFam = cc.events["OnNull"]
			}
			if exempt && !okFam {
				okFam = len(cc.events) > 0
			}
			r.Check("C01.codes", key, w.pos, okFam, fmt.Sprintf("code %s written for event %s is decoded as %s: not the same kind of event", w.code, ev, setStr(cc.events)))
			// width
			switch w.width {
			case "0", "1", "2", "4", "8":
				dw := cc.width
				if dw == "" {
					dw = "0"
				}
				if w.width == "0" && (len(cc.readers) > 0) {
					// code followed by separately written payload (identifier, bytes, ULEB): not a fixed-width form
					continue
				}
				r.Check("C01.widths", key, w.pos, dw == w.width, fmt.Sprintf("the writer emits %s payload byte(s) after code %s but the decoder's case reads %s byte(s) (%s)", w.width, w.code, dw, setStr(cc.readers)))
			}
		}
	}
	r.Floor("C01.codes", "distinct (event, code) writes", nWrites, 45)

	// ---- little-endian assembly on both sides
	for _, spec := range []struct{ typ, prefix string }{{"Writer", "WriteTyped"}, {"Reader", "ReadUint"}} {
		for _, f := range funcsOf(pkg) {
			if rn := recvNamed(f.Obj); rn == nil || rn.Obj().Name() != spec.typ || !strings.HasPrefix(f.Decl.Name.Name, spec.prefix) {
				continue
			}
			checkShiftOffsets(r, "C01.widths", info, f, spec.typ == "Writer")
		}
	}

	// ---- array tables
	checkC01Arrays(r, p, m, mainT.byVal, p7T.byVal, p7T.masked, p7T.mask, p7Array, arrToCode, isP7)

	// ---- chunk header
	if f := findFn(p, "cbe", "Writer.WriteArrayChunkHeader"); f == nil {
		r.Undecided("C01.chunk-header", "cbe.Writer.WriteArrayChunkHeader")
	} else {
		e := &effectCtx{a: newAnalysis(p), p: p}
		got := e.summarize(f.Obj)
		r.Check("C01.chunk-header", "cbe.Writer.WriteArrayChunkHeader", f.Decl.Pos(), got == "(*cbe.Writer).WriteULEB($elementCount<<1|$moreChunksFollow)", "chunk header is written as `"+got+"`, required (count << 1) | continuation")
	}
	if f := findFn(p, "cbe", "Writer.WriteArrayChunkHeaderToBytes"); f != nil {
		e := &effectCtx{a: newAnalysis(p), p: p}
		got := e.summarize(f.Obj)
		r.Check("C01.chunk-header", "cbe.Writer.WriteArrayChunkHeaderToBytes", f.Decl.Pos(), strings.Contains(got, "$elementCount<<1|$moreChunksFollow") || !strings.Contains(got, "<<"), "chunk header is composed as `"+got+"`")
	}
	if f := findFn(p, "cbe", "Reader.ReadArrayChunkHeader"); f == nil {
		r.Undecided("C01.chunk-header", "cbe.Reader.ReadArrayChunkHeader")
	} else {
		ok := false
		ast.Inspect(f.Decl.Body, func(n ast.Node) bool {
			if ret, isRet := n.(*ast.ReturnStmt); isRet && len(ret.Results) == 2 {
				s0 := exprStr(ret.Results[0])
				s1 := exprStr(ret.Results[1])
				if strings.HasSuffix(s0, ">> 1") && (strings.HasSuffix(s1, "&1 == 1") || strings.HasSuffix(s1, "& 1 == 1") || strings.HasSuffix(s1, "&1 != 0")) {
					ok = true
				}
			}
			return true
		})
		r.Check("C01.chunk-header", "cbe.Reader.ReadArrayChunkHeader", f.Decl.Pos(), ok, "chunk header must be read as (header >> 1, header&1 == 1)")
	}

	// ---- float16: the bits the encoder's exactness test keeps must be exactly the bits the writer emits
	if f := findFn(p, "cbe", "Encoder.OnFloat"); f != nil {
		var mask uint64
		ast.Inspect(f.Decl.Body, func(n ast.Node) bool {
			if be, ok := n.(*ast.BinaryExpr); ok && be.Op == token.AND {
				if k, ok := constUint(info, be.Y); ok && k > 0xffff {
					mask = k
				}
			}
			return true
		})
		shift := int64(-1)
		if w := findFn(p, "cbe", "Writer.WriteFloat16"); w != nil {
			ast.Inspect(w.Decl.Body, func(n ast.Node) bool {
				if be, ok := n.(*ast.BinaryExpr); ok && be.Op == token.SHR {
					if k, ok := constInt(info, be.Y); ok {
						shift = k
					}
				}
				return true
			})
		}
		r.Check("C01.widths", "cbe.Encoder.OnFloat|float16 mask matches WriteFloat16", f.Decl.Pos(), shift == 16 && mask == 0xffff0000,
			fmt.Sprintf("the 16-bit float form writes the float32 pattern >> %d, but the exactness test keeps the bits 0x%08x: bits that pass the test are dropped when written (silent loss of precision)", shift, mask))
		if rd := findFn(p, "internal/common", "Float32FromFloat16Bits"); rd != nil {
			okShift := false
			ast.Inspect(rd.Decl.Body, func(n ast.Node) bool {
				if be, ok := n.(*ast.BinaryExpr); ok && be.Op == token.SHL {
					if k, ok := constInt(rd.Pkg.TypesInfo, be.Y); ok && k == 16 {
						okShift = true
					}
				}
				return true
			})
			r.Check("C01.widths", "internal/common.Float32FromFloat16Bits|<<16", rd.Decl.Pos(), okShift, "the decoder must place the 16 stored bits in the upper half of the float32 pattern")
		}
	}
	// ---- scratch buffer sizing: code byte + payload
	for _, f := range funcsOf(pkg) {
		storesCode, slices1 := false, false
		var expand *ast.CallExpr
		ast.Inspect(f.Decl.Body, func(n ast.Node) bool {
			switch s := n.(type) {
			case *ast.AssignStmt:
				if len(s.Lhs) == 1 {
					if ix, ok := s.Lhs[0].(*ast.IndexExpr); ok {
						if fld := fieldOf(info, ix.X); fld != nil && fld.Name() == "Buffer" {
							if k, isC := constInt(info, ix.Index); isC && k == 0 {
								storesCode = true
							}
						}
					}
				}
			case *ast.SliceExpr:
				if fld := fieldOf(info, s.X); fld != nil && fld.Name() == "Buffer" && s.Low != nil {
					if k, isC := constInt(info, s.Low); isC && k == 1 {
						slices1 = true
					}
				}
			case *ast.CallExpr:
				if cal := callee(info, s); cal != nil && cal.Name() == "ExpandBufferTo" {
					expand = s
				}
			}
			return true
		})
		if storesCode && slices1 && expand != nil {
			ok := false
			if be, isB := stripParens(expand.Args[0]).(*ast.BinaryExpr); isB && be.Op == token.ADD {
				if k, isC := constInt(info, be.Y); isC && k >= 1 {
					ok = true
				}
				if k, isC := constInt(info, be.X); isC && k >= 1 {
					ok = true
				}
			}
			r.Check("C01.widths", f.Name()+"|buffer holds code byte + payload", expand.Pos(), ok, "the scratch buffer is sized "+exprStr(expand.Args[0])+" but holds the type code at [0] plus the payload at [1:]: when the payload exactly fills the buffer its last byte is silently dropped")
		}
	}
	// ---- encoder/writer carry nothing from one document into the next (stale sinks would misplace array contents)
	for _, spec := range resetSpecs {
		if spec.rel == "cbe" && (spec.typ == "Writer" || spec.typ == "Encoder") {
			checkResetSpec(r, p, "C01.encoder-state", spec)
		}
	}

	// ---- time table
	tableOf("ctimeToCBEType", func(k *types.Const, v ast.Expr) {
		c, ok := objOf(info, v).(*types.Const)
		if !ok {
			return
		}
		cv, _ := constant.Int64Val(c.Val())
		cc := mainT.byVal[cv]
		want := map[string]string{"TimeTypeDate": "ReadDate", "TimeTypeTime": "ReadTime", "TimeTypeTimestamp": "ReadTimestamp"}[k.Name()]
		r.Check("C01.time-table", "ctimeToCBEType["+k.Name()+"]", v.Pos(), cc != nil && cc.events["OnTime"] && cc.readers[want],
			fmt.Sprintf("time kind %s is written with code %s whose decoder case does not read that kind with %s", k.Name(), c.Name(), want))
	})
}

// checkShiftOffsets: byte k of a multi-byte value is value>>(8k) (writer: Buffer[k+1] = byte(v >> 8k); reader: T(buffer[k]) << 8k).
func checkShiftOffsets(r *core.Run, rule string, info *types.Info, f *fn, isWriter bool) {
	bad := ""
	n := 0
	ast.Inspect(f.Decl.Body, func(nd ast.Node) bool {
		if isWriter {
			as, ok := nd.(*ast.AssignStmt)
			if !ok || len(as.Lhs) != 1 || len(as.Rhs) != 1 {
				return true
			}
			ix, ok := as.Lhs[0].(*ast.IndexExpr)
			if !ok {
				return true
			}
			k, isC := constInt(info, ix.Index)
			if !isC || k == 0 {
				return true
			}
			rhs := stripConv(info, as.Rhs[0])
			shift := int64(0)
			if be, ok := rhs.(*ast.BinaryExpr); ok && be.Op == token.SHR {
				s, isC := constInt(info, be.Y)
				if !isC {
					return true
				}
				shift = s
			} else if _, ok := rhs.(*ast.Ident); !ok {
				return true
			}
			n++
			if shift != 8*(k-1) {
				bad = fmt.Sprintf("Buffer[%d] receives value >> %d, expected >> %d", k, shift, 8*(k-1))
			}
		} else {
			be, ok := nd.(*ast.BinaryExpr)
			if !ok || be.Op != token.SHL {
				return true
			}
			s, isC := constInt(info, be.Y)
			if !isC {
				return true
			}
			ix, ok := stripConv(info, be.X).(*ast.IndexExpr)
			if !ok {
				return true
			}
			k, isC := constInt(info, ix.Index)
			if !isC {
				return true
			}
			n++
			if s != 8*k {
				bad = fmt.Sprintf("buffer[%d] is shifted left by %d, expected %d", k, s, 8*k)
			}
		}
		return true
	})
	if n > 0 {
		r.Check(rule, f.Name()+"|little-endian", f.Decl.Pos(), bad == "", "byte order broken: "+bad)
	}
}

func checkC01Arrays(r *core.Run, p *core.Program, m *cbeModel, mainT, p7T, p7Masked map[int64]*cbeCase, mask int64, p7Array map[int64]string, arrToCode map[string]*types.Const, isP7 map[string]bool) {
	info := m.info
	evPkg := p.Pkg("ce/events")
	// element sizes from events.arrayTypeElementSizes
	elemBits := map[string]int64{}
	for _, file := range evPkg.Syntax {
		ast.Inspect(file, func(n ast.Node) bool {
			vs, ok := n.(*ast.ValueSpec)
			if !ok || len(vs.Names) != 1 || vs.Names[0].Name != "arrayTypeElementSizes" || len(vs.Values) != 1 {
				return true
			}
			if cl, ok := vs.Values[0].(*ast.CompositeLit); ok {
				for _, el := range cl.Elts {
					if kv, ok := el.(*ast.KeyValueExpr); ok {
						if kc, ok := objOf(evPkg.TypesInfo, kv.Key).(*types.Const); ok {
							if v, ok := constInt(evPkg.TypesInfo, kv.Value); ok {
								elemBits[kc.Name()] = v
							}
						}
					}
				}
			}
			return true
		})
	}
	if len(elemBits) == 0 {
		r.Undecided("C01.array-tables", "events.arrayTypeElementSizes")
	}
	// long forms
	names := sortedKeys(arrToCode)
	for _, at := range names {
		c := arrToCode[at]
		cv, _ := constant.Int64Val(c.Val())
		key := "arrayTypeToCBEType[" + at + "]"
		if at == "ArrayTypeCustomText" {
			// CBE cannot express custom text (C03): the entry is never written
			continue
		}
		if isP7[at] {
			got := p7Array[cv]
			if cc := p7T[cv]; cc != nil && got == "" {
				// explicit case (media, remote reference)
				for a := range cc.arrays {
					got = a
				}
				if cc.events["OnMediaBegin"] {
					got = "ArrayTypeMedia"
				}
			}
			r.Check("C01.array-tables", key, c.Pos(), got == at, fmt.Sprintf("array type %s is written in plane 7f with code %s, which the decoder maps to %s", at, c.Name(), orNone(got)))
		} else {
			cc := mainT[cv]
			ok := cc != nil && (cc.arrays[at] || (at == "ArrayTypeCustomBinary" && cc.events["OnCustomBegin"]))
			got := "nothing"
			if cc != nil {
				got = setStr(cc.arrays) + setStr(cc.events)
			}
			r.Check("C01.array-tables", key, c.Pos(), ok, fmt.Sprintf("array type %s is written in the main plane with code %s, which the decoder maps to %s", at, c.Name(), got))
		}
	}
	r.Floor("C01.array-tables", "array types with a long-form code", len(names), 17)

	// short forms: arrayInfo
	pkg := p.Pkg("cbe")
	nShort := 0
	for _, file := range pkg.Syntax {
		ast.Inspect(file, func(n ast.Node) bool {
			vs, ok := n.(*ast.ValueSpec)
			if !ok || len(vs.Names) != 1 || vs.Names[0].Name != "arrayInfo" || len(vs.Values) != 1 {
				return true
			}
			cl, ok := vs.Values[0].(*ast.CompositeLit)
			if !ok {
				return true
			}
			for _, el := range cl.Elts {
				kv, ok := el.(*ast.KeyValueExpr)
				if !ok {
					continue
				}
				kc, ok := objOf(info, kv.Key).(*types.Const)
				if !ok {
					continue
				}
				var short *types.Const
				support, plane := false, false
				if inner, ok := kv.Value.(*ast.CompositeLit); ok {
					for _, fe := range inner.Elts {
						fkv, ok := fe.(*ast.KeyValueExpr)
						if !ok {
							continue
						}
						switch fkv.Key.(*ast.Ident).Name {
						case "shortArrayType":
							short, _ = objOf(info, fkv.Value).(*types.Const)
						case "hasSmallArraySupport":
							if v := constVal(info, fkv.Value); v != nil {
								support = constant.BoolVal(v)
							}
						case "isPlane7f":
							if v := constVal(info, fkv.Value); v != nil {
								plane = constant.BoolVal(v)
							}
						}
					}
				}
				if !support || short == nil {
					continue
				}
				nShort++
				at := kc.Name()
				sv, _ := constant.Int64Val(short.Val())
				key := "arrayInfo[" + at + "]"
				if plane {
					cc := p7Masked[sv]
					ok := cc != nil && cc.arrays[at] && len(cc.arrays) == 1 && cc.events["OnArray"]
					r.Check("C01.array-tables", key, kv.Pos(), ok, fmt.Sprintf("short-array code %s (plane 7f) for %s is not decoded as OnArray(%s, …)", short.Name(), at, at))
					if cc != nil && ok {
						// byte count = elementCount * size/8
						wantMul := elemBits[at] / 8
						mul := int64(1)
						ast.Inspect(cc.clause, func(nn ast.Node) bool {
							if be, ok := nn.(*ast.BinaryExpr); ok && be.Op == token.MUL {
								if k, ok := constInt(info, be.Y); ok {
									mul = k
								}
							}
							return true
						})
						r.Check("C01.array-tables", key+"|byte-count", cc.pos, mul == wantMul, fmt.Sprintf("short %s array reads elementCount*%d bytes, element size is %d bytes", at, mul, wantMul))
					}
					r.Check("C01.array-tables", key+"|plane-agrees", kv.Pos(), isP7[at], "arrayInfo says plane 7f but isPlane7fArray says main plane for "+at)
				} else {
					// short strings: base code in the main plane
					cc := mainT[sv]
					r.Check("C01.array-tables", key, kv.Pos(), cc != nil && cc.arrays[at], fmt.Sprintf("short-array base code %s (main plane) for %s is not decoded as that array type", short.Name(), at))
					// the 15 following codes compute length = code - base
					okLen := false
					if c1 := mainT[sv+1]; c1 != nil && c1.arrays[at] {
						ast.Inspect(c1.clause, func(nn ast.Node) bool {
							if be, ok := nn.(*ast.BinaryExpr); ok && be.Op == token.SUB {
								if c, ok := objOf(info, be.Y).(*types.Const); ok && c == short {
									okLen = true
								}
							}
							return true
						})
						for d := int64(1); d <= 15; d++ {
							if mainT[sv+d] == nil || mainT[sv+d].clause != c1.clause {
								okLen = false
							}
						}
					}
					r.Check("C01.array-tables", key+"|length=code-base", kv.Pos(), okLen, "the 15 short string codes must share one case computing length = code - "+short.Name())
				}
			}
			return false
		})
	}
	r.Floor("C01.array-tables", "short-array rows", nShort, 12)
	// mask vs max small length
	if c, ok := pkg.Types.Scope().Lookup("maxSmallArrayLength").(*types.Const); ok {
		v, _ := constant.Int64Val(c.Val())
		r.Check("C01.array-tables", "maxSmallArrayLength==lengthMask", c.Pos(), v == 15 && (mask == 0xf0), fmt.Sprintf("encoder short-array limit %d vs decoder type mask 0x%x (length mask must be 0x0f)", v, mask))
	} else {
		r.Undecided("C01.array-tables", "cbe.maxSmallArrayLength")
	}
}
