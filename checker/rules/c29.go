package rules

import (
	"fmt"
	"go/ast"
	"go/token"
	"go/types"
	"os"
	"strings"

	"verif/checker/core"
)

func init() { Registry["C29"] = checkC29 }

// errSite: a call whose callee returns an error.
type errSite struct {
	f      *fn
	call   *ast.CallExpr
	callee *types.Func
	kind   string // "io" for reader/writer operations, "decode" third-party stream decoders, "other"
}

func returnsError(f *types.Func) int {
	sig, _ := f.Type().(*types.Signature)
	if sig == nil {
		return -1
	}
	for i := sig.Results().Len() - 1; i >= 0; i-- {
		if isErrorType(sig.Results().At(i).Type()) {
			return i
		}
	}
	return -1
}

// infallible writers: bytes.Buffer / strings.Builder document that their Write* methods always return a nil error
func infallible(f *types.Func) bool {
	rt := recvType(f)
	return rt != nil && (typeIs(rt, "bytes", "Buffer") || typeIs(rt, "strings", "Builder"))
}

func checkC29(r *core.Run, p *core.Program) {
	r.Rule("C29.no-dropped-error", "in the codec and API packages, the error result of every I/O operation (io.Writer.Write, io.StringWriter.WriteString, io.Reader.Read, io.Copy/ReadAll, bufio Peek, the third-party stream decoders) is bound to a variable that is tested against nil, and the non-nil branch raises it (panic / error helper) or returns it; it is never assigned to _ or left unused.")
	r.Rule("C29.boundary", "every marshal / encode / decode entry point converts a raised error into its returned error: protected by a recover frame installed first, whose closure stores every non-nil recovered value in the named error result (C07.recover), or a pure delegation to such a function that returns the callee's error.")
	r.Rule("C29.no-swallow", "every other recover() in the module re-raises what it recovered (wrapPanic / panic) or handles only the parser's own RecognitionException type; none discards an arbitrary panic.")
	r.Rule("C29.propagate", "the wrapper entry points (MarshalToDocument, UnmarshalFromDocument, the ce.* functions, the universal decoder) return the error they got from the callee unchanged; Unmarshal returns the decoder's error; no buffered writer is left unflushed.")
	r.NotDecide("writers that fail after reporting success; errors of the third-party decoders that they themselves swallow")
	a := newAnalysis(p)
	dump := os.Getenv("VERIF_DUMP") != ""

	// forwarding helpers: unexported functions whose body is `…, err := <I/O call>; return err` (optionally with
	// other statements before): they hand the error to their caller, which is then judged like a direct I/O site
	forwarders := map[*types.Func]bool{}
	for _, rel := range []string{"cbe", "cte", "ce"} {
		pkg := p.Pkg(rel)
		info := pkg.TypesInfo
		for _, f := range funcsOf(pkg) {
			sig := f.Obj.Type().(*types.Signature)
			if f.Obj.Exported() || sig.Results().Len() != 1 || !isErrorType(sig.Results().At(0).Type()) {
				continue
			}
			body := f.Decl.Body.List
			if len(body) < 2 {
				continue
			}
			as, ok1 := body[len(body)-2].(*ast.AssignStmt)
			ret, ok2 := body[len(body)-1].(*ast.ReturnStmt)
			if !ok1 || !ok2 || len(ret.Results) != 1 || len(as.Rhs) != 1 {
				continue
			}
			call, ok := as.Rhs[0].(*ast.CallExpr)
			if !ok {
				continue
			}
			cal := callee(info, call)
			if cal == nil || returnsError(cal) < 0 || returnsError(cal) >= len(as.Lhs) {
				continue
			}
			rt := recvType(cal)
			if rt == nil || !(typeIs(rt, "io", "Writer") || typeIs(rt, "io", "StringWriter") || typeIs(rt, "io", "Reader")) {
				continue
			}
			if o := objOf(info, as.Lhs[returnsError(cal)]); o != nil && o == objOf(info, ret.Results[0]) {
				forwarders[f.Obj] = true
			}
		}
	}
	nSites := 0
	for _, rel := range []string{"cbe", "cte", "ce"} {
		pkg := p.Pkg(rel)
		info := pkg.TypesInfo
		for _, f := range funcsOf(pkg) {
			// map call -> how its results are bound
			parent := map[*ast.CallExpr]ast.Node{}
			ast.Inspect(f.Decl.Body, func(n ast.Node) bool {
				switch s := n.(type) {
				case *ast.AssignStmt:
					for _, rhs := range s.Rhs {
						if c, ok := rhs.(*ast.CallExpr); ok {
							parent[c] = s
						}
					}
				case *ast.ExprStmt:
					if c, ok := s.X.(*ast.CallExpr); ok {
						parent[c] = s
					}
				case *ast.ReturnStmt:
					for _, res := range s.Results {
						if c, ok := res.(*ast.CallExpr); ok {
							parent[c] = s
						}
					}
				case *ast.DeferStmt:
					parent[s.Call] = s
				case *ast.GoStmt:
					parent[s.Call] = s
				}
				return true
			})
			inspectCalls(info, f.Decl.Body, func(call *ast.CallExpr, cal *types.Func) {
				if cal == nil {
					return
				}
				ei := returnsError(cal)
				if ei < 0 || infallible(cal) {
					return
				}
				kind := ""
				rt := recvType(cal)
				switch {
				case rt != nil && (typeIs(rt, "io", "Writer") || typeIs(rt, "io", "StringWriter") || typeIs(rt, "io", "Reader")):
					kind = "io"
				case cal.Pkg() != nil && (cal.Pkg().Path() == "io" || cal.Pkg().Path() == "io/ioutil") && (cal.Name() == "Copy" || cal.Name() == "ReadAll" || cal.Name() == "ReadFull" || cal.Name() == "WriteString"):
					kind = "io"
				case rt != nil && typeIs(rt, "bufio", "Reader"), rt != nil && typeIs(rt, "bufio", "Writer"):
					kind = "io"
				case !core.InModule(cal) && takesReader(cal):
					kind = "decode"
				case forwarders[cal]:
					kind = "io" // an unexported helper that hands the error of its I/O call straight to its caller
				default:
					return
				}
				nSites++
				key := fmt.Sprintf("%s|%s %s", f.Name(), kind, strings.TrimPrefix(cal.FullName(), "("))
				if forwarders[cal] {
					key = fmt.Sprintf("%s|%s %s", f.Name(), kind, core.ObjName(cal))
				}
				if dump {
					fmt.Printf("errsite %s %s\n", p.Pos(call.Pos()), key)
				}
				switch par := parent[call].(type) {
				case *ast.ReturnStmt:
					r.Pass("C29.no-dropped-error", key, call.Pos(), "returned directly")
				case *ast.AssignStmt:
					// which lhs receives the error?
					nres := cal.Type().(*types.Signature).Results().Len()
					var errLhs ast.Expr
					if len(par.Lhs) == nres {
						errLhs = par.Lhs[ei]
					}
					id, _ := errLhs.(*ast.Ident)
					if id == nil || id.Name == "_" {
						r.Fail("C29.no-dropped-error", key, call.Pos(), "the error result of "+cal.Name()+" is discarded (assigned to _): an I/O failure here is reported as success")
						return
					}
					errObj := info.ObjectOf(id)
					// tested against nil with a leaving branch, after the call
					handled := false
					ast.Inspect(f.Decl.Body, func(n ast.Node) bool {
						// `switch { …; case err != nil: raise }`
						if cc, isCase := n.(*ast.CaseClause); isCase && cc.End() >= call.Pos() && len(cc.List) == 1 {
							if be, ok := stripParens(cc.List[0]).(*ast.BinaryExpr); ok && be.Op == token.NEQ && objOf(info, be.X) == errObj && isNilExpr(info, be.Y) {
								if a.alwaysPanics(info, cc.Body) || raisesOrReturns(a, info, cc.Body, errObj) {
									handled = true
								}
							}
							return true
						}
						ifs, ok := n.(*ast.IfStmt)
						if !ok || ifs.End() < call.Pos() {
							return true
						}
						be, ok := stripParens(ifs.Cond).(*ast.BinaryExpr)
						if ok && be.Op == token.EQL && objOf(info, be.X) == errObj && isNilExpr(info, be.Y) {
							// `if err == nil { … } else { raise }`
							if eb, isBlock := ifs.Else.(*ast.BlockStmt); isBlock && (a.alwaysPanics(info, eb.List) || raisesOrReturns(a, info, eb.List, errObj)) {
								handled = true
							}
							return true
						}
						if !ok || be.Op != token.NEQ || objOf(info, be.X) != errObj || !isNilExpr(info, be.Y) {
							return true
						}
						if a.alwaysPanics(info, ifs.Body.List) || raisesOrReturns(a, info, ifs.Body.List, errObj) {
							handled = true
						}
						return true
					})
					// or the function is a forwarding helper: `…, err := io(); return err` (its callers are judged instead)
					if !handled && forwarders[f.Obj] {
						handled = true
					}
					// or the named error result itself, when nothing but a bare return follows the assignment
					if !handled {
						sig := f.Obj.Type().(*types.Signature)
						isNamed := false
						for i := 0; i < sig.Results().Len(); i++ {
							if sig.Results().At(i) == errObj {
								isNamed = true
							}
						}
						if isNamed {
							body := f.Decl.Body.List
							for i, st := range body {
								if st == ast.Stmt(par) {
									rest := body[i+1:]
									if len(rest) == 0 {
										handled = true
									} else if ret, ok := rest[0].(*ast.ReturnStmt); ok && len(ret.Results) == 0 {
										handled = true
									}
								}
							}
						}
					}
					r.Check("C29.no-dropped-error", key, call.Pos(), handled, "the error result of "+cal.Name()+" is stored in "+id.Name+" but no `"+id.Name+" != nil` branch raises or returns it: an I/O failure here is reported as success")
				default:
					r.Fail("C29.no-dropped-error", key, call.Pos(), "the error result of "+cal.Name()+" is not used at all (call statement): an I/O failure here is reported as success")
				}
			})
		}
	}
	r.Floor("C29.no-dropped-error", "I/O and stream-decoder call sites", nSites, 12)

	// the normalising reader adapter must never lose an error that arrived together with data
	for _, site := range ioReadSites(p, "cbe") {
		if site.f.Decl.Name.Name == "Read" {
			if rn := recvNamed(site.f.Obj); rn != nil && fieldOf(site.f.Pkg.TypesInfo, site.recv) != nil {
				checkAdapterContract(r, a, site.f, rn.Obj(), "C29.no-dropped-error")
			}
		}
	}

	// ---- boundary
	m := newBoundaryModel(p, a)
	eps := entryPoints(p)
	for _, f := range eps {
		status, reason := m.classify(f)
		r.Check("C29.boundary", f.Name(), f.Decl.Pos(), status != "", "a raised I/O error can escape this entry point as a panic or be lost: "+reason)
	}
	r.Floor("C29.boundary", "entry points", len(eps), 24)

	// ---- no swallow: all recover() calls
	nRec := 0
	for _, pkg := range p.Pkgs {
		info := pkg.TypesInfo
		for _, f := range funcsOf(pkg) {
			ast.Inspect(f.Decl.Body, func(n ast.Node) bool {
				d, ok := n.(*ast.DeferStmt)
				if !ok {
					return true
				}
				lit, ok := d.Call.Fun.(*ast.FuncLit)
				if !ok {
					// `defer helper(&err)`: the helper of the same package is the deferred function
					cal := callee(info, d.Call)
					if cal == nil || cal.Pkg() != pkg.Types {
						return true
					}
					hd := p.FuncDecl(cal)
					if hd == nil || hd.Body == nil {
						return true
					}
					lit = &ast.FuncLit{Body: hd.Body}
				}
				var recCall *ast.CallExpr
				ast.Inspect(lit.Body, func(k ast.Node) bool {
					if c, ok := k.(*ast.CallExpr); ok {
						if id, ok := c.Fun.(*ast.Ident); ok && id.Name == "recover" {
							if _, isB := info.Uses[id].(*types.Builtin); isB {
								recCall = c
							}
						}
					}
					return true
				})
				if recCall == nil {
					return true
				}
				nRec++
				okKind := ""
				// (1) boundary frame of an entry point
				if _, isEP := m.eps[f.Obj]; isEP {
					if fr := findRecoverFrame(info, f); fr != nil && fr.deferStmt == d && fr.problem == "" {
						okKind = "boundary"
					}
				}
				// (2) recover() passed straight to a function that re-panics every non-nil value
				if okKind == "" {
					ast.Inspect(lit.Body, func(k ast.Node) bool {
						c, ok := k.(*ast.CallExpr)
						if !ok {
							return true
						}
						for _, arg := range c.Args {
							if arg == ast.Expr(recCall) {
								if cal := callee(info, c); cal != nil && repanicsNonNil(p, a, cal) {
									okKind = "re-raise helper"
								}
							}
						}
						return true
					})
				}
				// (3) `if err := recover(); err != nil { if v, ok := err.(T); ok {…} else { panic(err) } }`
				if okKind == "" {
					ast.Inspect(lit.Body, func(k ast.Node) bool {
						ifs, ok := k.(*ast.IfStmt)
						if !ok || ifs.Else == nil {
							return true
						}
						if eb, ok := ifs.Else.(*ast.BlockStmt); ok && a.alwaysPanics(info, eb.List) {
							if as, ok := ifs.Init.(*ast.AssignStmt); ok && len(as.Rhs) == 1 {
								if _, isTA := as.Rhs[0].(*ast.TypeAssertExpr); isTA {
									okKind = "typed recover with re-panic"
								}
							}
						}
						return true
					})
				}
				r.Check("C29.no-swallow", f.Name()+"|recover", d.Pos(), okKind != "", "this deferred recover() neither stores the recovered value in an entry point's error result nor re-raises it: a failure (for instance a writer error raised as a panic) is silently discarded and success is reported")
				return true
			})
		}
	}
	r.Floor("C29.no-swallow", "deferred recover() closures", nRec, 100)

	// ---- propagate: wrappers return the callee's error
	for _, f := range eps {
		status, _ := m.classify(f)
		if status != "delegating" {
			continue
		}
		info := f.Pkg.TypesInfo
		// every return statement either returns a call result directly, or returns variables; an error variable
		// assigned from a callee must not be overwritten with nil / dropped
		sig := f.Obj.Type().(*types.Signature)
		errIdx := sig.Results().Len() - 1
		bad := ""
		ast.Inspect(f.Decl.Body, func(n ast.Node) bool {
			ret, ok := n.(*ast.ReturnStmt)
			if !ok {
				return true
			}
			if len(ret.Results) == 0 {
				return true // named results
			}
			if len(ret.Results) == 1 {
				if _, isCall := ret.Results[0].(*ast.CallExpr); isCall {
					return true
				}
			}
			if len(ret.Results) == sig.Results().Len() {
				e := ret.Results[errIdx]
				if isNilExpr(info, e) {
					// returning nil explicitly is fine only if no error variable is live; flag conservatively when the function has one
					ast.Inspect(f.Decl.Body, func(k ast.Node) bool {
						if as, ok := k.(*ast.AssignStmt); ok && as.Pos() < ret.Pos() {
							for _, l := range as.Lhs {
								if t := info.TypeOf(l); t != nil && isErrorType(t) {
									if id, ok := l.(*ast.Ident); ok && id.Name != "_" {
										bad = "returns a nil error after " + id.Name + " was assigned"
									}
								}
							}
						}
						return true
					})
				}
			}
			return true
		})
		// named error result overwritten with nil
		ast.Inspect(f.Decl.Body, func(n ast.Node) bool {
			if as, ok := n.(*ast.AssignStmt); ok {
				for i, l := range as.Lhs {
					if t := info.TypeOf(l); t != nil && isErrorType(t) && i < len(as.Rhs) && isNilExpr(info, as.Rhs[i]) {
						bad = "an error variable is overwritten with nil"
					}
				}
			}
			return true
		})
		r.Check("C29.propagate", f.Name(), f.Decl.Pos(), bad == "", "the wrapper does not return the callee's error unchanged: "+bad)
	}
	// Unmarshal returns the decoder's error
	for _, rel := range []string{"cbe", "cte"} {
		f := findFn(p, rel, "Unmarshaler.Unmarshal")
		if f == nil {
			r.Undecided("C29.propagate", rel+".Unmarshaler.Unmarshal")
			continue
		}
		info := f.Pkg.TypesInfo
		sig := f.Obj.Type().(*types.Signature)
		errRes := sig.Results().At(sig.Results().Len() - 1)
		assigned, overwritten := false, false
		ast.Inspect(f.Decl.Body, func(n ast.Node) bool {
			if _, isLit := n.(*ast.FuncLit); isLit {
				return false
			}
			as, ok := n.(*ast.AssignStmt)
			if !ok {
				return true
			}
			for i, l := range as.Lhs {
				if objOf(info, l) == errRes {
					if c, ok := as.Rhs[min(i, len(as.Rhs)-1)].(*ast.CallExpr); ok {
						if cal := callee(info, c); cal != nil && cal.Name() == "Decode" {
							assigned = true
							continue
						}
					}
					overwritten = true
				}
			}
			return true
		})
		r.Check("C29.propagate", rel+".Unmarshaler.Unmarshal|returns decoder error", f.Decl.Pos(), assigned && !overwritten, "Unmarshal must return the error of decoder.Decode in its named result and not overwrite it afterwards")
	}
	// no bufio.Writer (would need Flush)
	for _, rel := range []string{"cbe", "cte", "ce"} {
		pkg := p.Pkg(rel)
		for _, f := range funcsOf(pkg) {
			inspectCalls(pkg.TypesInfo, f.Decl.Body, func(call *ast.CallExpr, cal *types.Func) {
				if cal != nil && cal.Pkg() != nil && cal.Pkg().Path() == "bufio" && strings.HasPrefix(cal.Name(), "NewWriter") {
					// must have a Flush whose error is handled: not present today; report
					r.Fail("C29.propagate", f.Name()+"|bufio.Writer", call.Pos(), "a buffered writer is introduced; its Flush error must be returned (shape not verified by this checker)")
				}
			})
		}
	}
}

// raisesOrReturns: the branch returns the error object (possibly wrapped) or panics with it.
func raisesOrReturns(a *analysis, info *types.Info, body []ast.Stmt, errObj types.Object) bool {
	for _, s := range body {
		switch s := s.(type) {
		case *ast.ReturnStmt:
			if len(s.Results) == 0 {
				return true // named results: errObj must be one of them, checked by the caller
			}
			for _, res := range s.Results {
				if mentionsObj(info, res, errObj) {
					return true
				}
			}
		case *ast.ExprStmt:
			if c, ok := s.X.(*ast.CallExpr); ok && a.callPanics(info, c) {
				return true
			}
		case *ast.IfStmt:
			// if err == io.EOF { return sentinel } ; unexpectedError(err)
			continue
		}
	}
	return a.alwaysPanics(info, body)
}

// repanicsNonNil: f(r, …) panics on every path where its first parameter is non-nil.
func repanicsNonNil(p *core.Program, a *analysis, f *types.Func) bool {
	d := p.FuncDecl(f)
	if d == nil || d.Body == nil || len(d.Body.List) < 2 {
		return false
	}
	info := p.Pkgs[core.Rel(f.Pkg())].TypesInfo
	param := f.Type().(*types.Signature).Params().At(0)
	// first statement: if r == nil { return }
	ifs, ok := d.Body.List[0].(*ast.IfStmt)
	if !ok {
		return false
	}
	be, ok := stripParens(ifs.Cond).(*ast.BinaryExpr)
	if !ok || be.Op != token.EQL || objOf(info, be.X) != param || !isNilExpr(info, be.Y) {
		return false
	}
	rest := d.Body.List[1:]
	if a.alwaysPanics(info, rest) {
		return true
	}
	// type switch with every clause panicking, incl. default
	if len(rest) == 1 {
		if ts, ok := rest[0].(*ast.TypeSwitchStmt); ok {
			hasDefault := false
			for _, c := range ts.Body.List {
				cc := c.(*ast.CaseClause)
				if cc.List == nil {
					hasDefault = true
				}
				if !a.alwaysPanics(info, cc.Body) {
					return false
				}
			}
			return hasDefault
		}
	}
	return false
}
