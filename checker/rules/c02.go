package rules

import (
	"fmt"
	"go/ast"
	"go/constant"
	"go/token"
	"go/types"
	"strings"

	"verif/checker/core"
)

func init() { Registry["C02"] = checkC02 }

// piece is one element of the text a fixed writer emits: a constant, or a parameter placeholder.
type piece struct {
	text  string
	param bool
}

// writerPieces symbolically executes a Writer method whose body only writes constants and its own parameters,
// following calls to other such methods. Returns the alternatives (one per branch). ok=false: not a fixed writer.
func writerPieces(p *core.Program, f *fn, depth int) (alts [][]piece, ok bool) {
	if depth > 3 {
		return nil, false
	}
	info := f.Pkg.TypesInfo
	sig := f.Obj.Type().(*types.Signature)
	var run func(list []ast.Stmt, cur [][]piece) ([][]piece, bool)
	run = func(list []ast.Stmt, cur [][]piece) ([][]piece, bool) {
		for _, st := range list {
			switch s := st.(type) {
			case *ast.ExprStmt:
				call, isCall := s.X.(*ast.CallExpr)
				if !isCall {
					return nil, false
				}
				c := callee(info, call)
				if c == nil || !isMethodOf(c, "cte", "Writer", c.Name()) {
					return nil, false
				}
				var add [][]piece
				switch c.Name() {
				case "WriteStringNotLF", "WriteStringPossibleLF", "WriteByteNotLF", "WriteBytesNotLF", "WriteBytesPossibleLF", "WriteRuneNotLF":
					if len(call.Args) != 1 {
						return nil, false
					}
					a := call.Args[0]
					if cv := constVal(info, a); cv != nil {
						switch cv.Kind() {
						case constant.String:
							add = [][]piece{{{text: constant.StringVal(cv)}}}
						case constant.Int:
							v, _ := constant.Int64Val(cv)
							add = [][]piece{{{text: string(rune(v))}}}
						}
					} else if o := objOf(info, a); o != nil && paramIndex(f.Obj, o) >= 0 {
						add = [][]piece{{{param: true}}}
					} else if v, isVar := objOf(info, a).(*types.Var); isVar && v.Parent() == v.Pkg().Scope() {
						// package-level constant table of bytes: var sep = []byte{' ', '=', ' '}
						if txt, okv := packageBytesVar(p, v); okv {
							add = [][]piece{{{text: txt}}}
						}
					}
					if add == nil {
						return nil, false
					}
				case "WriteLF":
					add = [][]piece{{{text: "\n"}}}
				default:
					cf := p.FuncDecl(c)
					if cf == nil {
						return nil, false
					}
					sub, okk := writerPieces(p, &fn{f.Pkg, cf, c}, depth+1)
					if !okk {
						return nil, false
					}
					// parameters of the callee: only accepted when the argument is our own parameter
					for _, a := range call.Args {
						if constVal(info, a) == nil {
							if o := objOf(info, a); o == nil || paramIndex(f.Obj, o) < 0 {
								return nil, false
							}
						}
					}
					add = sub
				}
				var next [][]piece
				for _, c0 := range cur {
					for _, a := range add {
						next = append(next, append(append([]piece{}, c0...), a...))
					}
				}
				cur = next
			case *ast.IfStmt:
				if s.Init != nil {
					return nil, false
				}
				// only branches on the method's own boolean parameter
				if o := objOf(info, s.Cond); o == nil || paramIndex(f.Obj, o) < 0 {
					return nil, false
				}
				thenAlts, ok1 := run(s.Body.List, cur)
				if !ok1 {
					return nil, false
				}
				elseAlts := cur
				if s.Else != nil {
					eb, isBlock := s.Else.(*ast.BlockStmt)
					if !isBlock {
						return nil, false
					}
					var ok2 bool
					elseAlts, ok2 = run(eb.List, cur)
					if !ok2 {
						return nil, false
					}
				}
				cur = append(append([][]piece{}, thenAlts...), elseAlts...)
			default:
				return nil, false
			}
		}
		return cur, true
	}
	_ = sig
	return run(f.Decl.Body.List, [][]piece{{}})
}

// packageBytesVar evaluates a package-level `var x = []byte{...consts...}` / `[]byte("...")` that is never reassigned.
func packageBytesVar(p *core.Program, v *types.Var) (string, bool) {
	pkg := p.Pkgs[core.Rel(v.Pkg())]
	if pkg == nil {
		return "", false
	}
	info := pkg.TypesInfo
	// reassigned anywhere?
	for _, f := range funcsOf(pkg) {
		re := false
		ast.Inspect(f.Decl.Body, func(n ast.Node) bool {
			if as, ok := n.(*ast.AssignStmt); ok {
				for _, l := range as.Lhs {
					if rootObj(info, l) == v {
						re = true
					}
				}
			}
			return true
		})
		if re {
			return "", false
		}
	}
	for _, file := range pkg.Syntax {
		for _, d := range file.Decls {
			gd, ok := d.(*ast.GenDecl)
			if !ok {
				continue
			}
			for _, sp := range gd.Specs {
				vs, ok := sp.(*ast.ValueSpec)
				if !ok {
					continue
				}
				for i, n := range vs.Names {
					if info.Defs[n] != v || i >= len(vs.Values) {
						continue
					}
					switch x := vs.Values[i].(type) {
					case *ast.CompositeLit:
						var sb strings.Builder
						for _, e := range x.Elts {
							c, ok := constInt(info, e)
							if !ok {
								return "", false
							}
							sb.WriteByte(byte(c))
						}
						return sb.String(), true
					case *ast.CallExpr:
						if len(x.Args) == 1 {
							if cv := constVal(info, x.Args[0]); cv != nil && cv.Kind() == constant.String {
								return constant.StringVal(cv), true
							}
						}
					}
				}
			}
		}
	}
	return "", false
}

func rootObj(info *types.Info, e ast.Expr) types.Object {
	for {
		switch x := stripParens(e).(type) {
		case *ast.IndexExpr:
			e = x.X
		case *ast.SliceExpr:
			e = x.X
		case *ast.Ident:
			return info.ObjectOf(x)
		default:
			return nil
		}
	}
}

func renderPieces(ps []piece, sample string) string {
	var sb strings.Builder
	for _, x := range ps {
		if x.param {
			sb.WriteString(sample)
		} else {
			sb.WriteString(x.text)
		}
	}
	return sb.String()
}

func checkC02(r *core.Run, p *core.Program) {
	r.Rule("C02.tokens", "every fixed writer of the CTE encoder (a Writer method that emits only constants and its own identifier argument: null/true/false, infinities and NaNs, container openers and closers, the key-value separator, marker, reference, record-type and record openers, array end, comment delimiters) emits text that is a sentence of the lexer token the decoder needs at that place (trimmed of surrounding white space), with a sample identifier substituted.")
	r.Rule("C02.escapes", "the string escape decoder handles exactly the characters the lexer's ESCAPE_CHAR token admits, with the code points of the specification; every short escape the encoder writes is decoded back to the character it was written for; the encoder selects the escape on the whole code point; \\[hex] escapes are written and parsed in base 16 with room for U+10FFFF.")
	r.Rule("C02.latlong", "no float-to-integer conversion in the CTE codec is applied directly to an arithmetic expression (a product such as latitude*100 truncates 1.13*100 = 112.99… to 112): the expression is rounded first.")
	r.Rule("C02.split-sign", "a writer that prints a signed integer as separate quotient and remainder groups (value/K and value%K) tests the sign of the value itself and writes it explicitly: otherwise values between -K and 0 lose their sign.")
	r.Rule("C02.encoder-state", "the CTE encoder's reusable parts (array engine, encoder context, writer, indenter) re-initialise, on every path of their per-array / per-document entry point, every field they modify while encoding (a string buffer or chunk counter that survives makes the next string or array carry the previous one's content).")
	r.Rule("C02.comments", "the CTE encoder writes the text of a comment as it is (no escaping), so the validator has to constrain it before forwarding: RulesEventReceiver.OnComment hands the text to a validating function (a multi-line comment containing `*/`, an unbalanced `/*` or ending in `/`, and a single-line comment containing a line feed, do not read back as that comment).")
	checkC02Comments(r, p)
	r.NotDecide("escaping decisions for arbitrary code points; float and decimal text; pretty-printer layout; comment text; time field text")

	g, err := LoadLexerGrammar(p.RepoDir)
	if err != nil {
		r.BrokenF("lexer grammar: %v", err)
		return
	}
	pkg := p.Pkg("cte")
	info := pkg.TypesInfo

	// ---- tokens -------------------------------------------------------------------------------------
	// writer -> lexer token(s) that must accept its output (reference table from the CTE specification / grammar roles)
	want := map[string][]string{
		"WriteNull": {"NULL"}, "WriteTrue": {"TRUE"}, "WriteFalse": {"FALSE"},
		"WritePosInfinity": {"FLOAT_INF"}, "WriteNegInfinity": {"FLOAT_NINF"}, "WriteQuietNan": {"FLOAT_NAN"}, "WriteSignalingNan": {"FLOAT_SNAN"},
		"WriteNan": {"FLOAT_NAN", "FLOAT_SNAN"}, "WriteBool": {"TRUE", "FALSE"},
		"WriteListBegin": {"LIST_BEGIN"}, "WriteListEnd": {"LIST_END"}, "WriteMapBegin": {"MAP_BEGIN"}, "WriteMapEnd": {"MAP_OR_RECORD_END"},
		"WriteMapValueSeparator": {"KV_SEPARATOR"}, "WriteEdgeBegin": {"EDGE_BEGIN"}, "WriteEdgeEnd": {"EDGE_OR_NODE_END"},
		"WriteNodeBegin": {"NODE_BEGIN"}, "WriteNodeEnd": {"EDGE_OR_NODE_END"}, "WriteRecordTypeEnd": {"RECORD_TYPE_END"}, "WriteRecordEnd": {"MAP_OR_RECORD_END"},
		"WriteMarkerBegin": {"MARKER"}, "WriteLocalReference": {"REFERENCE"}, "WriteRecordTypeBegin": {"RECORD_TYPE_BEGIN"}, "WriteRecordBegin": {"RECORD_BEGIN"},
		"WriteArrayEnd": {"ARRAY_I_END", "ARRAY_U_END", "ARRAY_F_END", "BYTES_END", "ARRAY_UID_END", "ARRAY_BIT_END"},
	}
	nTok := 0
	for _, name := range sortedKeys(want) {
		f := findFn(p, "cte", "Writer."+name)
		if f == nil {
			r.Undecided("C02.tokens", "cte.Writer."+name)
			continue
		}
		alts, ok := writerPieces(p, f, 0)
		if !ok {
			r.Fail("C02.tokens", "(*cte.Writer)."+name+"|fixed text", f.Decl.Pos(), "the writer is no longer a sequence of constant/identifier writes: its output cannot be compared with the lexer token")
			continue
		}
		nTok++
		for i, alt := range alts {
			text := strings.TrimSpace(renderPieces(alt, "a1"))
			matched := ""
			for _, tk := range want[name] {
				if g.Matches(tk, text) {
					matched = tk
				}
			}
			key := fmt.Sprintf("(*cte.Writer).%s|output #%d is a %s", name, i+1, strings.Join(want[name], "/"))
			r.Check("C02.tokens", key, f.Decl.Pos(), matched != "", fmt.Sprintf("the writer emits %q, which the lexer does not read as %s", text, strings.Join(want[name], " or ")))
		}
		// a writer with several expected tokens must produce all of them (WriteNan: nan and snan; WriteBool: true and false)
		if len(want[name]) > 1 && !strings.HasSuffix(name, "ArrayEnd") {
			for _, tk := range want[name] {
				hit := false
				for _, alt := range alts {
					if g.Matches(tk, strings.TrimSpace(renderPieces(alt, "a1"))) {
						hit = true
					}
				}
				r.Check("C02.tokens", "(*cte.Writer)."+name+"|can produce "+tk, f.Decl.Pos(), hit, "no branch of the writer produces the token "+tk)
			}
		}
	}
	r.Floor("C02.tokens", "fixed writers compared with their token", nTok, 22)
	// NaN kind / bool polarity: WriteNan(signaling) -> signalling branch writes snan; WriteBool(true) -> true
	for _, pol := range []struct{ fn, thenTok string }{{"WriteNan", "FLOAT_SNAN"}, {"WriteBool", "TRUE"}} {
		f := findFn(p, "cte", "Writer."+pol.fn)
		if f == nil {
			continue
		}
		for _, st := range f.Decl.Body.List {
			ifs, ok := st.(*ast.IfStmt)
			if !ok {
				continue
			}
			alts, ok := writerPieces(p, &fn{f.Pkg, &ast.FuncDecl{Name: f.Decl.Name, Type: f.Decl.Type, Recv: f.Decl.Recv, Body: ifs.Body}, f.Obj}, 0)
			okPol := ok && len(alts) == 1 && g.Matches(pol.thenTok, strings.TrimSpace(renderPieces(alts[0], "a1")))
			r.Check("C02.tokens", "(*cte.Writer)."+pol.fn+"|true branch writes "+pol.thenTok, ifs.Pos(), okPol, "the branch taken for a true argument does not write "+pol.thenTok)
		}
	}

	// ---- escapes ------------------------------------------------------------------------------------
	checkEscapes(r, p, g, "C02.escapes")

	// ---- latlong: float arithmetic converted to an integer without rounding -----------------------------
	nConv := 0
	for _, rel := range []string{"cte"} {
		pk := p.Pkg(rel)
		for _, f := range funcsOf(pk) {
			ast.Inspect(f.Decl.Body, func(n ast.Node) bool {
				call, ok := n.(*ast.CallExpr)
				if !ok || len(call.Args) != 1 {
					return true
				}
				tv, ok := pk.TypesInfo.Types[call.Fun]
				if !ok || !tv.IsType() {
					return true
				}
				to, _ := tv.Type.Underlying().(*types.Basic)
				from, _ := pk.TypesInfo.TypeOf(call.Args[0]).Underlying().(*types.Basic)
				if to == nil || from == nil || to.Info()&types.IsInteger == 0 || from.Info()&types.IsFloat == 0 {
					return true
				}
				if constVal(pk.TypesInfo, call.Args[0]) != nil {
					return true
				}
				nConv++
				arg := stripParens(call.Args[0])
				be, isArith := arg.(*ast.BinaryExpr)
				bad := isArith && (be.Op == token.MUL || be.Op == token.QUO || be.Op == token.ADD || be.Op == token.SUB)
				r.Check("C02.latlong", f.Name()+"|"+exprStr(call), call.Pos(), !bad,
					"the float expression "+exprStr(arg)+" is converted to an integer by truncation: a value such as 1.13*100 (= 112.99999…) loses a unit; round it first (math.Round)")
				return true
			})
		}
	}
	r.Floor("C02.latlong", "float-to-integer conversions in package cte", nConv, 3)

	// ---- split-sign ---------------------------------------------------------------------------------
	nSplit := 0
	for _, f := range funcsOf(pkg) {
		if rn := recvNamed(f.Obj); rn == nil || rn.Obj().Name() != "Writer" {
			continue
		}
		// signed integer objects x with both x/K and x%K in the function
		type use struct{ quo, rem bool }
		uses := map[types.Object]*use{}
		var order []types.Object
		ast.Inspect(f.Decl.Body, func(n ast.Node) bool {
			be, ok := n.(*ast.BinaryExpr)
			if !ok || (be.Op != token.QUO && be.Op != token.REM) {
				return true
			}
			if _, isConst := constInt(info, be.Y); !isConst {
				return true
			}
			o := objOf(info, be.X)
			if o == nil {
				return true
			}
			b, _ := o.Type().Underlying().(*types.Basic)
			if b == nil || b.Info()&types.IsInteger == 0 || b.Info()&types.IsUnsigned != 0 {
				return true
			}
			if uses[o] == nil {
				uses[o] = &use{}
				order = append(order, o)
			}
			if be.Op == token.QUO {
				uses[o].quo = true
			} else {
				uses[o].rem = true
			}
			return true
		})
		for _, o := range order {
			if !uses[o].quo || !uses[o].rem {
				continue
			}
			nSplit++
			// an explicit sign test on o (or on the expression o was initialised from): o < 0, o >= 0, 0 > o …
			signTest := false
			initSrc := ""
			ast.Inspect(f.Decl.Body, func(n ast.Node) bool {
				if as, ok := n.(*ast.AssignStmt); ok && as.Tok == token.DEFINE && len(as.Lhs) == 1 && len(as.Rhs) == 1 && objOf(info, as.Lhs[0]) == o {
					initSrc = exprStr(stripConv(info, as.Rhs[0]))
				}
				return true
			})
			same := func(e ast.Expr) bool {
				return objOf(info, e) == o || (initSrc != "" && exprStr(stripConv(info, e)) == initSrc)
			}
			ast.Inspect(f.Decl.Body, func(n ast.Node) bool {
				be, ok := n.(*ast.BinaryExpr)
				if !ok {
					return true
				}
				switch be.Op {
				case token.LSS, token.GEQ, token.GTR, token.LEQ:
					if c, ok := constInt(info, be.Y); ok && c == 0 && same(be.X) {
						signTest = true
					}
					if c, ok := constInt(info, be.X); ok && c == 0 && same(be.Y) {
						signTest = true
					}
				}
				return true
			})
			r.Check("C02.split-sign", f.Name()+"|"+o.Name()+" split into quotient and remainder", f.Decl.Pos(), signTest,
				"the signed value "+o.Name()+" is written as "+o.Name()+"/K and "+o.Name()+"%K without testing its sign: for -K < "+o.Name()+" < 0 the quotient is 0 and the sign is lost")
		}
	}
	r.Count("C02.split-sign signed values written as quotient and remainder", nSplit)
	if nSplit == 0 {
		r.Pass("C02.split-sign", "cte.Writer|no unsigned-split of a signed value without a sign test", token.NoPos, "")
	}

	// ---- encoder state ------------------------------------------------------------------------------
	for _, spec := range resetSpecs {
		if spec.rel == "cte" {
			checkResetSpec(r, p, "C02.encoder-state", spec)
		}
	}
}

func checkC02Comments(r *core.Run, p *core.Program) {
	enc := findFn(p, "cte", "EncoderEventReceiver.OnComment")
	val := findFn(p, "rules", "RulesEventReceiver.OnComment")
	if enc == nil || val == nil {
		r.Undecided("C02.comments", "cte.EncoderEventReceiver.OnComment / rules.RulesEventReceiver.OnComment")
		return
	}
	// does the encoder write the text through an escaping writer?
	einfo := enc.Pkg.TypesInfo
	textParam := enc.Obj.Type().(*types.Signature).Params().At(1)
	verbatim := false
	inspectCalls(einfo, enc.Decl.Body, func(call *ast.CallExpr, c *types.Func) {
		if c == nil {
			return
		}
		for _, a := range call.Args {
			if objOf(einfo, a) == textParam && !strings.Contains(c.Name(), "Escaped") && !strings.Contains(c.Name(), "Quoted") {
				verbatim = true
			}
		}
	})
	if !verbatim {
		r.Pass("C02.comments", "cte.EncoderEventReceiver.OnComment|text is escaped by the encoder", enc.Decl.Pos(), "")
		return
	}
	vinfo := val.Pkg.TypesInfo
	vtext := val.Obj.Type().(*types.Signature).Params().At(1)
	validated := false
	inspectCalls(vinfo, val.Decl.Body, func(call *ast.CallExpr, c *types.Func) {
		if c == nil {
			return
		}
		if sel, ok := call.Fun.(*ast.SelectorExpr); ok {
			if fv := fieldOf(vinfo, sel.X); fv != nil && fv.Name() == "receiver" {
				return // the forwarding call
			}
		}
		for _, a := range call.Args {
			if mentionsObj(vinfo, a, vtext) {
				validated = true
			}
		}
	})
	r.Check("C02.comments", "(*rules.RulesEventReceiver).OnComment|comment text validated before forwarding", val.Decl.Pos(), validated,
		"the text of a comment is forwarded without any validation and the CTE encoder writes it verbatim: a multi-line comment ending in `/` is written as `/*a/*/`, which the decoder rejects, and a single-line comment containing a line feed turns its second line into document content")
}
