package rules

import (
	"fmt"
	"go/ast"
	"go/constant"
	"go/token"
	"go/types"
	"strings"

	"verif/checker/core"
)

func init() { Registry["C08"] = checkC08 }

const taintSafeBound = 1 << 20 // a length bounded by a constant of at most 1 MiB is harmless

type taintInfo struct {
	roots map[types.Object]bool // original untrusted variables this value derives from
	bound uint64                // constant upper bound imposed at the source
	src   string
}

// checkTaint: untrusted lengths must not size allocations unbounded (shared by C07.alloc and C08.taint).
func checkTaint(r *core.Run, p *core.Program, a *analysis, rule string) {
	pkg := p.Pkg("cbe")
	info := pkg.TypesInfo
	sinks := map[string]bool{"ReadBytes": true, "readIntoBuffer": true, "expandBufferTo": true, "ExpandBufferTo": true}
	nSinks, nSources := 0, 0
	for _, f := range funcsOf(pkg) {
		rn := recvNamed(f.Obj)
		if rn == nil || (rn.Obj().Name() != "Decoder" && rn.Obj().Name() != "Reader") {
			continue
		}
		taint := map[types.Object]*taintInfo{}
		// source of an expression
		var exprTaint func(e ast.Expr) *taintInfo
		exprTaint = func(e ast.Expr) *taintInfo {
			var res *taintInfo
			merge := func(t *taintInfo) {
				if t == nil {
					return
				}
				if res == nil {
					res = &taintInfo{roots: map[types.Object]bool{}, bound: t.bound, src: t.src}
				}
				for k := range t.roots {
					res.roots[k] = true
				}
				if t.bound > res.bound {
					res.bound = t.bound
				}
			}
			ast.Inspect(e, func(n ast.Node) bool {
				switch x := n.(type) {
				case *ast.Ident:
					if t := taint[info.ObjectOf(x)]; t != nil {
						merge(t)
					}
				case *ast.CallExpr:
					cal := callee(info, x)
					if cal == nil {
						return true
					}
					switch cal.Name() {
					case "readSmallULEB128":
						b := ^uint64(0)
						if len(x.Args) == 2 {
							if k, ok := constUint(info, x.Args[1]); ok {
								b = k
							}
						}
						merge(&taintInfo{roots: map[types.Object]bool{}, bound: b, src: "readSmallULEB128(max " + fmt.Sprint(b) + ")"})
					case "ReadArrayChunkHeader":
						merge(&taintInfo{roots: map[types.Object]bool{}, bound: ^uint64(0), src: "ReadArrayChunkHeader"})
					}
				}
				return true
			})
			return res
		}
		// walk statements in source order
		type sanit struct {
			root types.Object
			pos  token.Pos
		}
		var sanitized []sanit
		var clamps []sanit
		ast.Inspect(f.Decl.Body, func(n ast.Node) bool {
			switch s := n.(type) {
			case *ast.AssignStmt:
				for i, lhs := range s.Lhs {
					var rhs ast.Expr
					if len(s.Rhs) == len(s.Lhs) {
						rhs = s.Rhs[i]
					} else if len(s.Rhs) == 1 {
						if i > 0 {
							// only the first result of ReadArrayChunkHeader is a length
							continue
						}
						rhs = s.Rhs[0]
					}
					if rhs == nil {
						continue
					}
					if t := exprTaint(rhs); t != nil {
						obj := objOf(info, lhs)
						if obj == nil {
							continue
						}
						if len(t.roots) == 0 {
							t.roots[obj] = true
							nSources++
						}
						taint[obj] = t
					}
				}
			case *ast.CallExpr:
				cal := callee(info, s)
				if cal == nil {
					return true
				}
				// receiver events sanitise the roots they are given (the validator bounds them)
				if rt := recvType(cal); rt != nil && typeIs(rt, "ce/events", "DataEventReceiver") {
					for _, arg := range s.Args {
						if t := exprTaint(arg); t != nil {
							for root := range t.roots {
								sanitized = append(sanitized, sanit{root, s.Pos()})
							}
						}
					}
				}
			case *ast.IfStmt:
				// clamp: if v > K { reject }
				if be, ok := stripParens(s.Cond).(*ast.BinaryExpr); ok && be.Op == token.GTR && a.alwaysPanics(info, s.Body.List) {
					if t := exprTaint(be.X); t != nil {
						okBound := false
						if k, isC := constUint(info, be.Y); isC && k <= taintSafeBound {
							okBound = true
						}
						if strings.Contains(exprStr(be.Y), "config.Rules.") {
							okBound = true
						}
						if okBound {
							for root := range t.roots {
								clamps = append(clamps, sanit{root, s.Pos()})
							}
						}
					}
				}
			}
			return true
		})
		// sinks
		ast.Inspect(f.Decl.Body, func(n ast.Node) bool {
			call, ok := n.(*ast.CallExpr)
			if !ok {
				return true
			}
			isSink := false
			if cal := callee(info, call); cal != nil && sinks[cal.Name()] && core.Rel(cal.Pkg()) == "cbe" {
				isSink = true
			}
			if id, ok := call.Fun.(*ast.Ident); ok && id.Name == "make" {
				if _, isB := info.Uses[id].(*types.Builtin); isB {
					isSink = true
				}
			}
			if !isSink {
				return true
			}
			for ai, arg := range call.Args {
				if ai == 0 {
					if id, ok := call.Fun.(*ast.Ident); ok && id.Name == "make" {
						continue // the type argument
					}
				}
				t := exprTaint(arg)
				if t == nil {
					continue
				}
				nSinks++
				key := fmt.Sprintf("%s|%s(%s)", f.Name(), exprStr(call.Fun), exprStr(arg))
				if t.bound <= taintSafeBound {
					r.Pass(rule, key, call.Pos(), "bounded by constant")
					continue
				}
				okAll := true
				for root := range t.roots {
					okRoot := false
					for _, s := range append(sanitized, clamps...) {
						if s.root == root && s.pos < call.Pos() {
							// the bounding statement must lie on the way to the sink: its innermost enclosing
							// block contains the sink (a submission inside a branch that leaves, e.g.
							// `if n == 0 { OnArrayChunk(...); continue }`, bounds nothing for the other branch)
							lo, hi := innermostBlock(f.Decl.Body, s.pos)
							if lo <= call.Pos() && call.End() <= hi {
								okRoot = true
							}
						}
					}
					if !okRoot {
						okAll = false
					}
				}
				r.Check(rule, key, call.Pos(), okAll, fmt.Sprintf("the size of this read/allocation comes from %s, an untrusted length that is bounded only by %d and has not been submitted to the event receiver or clamped before the buffer is grown: a few document bytes can make the decoder allocate up to twice that many bytes", t.src, t.bound))
			}
			return true
		})
	}
	r.Floor(rule, "untrusted length sources", nSources, 4)
	r.Floor(rule, "length-sized reads/allocations", nSinks, 4)
}

func checkC08(r *core.Run, p *core.Program) {
	r.Rule("C08.taint", "in the CBE decoder and reader, every read or allocation sized by a length decoded from the document is bounded first: by a constant maximum of at most 1 MiB at the point it is decoded, by an explicit clamp against a constant or configured limit, or by having been delivered to the event receiver in an array-chunk/begin event (where the validator rejects it beyond MaxArraySizeBytes) before the buffer is grown.")
	r.Rule("C08.growth", "the reader's and writer's buffer growth is a constant multiple (at most 2x) of the size requested.")
	r.Rule("C08.cte-precheck", "both CTE decode entry points compare the document length with MaxDocumentSizeBytes before handing the document to the parser.")
	r.Rule("C08.chunk-bound", "every validator context that accepts an array chunk routes the declared length to the array byte-count guard (markUpcomingChunkByteCount -> `total > limit => reject`) before any data is accepted, so the receiver-side bound assumed by C08.taint exists.")
	r.NotDecide("decoding TIME (needs loop bounds over runtime data and the ANTLR runtime's behaviour): not decidable by static analysis here; memory used by the third-party decoders; memory of the CTE parse tree")
	r.Assume("the bound through the event receiver holds when the rules validator is in the chain (the default for Unmarshal; a bare Decoder with a user receiver relies on that receiver)")
	a := newAnalysis(p)
	checkTaint(r, p, a, "C08.taint")
	r.Rule("C08.accumulator", "a structural necessary condition of linear decoding time in the CTE parser: the steps that grow the listener's array buffer once per element or escape sequence (methods that store to arrayData, and the element helpers that take and return the buffer) use the buffer only in amortised-constant ways - first argument of append / Append* / bytes.NewBuffer / another such helper, len, cap, re-slicing, storing, returning; converting or copying the whole buffer in such a step (string(buf), append(other, buf...), copy) makes a string with k escapes cost k times its length.")
	checkC08Accumulator(r, p)
	r.Rule("C08.incremental", "a structural necessary condition of roughly linear time: the handlers that run once per array data event (the validator's chunk-data rules, the builder's and the CTE encoder's AddArrayData) do work proportional to the event - they never hand a buffer that accumulates over the whole array (a slice field appended to on the data path and only emptied when an array begins) to a scanning or validating call; such a call makes an array delivered in k pieces cost k times its length.")
	c08Incremental(r, p)

	// growth factor
	for _, spec := range []struct{ rel, name string }{{"cbe", "Reader.expandBufferTo"}, {"cbe", "Writer.ExpandBufferTo"}} {
		f := findFn(p, spec.rel, spec.name)
		if f == nil {
			r.Undecided("C08.growth", spec.rel+"."+spec.name)
			continue
		}
		info := f.Pkg.TypesInfo
		param := f.Obj.Type().(*types.Signature).Params().At(0)
		ok, detail := false, "no make() sized from the requested size found"
		ast.Inspect(f.Decl.Body, func(n ast.Node) bool {
			call, isCall := n.(*ast.CallExpr)
			if !isCall || len(call.Args) < 2 {
				return true
			}
			if id, isId := call.Fun.(*ast.Ident); !isId || id.Name != "make" {
				return true
			}
			size := stripParens(call.Args[1])
			if objOf(info, size) == param {
				ok = true
			} else if be, isB := size.(*ast.BinaryExpr); isB && be.Op == token.MUL && objOf(info, be.X) == param {
				if k, isC := constInt(info, be.Y); isC && k >= 1 && k <= 2 {
					ok = true
				} else {
					detail = "buffer grows by factor " + exprStr(be.Y)
				}
			} else {
				detail = "buffer size expression " + exprStr(size) + " is not a constant multiple of the requested size"
			}
			return true
		})
		r.Check("C08.growth", spec.rel+"."+spec.name, f.Decl.Pos(), ok, detail)
	}

	// cte precheck
	for _, name := range []string{"Decode", "DecodeDocument"} {
		f := findFn(p, "cte", "Decoder."+name)
		if f == nil {
			r.Undecided("C08.cte-precheck", "cte.Decoder."+name)
			continue
		}
		info := f.Pkg.TypesInfo
		markPos, parsePos := token.NoPos, token.NoPos
		inspectCalls(info, f.Decl.Body, func(call *ast.CallExpr, cal *types.Func) {
			if cal == nil {
				return
			}
			if cal.Name() == "markBytesRead" {
				markPos = call.Pos()
			}
			if cal.Name() == "ParseDocument" {
				parsePos = call.Pos()
			}
		})
		r.Check("C08.cte-precheck", "cte.Decoder."+name, f.Decl.Pos(), markPos.IsValid() && parsePos.IsValid() && markPos < parsePos, "the document size limit is not checked before parsing")
	}
	if f := findFn(p, "cte", "Decoder.markBytesRead"); f != nil {
		e := &effectCtx{a: a, p: p}
		got := e.summarize(f.Obj)
		r.Check("C08.cte-precheck", "cte.Decoder.markBytesRead", f.Decl.Pos(), sameEffect(got, []string{"if(?pure:conv($byteCount)>$_this.config.Rules.MaxDocumentSizeBytes){reject}"}), "size guard is `"+got+"`")
	}

	// chunk bound on the validator side
	table, ruleTypes, _, pos := ruleTable(p, a)
	n := 0
	for _, rt := range ruleTypes {
		got := table[rt]["OnArrayChunk"]
		if got == "reject" || got == "?missing" {
			continue
		}
		n++
		ok := strings.Contains(got, "ctx.BeginChunk")
		r.Check("C08.chunk-bound", rt+".OnArrayChunk", pos[rt+".OnArrayChunk"], ok, "a context accepts an array chunk without routing its length through BeginChunk* (byte-count guard): `"+got+"`")
	}
	r.Floor("C08.chunk-bound", "contexts accepting array chunks", n, 3)
	checkCtxPrimitives(r, p, a, "C08.chunk-bound", "BeginChunkAnyType", "BeginChunkString", "markUpcomingChunkByteCount", "validateArrayTotalByteCount", "beginArray")
	_ = constant.MakeBool
}

// c08Incremental: per-data-event handlers never pass an array-long accumulator to a call.
func c08Incremental(r *core.Run, p *core.Program) {
	type handler struct {
		f *fn
	}
	var hs []*fn
	for _, f := range funcsOf(p.Pkg("rules")) {
		if f.Obj.Name() == "OnArrayData" && recvNamed(f.Obj) != nil && strings.HasSuffix(recvNamed(f.Obj).Obj().Name(), "Rule") {
			// generated rejecting defaults have nothing to check
			hs = append(hs, f)
		}
	}
	for _, spec := range []struct{ rel, name string }{{"builder", "Context.AddArrayData"}, {"cte", "arrayEncoderEngine.AddArrayData"}, {"cte", "arrayEncoderEngine.appendStringbuffer"}} {
		if f := findFn(p, spec.rel, spec.name); f != nil {
			hs = append(hs, f)
		} else {
			r.Undecided("C08.incremental", spec.rel+"."+spec.name)
		}
	}
	// accumulators: slice fields assigned from append(field, …) somewhere and truncated ([:0]) only in functions named begin*/Begin*/reset/Reset
	n := 0
	for _, f := range hs {
		info := f.Pkg.TypesInfo
		if newAnalysis(p).alwaysPanics(info, f.Decl.Body.List) {
			continue
		}
		n++
		bad := ""
		var badPos token.Pos
		inspectCalls(info, f.Decl.Body, func(call *ast.CallExpr, c *types.Func) {
			if id, ok := call.Fun.(*ast.Ident); ok && (id.Name == "append" || id.Name == "len" || id.Name == "cap" || id.Name == "copy") {
				return
			}
			for _, arg := range call.Args {
				fv := fieldOf(info, arg)
				if fv == nil {
					continue
				}
				if _, isSlice := fv.Type().Underlying().(*types.Slice); !isSlice {
					continue
				}
				if isArrayLongAccumulator(p, fv) {
					bad = "the accumulated buffer " + fv.Name() + " is handed to " + exprStr(call.Fun)
					badPos = call.Pos()
				}
			}
		})
		r.Check("C08.incremental", f.Name()+"|work proportional to the data event", badPos, bad == "",
			bad+" on every data event: the cost of an array delivered in k pieces grows with k times its length (quadratic decoding time for documents made of many small chunks)")
	}
	r.Floor("C08.incremental", "per-data-event handlers", n, 6)
	// per-chunk and per-data-event handlers of the builder grow the accumulating buffer only through append (amortised
	// doubling): a handler (or a helper of the same type it calls) that copies the whole accumulated buffer into a
	// newly made one re-copies the array once per chunk - quadratic for arrays made of many small chunks
	for _, name := range []string{"Context.BeginArrayChunk", "Context.AddArrayData"} {
		f := findFn(p, "builder", name)
		if f == nil {
			r.Undecided("C08.incremental", "builder."+name)
			continue
		}
		info := f.Pkg.TypesInfo
		bodies := []ast.Node{f.Decl.Body}
		inspectCalls(info, f.Decl.Body, func(call *ast.CallExpr, c *types.Func) {
			if c != nil && c.Pkg() == f.Pkg.Types && recvNamed(c) != nil && recvNamed(c) == recvNamed(f.Obj) && !c.Exported() {
				if hd := p.FuncDecl(c); hd != nil && hd.Body != nil {
					bodies = append(bodies, hd.Body)
				}
			}
		})
		bad := ""
		var badPos token.Pos
		for _, body := range bodies {
			inspectCalls(info, body, func(call *ast.CallExpr, c *types.Func) {
				id, ok := call.Fun.(*ast.Ident)
				if !ok || id.Name != "copy" || len(call.Args) != 2 {
					return
				}
				if fv := fieldOf(info, call.Args[1]); fv != nil && isArrayLongAccumulator(p, fv) {
					bad, badPos = fv.Name(), call.Pos()
				}
			})
		}
		r.Check("C08.incremental", "builder."+name+"|the accumulated buffer is not re-copied per chunk", posOr(badPos, f.Decl.Pos()), bad == "",
			"the accumulated buffer "+bad+" is copied into a newly made buffer on every chunk / data event: an array made of k chunks is copied k times (quadratic time and allocation for documents made of many small chunks)")
	}
}

// isArrayLongAccumulator: the field grows by append on some path and is emptied ([:0] / nil / make) only by functions that begin an array or reset.
func isArrayLongAccumulator(p *core.Program, fv *types.Var) bool {
	pkg := p.Pkgs[core.Rel(fv.Pkg())]
	if pkg == nil {
		return false
	}
	info := pkg.TypesInfo
	grows, emptiedOnDataPath := false, false
	for _, f := range funcsOf(pkg) {
		name := strings.ToLower(f.Decl.Name.Name)
		beginLike := strings.HasPrefix(name, "begin") || strings.HasPrefix(name, "reset") || name == "init"
		ast.Inspect(f.Decl.Body, func(n ast.Node) bool {
			as, ok := n.(*ast.AssignStmt)
			if !ok || len(as.Lhs) != 1 || len(as.Rhs) != 1 || fieldOf(info, as.Lhs[0]) != fv {
				return true
			}
			if call, ok := as.Rhs[0].(*ast.CallExpr); ok {
				if id, ok := call.Fun.(*ast.Ident); ok && id.Name == "append" && len(call.Args) > 0 && fieldOf(info, call.Args[0]) == fv {
					grows = true
					return true
				}
			}
			if sl, ok := stripParens(as.Rhs[0]).(*ast.SliceExpr); ok && fieldOf(info, sl.X) == fv && sl.High != nil {
				if c, ok := constInt(info, sl.High); ok && c == 0 && !beginLike {
					emptiedOnDataPath = true
				}
			}
			return true
		})
	}
	return grows && !emptiedOnDataPath
}

// innermostBlock returns the extent of the innermost block statement or case clause of body that contains pos.
func innermostBlock(body *ast.BlockStmt, pos token.Pos) (token.Pos, token.Pos) {
	lo, hi := body.Pos(), body.End()
	ast.Inspect(body, func(n ast.Node) bool {
		if n == nil {
			return true
		}
		if n.Pos() > pos || pos >= n.End() {
			return n.Pos() <= pos // skip subtrees that do not contain pos
		}
		switch n.(type) {
		case *ast.BlockStmt, *ast.CaseClause, *ast.CommClause:
			lo, hi = n.Pos(), n.End()
		}
		return true
	})
	return lo, hi
}

func checkC08Accumulator(r *core.Run, p *core.Program) {
	pkg := p.Pkg("cte")
	info := pkg.TypesInfo
	isByteSlice := func(t types.Type) bool {
		sl, ok := t.Underlying().(*types.Slice)
		if !ok {
			return false
		}
		b, ok := sl.Elem().Underlying().(*types.Basic)
		return ok && b.Kind() == types.Uint8
	}
	isHelper := func(o *types.Func) bool {
		if o == nil || o.Pkg() == nil || core.Rel(o.Pkg()) != "cte" {
			return false
		}
		sig := o.Type().(*types.Signature)
		if sig.Recv() != nil || sig.Results().Len() != 1 || !isByteSlice(sig.Results().At(0).Type()) {
			return false
		}
		for i := 0; i < sig.Params().Len(); i++ {
			if isByteSlice(sig.Params().At(i).Type()) {
				return true
			}
		}
		return false
	}
	n := 0
	for _, f := range funcsOf(pkg) {
		if !strings.HasSuffix(p.Fset.Position(f.Decl.Pos()).Filename, "/cte/parser.go") {
			continue
		}
		// the accumulator of this function
		isAcc := func(e ast.Expr) bool { return false }
		if rn := recvNamed(f.Obj); rn != nil && rn.Obj().Name() == "cteListener" {
			grows := false
			ast.Inspect(f.Decl.Body, func(nd ast.Node) bool {
				if as, ok := nd.(*ast.AssignStmt); ok {
					for i, lhs := range as.Lhs {
						if fld := fieldOf(info, lhs); fld != nil && fld.Name() == "arrayData" && i < len(as.Rhs) {
							if _, isSlice := stripParens(as.Rhs[i]).(*ast.SliceExpr); !isSlice {
								grows = true
							}
						}
					}
				}
				return true
			})
			if !grows {
				continue
			}
			isAcc = func(e ast.Expr) bool {
				fld := fieldOf(info, e)
				return fld != nil && fld.Name() == "arrayData"
			}
		} else if isHelper(f.Obj) {
			sig := f.Obj.Type().(*types.Signature)
			var params []types.Object
			for i := 0; i < sig.Params().Len(); i++ {
				if isByteSlice(sig.Params().At(i).Type()) {
					params = append(params, sig.Params().At(i))
				}
			}
			isAcc = func(e ast.Expr) bool {
				id, ok := e.(*ast.Ident)
				if !ok {
					return false
				}
				for _, o := range params {
					if info.Uses[id] == o {
						return true
					}
				}
				return false
			}
		} else {
			continue
		}
		n++
		bad := token.NoPos
		what := ""
		var stack []ast.Node
		ast.Inspect(f.Decl.Body, func(nd ast.Node) bool {
			if nd == nil {
				stack = stack[:len(stack)-1]
				return true
			}
			stack = append(stack, nd)
			e, ok := nd.(ast.Expr)
			if !ok || !isAcc(e) || len(stack) < 2 {
				return true
			}
			par := stack[len(stack)-2]
			if pe, isParen := par.(*ast.ParenExpr); isParen && len(stack) >= 3 {
				_ = pe
				par = stack[len(stack)-3]
			}
			okUse := false
			switch x := par.(type) {
			case *ast.AssignStmt, *ast.ReturnStmt, *ast.SliceExpr, *ast.IndexExpr:
				okUse = true
			case *ast.CallExpr:
				if id, isId := x.Fun.(*ast.Ident); isId {
					if _, isB := info.Uses[id].(*types.Builtin); isB {
						switch id.Name {
						case "len", "cap":
							okUse = true
						case "append":
							okUse = len(x.Args) > 0 && stripParens(x.Args[0]) == e
						}
					}
				}
				if c := callee(info, x); c != nil && !okUse {
					if strings.HasPrefix(c.Name(), "Append") || (c.Pkg() != nil && c.Pkg().Path() == "bytes" && c.Name() == "NewBuffer") || isHelper(c) {
						okUse = true
					}
				}
			}
			if !okUse && bad == token.NoPos {
				bad = nd.Pos()
				if pe, isE := par.(ast.Expr); isE {
					what = exprStr(pe)
				} else {
					what = exprStr(e)
				}
			}
			stack = stack[:len(stack)-1]
			return false
		})
		r.Check("C08.accumulator", f.Name()+"|buffer used in amortised-constant ways only", posOr(bad, f.Decl.Pos()), bad == token.NoPos,
			"this step runs once per element or escape sequence and uses the whole accumulated buffer in `"+what+"`: the buffer is converted or copied each time, so decoding costs the number of steps times the length accumulated so far")
	}
	r.Floor("C08.accumulator", "buffer growth steps", n, 20)
}
