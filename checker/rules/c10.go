package rules

import (
	"fmt"
	"go/ast"
	"go/constant"
	"go/token"
	"go/types"
	"os"
	"sort"
	"strings"

	"verif/checker/core"
)

func init() { Registry["C10"] = checkC10 }

// ruleTable extracts (rule type, EventRule method) -> effect summary for every named type of
// package rules that implements EventRule.
func ruleTable(p *core.Program, a *analysis) (table map[string]map[string]string, ruleTypes []string, events []string, pos map[string]token.Pos) {
	pkg := p.Pkg("rules")
	iface := p.LookupType("rules", "EventRule")
	ctxT := p.LookupType("rules", "Context")
	if iface == nil || ctxT == nil {
		return nil, nil, nil, nil
	}
	it := iface.Type().Underlying().(*types.Interface)
	for i := 0; i < it.NumMethods(); i++ {
		events = append(events, it.Method(i).Name())
	}
	sort.Strings(events)
	table = map[string]map[string]string{}
	pos = map[string]token.Pos{}
	scope := pkg.Types.Scope()
	for _, name := range scope.Names() {
		tn, ok := scope.Lookup(name).(*types.TypeName)
		if !ok || tn == iface {
			continue
		}
		nt, ok := tn.Type().(*types.Named)
		if !ok {
			continue
		}
		if !types.Implements(types.NewPointer(nt), it) && !types.Implements(nt, it) {
			continue
		}
		ruleTypes = append(ruleTypes, name)
		row := map[string]string{}
		for _, ev := range events {
			obj, _, _ := types.LookupFieldOrMethod(types.NewPointer(nt), true, pkg.Types, ev)
			f, _ := obj.(*types.Func)
			if f == nil {
				row[ev] = "?missing"
				continue
			}
			e := &effectCtx{a: a, p: p, ctxType: ctxT.Type().(*types.Named), selfType: nt}
			row[ev] = e.summarize(f)
			pos[name+"."+ev] = f.Pos()
		}
		table[name] = row
	}
	sort.Strings(ruleTypes)
	return
}

// ---------------------------------------------------------------------------
// Reference context specification (DESIGN.md Appendix A), written from the property statement and the
// Concise Encoding specification. Each cell lists the accepted effect summaries; an unlisted cell must reject.

type cellSpec map[string][]string // event -> alternatives

const (
	tArrAny  = "ctx.ValidateFullArrayAnyType($arrayType,$elementCount,$data)"
	tStrAny  = "ctx.ValidateFullArrayStringlike($arrayType,$data)"
	tBeginAA = "ctx.BeginArrayAnyType($arrayType)"
)

func seq(parts ...string) string {
	var out []string
	for _, p := range parts {
		if p != "" && p != "nop" {
			out = append(out, p)
		}
	}
	if len(out) == 0 {
		return "nop"
	}
	return strings.Join(out, "; ")
}

// valuePosition: a context in which one value of any type (or a container) is expected.
//
//	after: effect after a complete value / a child container end ("nop" = stay)
//	markerMasks: accepted masks for a marker placed here
//	assertMask: mask asserted for arrays ("" = none)
func valuePosition(after string, markerMasks []string, assertMask string, nullOK bool, end string, refOK bool) cellSpec {
	assert := func(desc string) string {
		if assertMask == "" {
			return ""
		}
		return "ctx.AssertArrayType(_s,$arrayType," + assertMask + ")"
	}
	c := cellSpec{
		"OnPadding":             {"nop"},
		"OnComment":             {"nop"},
		"OnKeyableObject":       {after},
		"OnNonKeyableObject":    {after},
		"OnChildContainerEnded": {after},
		"OnList":                {"ctx.BeginList()"},
		"OnMap":                 {"ctx.BeginMap()"},
		"OnRecord":              {"ctx.BeginRecord($identifier)"},
		"OnRecordType":          {"ctx.BeginRecordType($identifier)"}, // BeginRecordType itself rejects unless the stack is empty (C10.counts)
		"OnEdge":                {"ctx.BeginEdge()"},
		"OnNode":                {"ctx.BeginNode()"},
		"OnArray":               {seq(assert(""), tArrAny, after)},
		"OnStringlikeArray":     {seq(assert(""), tStrAny, after)},
		"OnArrayBegin":          {seq(assert(""), tBeginAA)},
	}
	for _, m := range markerMasks {
		c["OnMarker"] = append(c["OnMarker"], "ctx.BeginMarkerAnyType($identifier,"+m+")")
	}
	if nullOK {
		c["OnNull"] = []string{after}
	}
	if refOK {
		c["OnReferenceLocal"] = []string{seq("ctx.LocalReferenceAnyType($identifier)", after)}
	}
	if end != "" {
		c["OnEnd"] = []string{end}
	}
	return c
}

// keyPosition: only keyable objects, each registered as a key by every route.
func keyPosition(after string, end string, markerRefOK bool) cellSpec {
	keySwitchData := "switch($arrayType){ArrayTypeString:ctx.NotifyKey(string($data)) | ArrayTypeResourceID:ctx.NotifyKey(rid($data))}"
	keySwitchBuilt := "switch($dataType){DataTypeString:ctx.NotifyKey(ctx.GetBuiltArrayAsString()) | DataTypeResourceID:ctx.NotifyKey(rid(ctx.GetBuiltArrayAsString()))}"
	c := cellSpec{
		"OnPadding":             {"nop"},
		"OnComment":             {"nop"},
		"OnKeyableObject":       {seq("ctx.NotifyKey($key)", after)},
		"OnArray":               {seq("ctx.ValidateFullArrayKeyable(_s,$arrayType,$elementCount,$data)", keySwitchData, after)},
		"OnStringlikeArray":     {seq("ctx.ValidateFullArrayStringlikeKeyable(_s,$arrayType,$data)", strings.Replace(keySwitchData, "string($data)", "$data", 1), after)},
		"OnArrayBegin":          {"ctx.BeginArrayKeyable(_s,$arrayType)"},
		"OnChildContainerEnded": {seq(keySwitchBuilt, after)},
		"OnEnd":                 {end},
	}
	if markerRefOK {
		c["OnMarker"] = []string{"ctx.BeginMarkerKeyable($identifier,AllowKeyable)"}
		c["OnReferenceLocal"] = []string{seq("ctx.LocalReferenceKeyable($identifier)", after)}
	}
	return c
}

func c10Spec() map[string]cellSpec {
	any := []string{"AllowAny"}
	// the mask for a marker in edge-source position must exclude null; for description/node-value positions the
	// spec allows a marked null, the mask is reported but not judged (Appendix A, note 1)
	either := []string{"AllowAny", "AllowNonNull"}
	markDispatch := func(method, args string) []string { return []string{method + "(" + args + ")"} }
	_ = markDispatch
	spec := map[string]cellSpec{
		"BeginDocumentRule":   {"OnBeginDocument": {"ctx.ChangeRule(versionRule)"}},
		"VersionRule":         {"OnVersion": {"if($version!=$ctx.ExpectedVersion){reject}; ctx.ChangeRule(topLevelRule)"}},
		"EndDocumentRule":     {"OnEndDocument": {"ctx.EndDocument()"}},
		"TerminalRule":        {},
		"TopLevelRule":        valuePosition("ctx.ChangeRule(endDocumentRule)", any, "", true, "", false),
		"ListRule":            valuePosition("nop", any, "", true, "ctx.EndContainer(true)", true),
		"RecordRule":          valuePosition("nop", any, "", true, "ctx.EndContainer(true)", true),
		"MapValueRule":        valuePosition("ctx.ChangeRule(mapKeyRule)", any, "", true, "", true),
		"EdgeSourceRule":      valuePosition("ctx.ChangeRule(edgeDescriptionRule)", []string{"AllowNonNull"}, "AllowNonNull", false, "", true),
		"EdgeDescriptionRule": valuePosition("ctx.ChangeRule(edgeDestinationRule)", either, "AllowAny", true, "", true),
		"EdgeDestinationRule": valuePosition("nop", either, "", false, "ctx.EndContainer(true)", true),
		"NodeRule":            valuePosition("ctx.ChangeRule(listRule)", either, "AllowAny", true, "", true),
		"MapKeyRule":          keyPosition("ctx.ChangeRule(mapValueRule)", "ctx.EndContainer(true)", true),
		"RecordTypeRule":      keyPosition("nop", "ctx.EndContainer(false)", false),
		"MarkedObjectKeyableRule": {
			"OnPadding":             {"nop"},
			"OnKeyableObject":       {"ctx.UnstackRule(); cur.OnKeyableObject($ctx,$objType,$key); ctx.MarkObject($objType)"},
			"OnArray":               {"def($v1=arrayTypeToDataType[$arrayType]); ctx.UnstackRule(); cur.OnArray($ctx,$arrayType,$elementCount,$data); ctx.MarkObject($v1)"},
			"OnStringlikeArray":     {"def($v1=arrayTypeToDataType[$arrayType]); ctx.UnstackRule(); cur.OnStringlikeArray($ctx,$arrayType,$data); ctx.MarkObject($v1)"},
			"OnArrayBegin":          {"ctx.BeginArrayKeyable(_s,$arrayType)"},
			"OnChildContainerEnded": {"ctx.MarkEndedContainer($dataType); ctx.UnstackRule(); cur.OnChildContainerEnded($ctx,$dataType)"},
		},
		"MarkedObjectAnyTypeRule": {
			"OnPadding":       {"nop"},
			"OnNull":          {"ctx.UnstackRule(); cur.OnNull($ctx); ctx.MarkObject(DataTypeNull)"},
			"OnKeyableObject": {"ctx.UnstackRule(); cur.OnKeyableObject($ctx,$objType,$key); ctx.MarkObject($objType)"},
			// every parent of an any-type marker treats keyable and non-keyable scalars alike, so either dispatch is accepted
			"OnNonKeyableObject": {"ctx.UnstackRule(); cur.OnNonKeyableObject($ctx,$objType); ctx.MarkObject($objType)",
				"ctx.UnstackRule(); cur.OnKeyableObject($ctx,$objType,_s); ctx.MarkObject($objType)"},
			"OnList":   {"parent.OnList($ctx)", "ctx.BeginList()"},
			"OnMap":    {"parent.OnMap($ctx)", "ctx.BeginMap()"},
			"OnRecord": {"parent.OnRecord($ctx,$identifier)", "ctx.BeginRecord($identifier)"},
			"OnNode":   {"parent.OnNode($ctx)", "ctx.BeginNode()"},
			"OnEdge":   {"parent.OnEdge($ctx)", "ctx.BeginEdge()"},
			"OnArray": {"ctx.AssertArrayType(_s,$arrayType,AllowMarkable); ctx.UnstackRule(); cur.OnArray($ctx,$arrayType,$elementCount,$data); ctx.MarkObject($dataType)",
				"ctx.AssertArrayType(_s,$arrayType,AllowMarkable); def($v1=arrayTypeToDataType[$arrayType]); ctx.UnstackRule(); cur.OnArray($ctx,$arrayType,$elementCount,$data); switch($arrayType){ArrayTypeResourceID,ArrayTypeString:ctx.MarkObject($v1) | default:ctx.MarkObject($v1)}"},
			"OnStringlikeArray": {"ctx.AssertArrayType(_s,$arrayType,AllowMarkable); ctx.UnstackRule(); cur.OnStringlikeArray($ctx,$arrayType,$data); ctx.MarkObject($dataType)",
				"ctx.AssertArrayType(_s,$arrayType,AllowMarkable); def($v1=arrayTypeToDataType[$arrayType]); ctx.UnstackRule(); cur.OnStringlikeArray($ctx,$arrayType,$data); switch($arrayType){ArrayTypeString:ctx.MarkObject($v1) | default:ctx.MarkObject($v1)}"},
			"OnArrayBegin":          {"ctx.AssertArrayType(_s,$arrayType,AllowMarkable); parent.OnArrayBegin($ctx,$arrayType)"},
			"OnChildContainerEnded": {"ctx.MarkEndedContainer($cType); ctx.UnstackRule(); cur.OnChildContainerEnded($ctx,$cType)"},
		},
		// array contexts (contents: C11)
		"ArrayRule": {
			"OnComment":    {"nop"},
			"OnArrayChunk": {"if($length==0){ctx.tryEndArray($moreChunksFollow,nil); return}; ctx.BeginChunkAnyType($length,$moreChunksFollow)"},
		},
		"StringRule": {
			"OnArrayChunk": {"if($length==0){ctx.tryEndArray($moreChunksFollow,nil); return}; ctx.BeginChunkString($length,$moreChunksFollow)"},
		},
		"StringBuilderRule": {
			"OnArrayChunk": {"if($length==0){ctx.tryEndArray($moreChunksFollow,nil); return}; ctx.BeginChunkStringBuilder($length,$moreChunksFollow)"},
		},
		"ArrayChunkRule": {
			"OnArrayData": {"ctx.MarkCompletedChunkByteCount(uint64(?pure:len($data))); if($ctx.chunkActualByteCount==$ctx.chunkExpectedByteCount){ctx.EndChunkAnyType()}"},
		},
	}
	return spec
}

// rule types whose cells are decided by C11 (string chunk contents) rather than here
var c10ChunkContentRules = map[string]bool{"StringChunkRule": true, "StringBuilderChunkRule": true}

func checkC10(r *core.Run, p *core.Program) {
	r.Rule("C10.table", "the full (rule context x EventRule method) transition table is extracted from package rules (effect summaries over Context primitives, helper methods inlined, generated defaults included) and every cell is compared with the reference context specification of DESIGN.md Appendix A: accept/reject, successor context, container begun, end handling, key registration, marker/reference masks.")
	r.Rule("C10.counts", "the Context primitives the table relies on have the required guards and constants: object-count guards (> expected at each new object, != expected at end, depth 0 => reject), edges begin with exactly 3 expected objects, records take their count from the declared record type and reject unknown types, a record type may be defined once and only with an empty stack, each Begin* enters the matching first context.")
	r.Rule("C10.dispatch", "every RulesEventReceiver.On* event calls, on the current rule, the EventRule method assigned to that event class by the classification table (keyable scalars / non-keyable scalars / arrays / containers / structural), with the matching DataType, and counts it as a real object exactly when it is one.")
	r.NotDecide("value-dependent parts of validity (array contents: C11, identifiers: C13, limits: C14)")
	a := newAnalysis(p)
	table, ruleTypes, events, pos := ruleTable(p, a)
	if table == nil {
		r.Undecided("C10.table", "rules.EventRule / rules.Context")
		return
	}
	if os.Getenv("VERIF_DUMP") != "" {
		for _, rt := range ruleTypes {
			for _, ev := range events {
				if table[rt][ev] != "reject" {
					fmt.Printf("%-26s %-22s %s\n", rt, ev, table[rt][ev])
				}
			}
		}
	}
	spec := c10Spec()
	// which rule variables are reachable (entered by some ChangeRule/beginContainer/stackRule/beginArray)?
	reachable := reachableRuleTypes(p)
	cells := 0
	for _, rt := range ruleTypes {
		if c10ChunkContentRules[rt] {
			continue
		}
		cs, known := spec[rt]
		if !known {
			if reachable[rt] {
				r.Fail("C10.table", rt+"|unspecified-context", token.NoPos, "rule context "+rt+" can be entered but has no row in the reference specification: the checker cannot vouch for it")
			} else {
				r.Pass("C10.table", rt+"|unreachable-context", token.NoPos, "never entered by any ChangeRule/stackRule/beginContainer/beginArray call; not judged")
			}
			continue
		}
		for _, ev := range events {
			cells++
			got := table[rt][ev]
			want := cs[ev]
			if len(want) == 0 {
				want = []string{"reject"}
			}
			ok := false
			for _, w := range want {
				if sameEffect(got, []string{w}) {
					ok = true
				}
			}
			r.Check("C10.table", rt+"."+ev, pos[rt+"."+ev], ok,
				fmt.Sprintf("context %s, event %s: the code does `%s` but the reference specification requires `%s`", rt, ev, got, strings.Join(want, "` or `")))
		}
	}
	for rt := range spec {
		if table[rt] == nil {
			r.Undecided("C10.table", "rules."+rt)
		}
	}
	r.Floor("C10.table", "cells compared", cells, 19*23)
	r.Count("C10.table rule types", len(ruleTypes))

	checkC10Counts(r, p, a)
	checkC10Dispatch(r, p, a)
}

// reachableRuleTypes: rule types whose package-level instance is passed (by address) to any call in package rules.
func reachableRuleTypes(p *core.Program) map[string]bool {
	out := map[string]bool{}
	pkg := p.Pkg("rules")
	info := pkg.TypesInfo
	for _, f := range funcsOf(pkg) {
		ast.Inspect(f.Decl.Body, func(n ast.Node) bool {
			switch n := n.(type) {
			case *ast.UnaryExpr:
				if n.Op == token.AND {
					if v, ok := objOf(info, n.X).(*types.Var); ok && v.Parent() == pkg.Types.Scope() {
						if nt := namedOf(v.Type()); nt != nil {
							out[nt.Obj().Name()] = true
						}
					}
				}
			}
			return true
		})
	}
	return out
}

// ctxSummary renders a Context method with the generic effect extractor (calls on the context are primitives).
func ctxSummary(p *core.Program, a *analysis, name string) (string, *fn) {
	f := findFn(p, "rules", "Context."+name)
	if f == nil {
		return "", nil
	}
	ctxT := p.LookupType("rules", "Context")
	e := &effectCtx{a: a, p: p, ctxType: ctxT.Type().(*types.Named)}
	return e.summarize(f.Obj), f
}

func checkC10Counts(r *core.Run, p *core.Program, a *analysis) {
	checkCtxPrimitives(r, p, a, "C10.counts", "BeginList", "BeginMap", "BeginEdge", "BeginNode", "BeginRecordType", "BeginRecord", "beginContainer",
		"endContainerLike", "EndContainer", "addRecordType", "NotifyNewObject", "BeginMarkerKeyable", "BeginMarkerAnyType", "LocalReferenceKeyable",
		"LocalReferenceAnyType", "ChangeRule", "MarkEndedContainer", "UnstackRule", "AssertArrayType", "BeginArrayKeyable", "ValidateFullArrayKeyable", "ValidateFullArrayStringlikeKeyable")
	// a reset validator carries nothing over from the previous document (record types, markers, counters, stack)
	checkResetSpec(r, p, "C10.counts", resetSpecs[0])
	// statement-order / state-update facts the summaries do not show
	info := p.Pkg("rules").TypesInfo
	// (1) counters are advanced BEFORE being compared (NotifyNewObject, beginContainer): checked by C14.limit-guard.
	// (2) areRecordTypesAllowed <=> empty stack
	if f := findFn(p, "rules", "Context.areRecordTypesAllowed"); f == nil {
		// the predicate was inlined: BeginRecordType is compared with the reference expanded by `len(stack) == 0` (ctxspec.go)
		r.Pass("C10.counts", "rules.Context.areRecordTypesAllowed|empty-stack", 0, "inlined into BeginRecordType, which is judged against the expanded reference")
	} else {
		ok := false
		if len(f.Decl.Body.List) == 1 {
			if ret, isRet := f.Decl.Body.List[0].(*ast.ReturnStmt); isRet && len(ret.Results) == 1 {
				if be, isB := stripParens(ret.Results[0]).(*ast.BinaryExpr); isB && be.Op == token.EQL {
					if k, isC := constInt(info, be.Y); isC && k == 0 {
						if c, isCall := stripParens(be.X).(*ast.CallExpr); isCall && len(c.Args) == 1 {
							if fld := fieldOf(info, c.Args[0]); fld != nil && fld.Name() == "stack" {
								ok = true
							}
						}
					}
				}
			}
		}
		r.Check("C10.counts", "rules.Context.areRecordTypesAllowed|empty-stack", f.Decl.Pos(), ok, "record types must be allowed exactly when the context stack is empty (before the single top-level object, outside every container)")
	}
	// (3) BeginRecord looks the count up in recordTypes by the record's identifier; addRecordType stores under the same map
	if f := findFn(p, "rules", "Context.BeginRecord"); f != nil {
		ok := false
		ast.Inspect(f.Decl.Body, func(n ast.Node) bool {
			if ix, isIx := n.(*ast.IndexExpr); isIx {
				if fld := fieldOf(info, ix.X); fld != nil && fld.Name() == "recordTypes" {
					ok = true
				}
			}
			return true
		})
		r.Check("C10.counts", "rules.Context.BeginRecord|count-from-record-type", f.Decl.Pos(), ok, "the expected object count of a record does not come from the recordTypes map")
	}
	if f := findFn(p, "rules", "Context.addRecordType"); f != nil {
		stores := false
		ast.Inspect(f.Decl.Body, func(n ast.Node) bool {
			if as, isAs := n.(*ast.AssignStmt); isAs && len(as.Lhs) == 1 {
				if ix, isIx := as.Lhs[0].(*ast.IndexExpr); isIx {
					if fld := fieldOf(info, ix.X); fld != nil && fld.Name() == "recordTypes" && len(as.Rhs) == 1 {
						if id, isId := as.Rhs[0].(*ast.Ident); isId && paramIndex(f.Obj, info.ObjectOf(id)) == 1 {
							stores = true
						}
					}
				}
			}
			return true
		})
		r.Check("C10.counts", "rules.Context.addRecordType|stores-field-count", f.Decl.Pos(), stores, "addRecordType does not store the record type's field count under its identifier")
	}
	// (4) Reset starts in the begin-document context
	if f := findFn(p, "rules", "Context.Reset"); f != nil {
		ok := false
		ast.Inspect(f.Decl.Body, func(n ast.Node) bool {
			if kv, isKV := n.(*ast.KeyValueExpr); isKV {
				if id, isId := kv.Key.(*ast.Ident); isId && id.Name == "Rule" {
					if u, isU := kv.Value.(*ast.UnaryExpr); isU && u.Op == token.AND {
						if v := objOf(info, u.X); v != nil && v.Name() == "beginDocumentRule" {
							ok = true
						}
					}
				}
			}
			return true
		})
		r.Check("C10.counts", "rules.Context.Reset|starts-at-begin-document", f.Decl.Pos(), ok, "a reset validator does not start in the begin-document context")
	} else {
		r.Undecided("C10.counts", "rules.Context.Reset")
	}
	// (5) EndDocument: unresolved forward references reject, then terminal
	if got, f := ctxSummary(p, a, "EndDocument"); f != nil {
		got = canonEffect(got)
		ok := strings.HasPrefix(got, "if(?pure:len($_this.forwardLocalReferences)>0){") && strings.Contains(got, "reject}") && strings.HasSuffix(got, "ctx.ChangeRule(terminalRule)")
		r.Check("C10.counts", "rules.Context.EndDocument", f.Decl.Pos(), ok, "EndDocument must reject unresolved forward references and then enter the terminal context; it does `"+got+"`")
	} else {
		r.Undecided("C10.counts", "rules.Context.EndDocument")
	}
	// (6) stackRule pushes the current entry and starts a fresh one with zero objects and a fresh key set; UnstackRule pops
	if f := findFn(p, "rules", "Context.stackRule"); f != nil {
		push, fresh := false, false
		ast.Inspect(f.Decl.Body, func(n ast.Node) bool {
			switch n := n.(type) {
			case *ast.CallExpr:
				if id, isId := n.Fun.(*ast.Ident); isId && id.Name == "append" && len(n.Args) == 2 {
					if fld := fieldOf(info, n.Args[0]); fld != nil && fld.Name() == "stack" {
						if f2 := fieldOf(info, n.Args[1]); f2 != nil && f2.Name() == "CurrentEntry" {
							push = true
						}
					}
				}
			case *ast.CompositeLit:
				hasKeys, zeroCount, ruleParam, countParam := false, true, false, false
				for _, el := range n.Elts {
					kv, isKV := el.(*ast.KeyValueExpr)
					if !isKV {
						continue
					}
					key := kv.Key.(*ast.Ident).Name
					switch key {
					case "Keys":
						if c, isC := kv.Value.(*ast.CallExpr); isC {
							if id, isId := c.Fun.(*ast.Ident); isId && id.Name == "make" {
								hasKeys = true
							}
						}
					case "CurrentObjectCount":
						if k, isC := constInt(info, kv.Value); !isC || k != 0 {
							zeroCount = false
						}
					case "Rule":
						if id, isId := kv.Value.(*ast.Ident); isId && paramIndex(f.Obj, info.ObjectOf(id)) == 0 {
							ruleParam = true
						}
					case "ExpectedObjectCount":
						if id, isId := kv.Value.(*ast.Ident); isId && paramIndex(f.Obj, info.ObjectOf(id)) == 2 {
							countParam = true
						}
					}
				}
				if hasKeys && zeroCount && ruleParam && countParam {
					fresh = true
				}
			}
			return true
		})
		r.Check("C10.counts", "rules.Context.stackRule|push-and-fresh-entry", f.Decl.Pos(), push && fresh,
			"stackRule must push the current entry and start a fresh entry (given rule, given expected count, zero objects, fresh key set)")
	} else {
		r.Undecided("C10.counts", "rules.Context.stackRule")
	}
	_ = constant.MakeBool
}

// classification of receiver events (from the CE specification's type classes)
var c10EventClass = map[string]struct {
	method   string // EventRule method
	dataType string // DataType constant passed ("" = none)
	realObj  string // "true" / "false" / "" (no NotifyNewObject)
}{
	"OnBeginDocument": {"OnBeginDocument", "", ""}, "OnEndDocument": {"OnEndDocument", "", ""}, "OnVersion": {"OnVersion", "", ""},
	"OnPadding": {"OnPadding", "", ""}, "OnComment": {"OnComment", "", ""},
	"OnNull":    {"OnNull", "", "true"},
	"OnBoolean": {"OnKeyableObject", "DataTypeBool", "true"}, "OnTrue": {"OnKeyableObject", "DataTypeBool", "true"}, "OnFalse": {"OnKeyableObject", "DataTypeBool", "true"},
	"OnPositiveInt": {"OnKeyableObject", "DataTypeInt", "true"}, "OnNegativeInt": {"OnKeyableObject", "DataTypeInt", "true"}, "OnInt": {"OnKeyableObject", "DataTypeInt", "true"}, "OnBigInt": {"OnKeyableObject", "DataTypeInt", "true"},
	"OnFloat": {"OnNonKeyableObject", "DataTypeFloat", "true"}, "OnBigFloat": {"OnNonKeyableObject", "DataTypeFloat", "true"}, "OnDecimalFloat": {"OnNonKeyableObject", "DataTypeFloat", "true"}, "OnBigDecimalFloat": {"OnNonKeyableObject", "DataTypeFloat", "true"},
	"OnNan": {"OnNonKeyableObject", "DataTypeNan", "true"},
	"OnUID": {"OnKeyableObject", "DataTypeUID", "true"}, "OnTime": {"OnKeyableObject", "DataTypeTime", "true"},
	"OnArray": {"OnArray", "", "true"}, "OnStringlikeArray": {"OnStringlikeArray", "", "true"},
	"OnMedia": {"OnArray", "ArrayTypeMedia", "true"}, "OnCustomBinary": {"OnArray", "ArrayTypeCustomBinary", "true"}, "OnCustomText": {"OnStringlikeArray", "ArrayTypeCustomText", "true"},
	"OnArrayBegin": {"OnArrayBegin", "", "true"}, "OnMediaBegin": {"OnArrayBegin", "ArrayTypeMedia", "true"}, "OnCustomBegin": {"OnArrayBegin", "", "true"},
	"OnArrayChunk": {"OnArrayChunk", "", ""}, "OnArrayData": {"OnArrayData", "", ""},
	"OnList": {"OnList", "", "true"}, "OnMap": {"OnMap", "", "true"}, "OnEndContainer": {"OnEnd", "", ""},
	"OnRecordType": {"OnRecordType", "", "false"}, "OnRecord": {"OnRecord", "", "true"}, "OnNode": {"OnNode", "", "true"}, "OnEdge": {"OnEdge", "", "true"},
	"OnMarker": {"OnMarker", "", "true"}, "OnReferenceLocal": {"OnReferenceLocal", "", "true"},
	"OnError": {"", "", ""},
}

func checkC10Dispatch(r *core.Run, p *core.Program, a *analysis) {
	iface := p.LookupType("ce/events", "DataEventReceiver")
	ctxT := p.LookupType("rules", "Context")
	if iface == nil || ctxT == nil {
		r.Undecided("C10.dispatch", "events.DataEventReceiver")
		return
	}
	it := iface.Type().Underlying().(*types.Interface)
	n := 0
	for i := 0; i < it.NumMethods(); i++ {
		ev := it.Method(i).Name()
		cls, known := c10EventClass[ev]
		f := findFn(p, "rules", "RulesEventReceiver."+ev)
		if f == nil {
			r.Undecided("C10.dispatch", "rules.RulesEventReceiver."+ev)
			continue
		}
		if !known {
			r.Fail("C10.dispatch", "rules.RulesEventReceiver."+ev+"|unclassified-event", f.Decl.Pos(), "event "+ev+" is not in the checker's classification table; its validation cannot be vouched for")
			continue
		}
		n++
		info := f.Pkg.TypesInfo
		// collect, over the straight-line part after the early-return redispatches, the calls cur.X(...) and NotifyNewObject(b)
		var ruleCalls []string
		var notify []string
		notifyBeforeRule := true
		// helper methods of the receiver and unexported package functions are followed with their parameters bound to
		// the call's arguments, so an extracted `beginObject(dataType, ...)` reads like the inlined statements
		type binding map[types.Object]ast.Expr
		var walk func(body ast.Node, info *types.Info, env binding, depth int)
		resolve := func(info *types.Info, env binding, e ast.Expr) ast.Expr {
			for k := 0; k < 6; k++ {
				id, ok := ast.Unparen(e).(*ast.Ident)
				if !ok || env == nil {
					break
				}
				b, ok := env[info.ObjectOf(id)]
				if !ok {
					break
				}
				e = b
			}
			return e
		}
		walk = func(body ast.Node, info *types.Info, env binding, depth int) {
			ast.Inspect(body, func(nd ast.Node) bool {
				call, ok := nd.(*ast.CallExpr)
				if !ok {
					return true
				}
				cal := callee(info, call)
				if cal == nil {
					return true
				}
				if rn := recvNamed(cal); rn != nil && rn.Obj() == ctxT && cal.Name() == "NotifyNewObject" && len(call.Args) == 1 {
					if v := constVal(info, resolve(info, env, call.Args[0])); v != nil {
						notify = append(notify, v.ExactString())
					} else {
						notify = append(notify, "?")
					}
					if len(ruleCalls) > 0 {
						notifyBeforeRule = false
					}
					return true
				}
				if rt := recvType(cal); rt != nil {
					if nt := namedOf(rt); nt != nil && nt.Obj().Name() == "EventRule" {
						s := cal.Name()
						// DataType / ArrayType constant argument
						for _, arg := range call.Args {
							if c, isC := objOf(info, resolve(info, env, arg)).(*types.Const); isC {
								if nt := namedOf(c.Type()); nt != nil && (nt.Obj().Name() == "DataType" || nt.Obj().Name() == "ArrayType") {
									s += ":" + c.Name()
								}
							}
						}
						ruleCalls = append(ruleCalls, s)
						return true
					}
				}
				if depth < 3 && !cal.Exported() && cal.Pkg() == ctxT.Pkg() {
					rn := recvNamed(cal)
					if rn == nil || rn.Obj().Name() == "RulesEventReceiver" {
						if d := p.FuncDecl(cal); d != nil && d.Body != nil {
							sub := binding{}
							sig := cal.Type().(*types.Signature)
							for i := 0; i < sig.Params().Len() && i < len(call.Args); i++ {
								if !sig.Variadic() || i < sig.Params().Len()-1 {
									sub[sig.Params().At(i)] = resolve(info, env, call.Args[i])
								}
							}
							walk(d.Body, info, sub, depth+1)
						}
					}
				}
				return true
			})
		}
		walk(f.Decl.Body, info, nil, 0)
		// a method that hands the event over to another event of the receiver (nil big number -> OnNull, NaN -> OnNan)
		// must do so before it counts or validates anything itself: the other event counts the object again
		{
			var firstCount, lastRedispatch token.Pos
			ast.Inspect(f.Decl.Body, func(nd ast.Node) bool {
				call, ok := nd.(*ast.CallExpr)
				if !ok {
					return true
				}
				cal := callee(info, call)
				if cal == nil {
					return true
				}
				if rn := recvNamed(cal); rn != nil && rn.Obj() == ctxT && cal.Name() == "NotifyNewObject" && !firstCount.IsValid() {
					// a count inside a branch that returns is on another path than what follows the branch
					if !insideLeavingBranch(f.Decl.Body, call) {
						firstCount = call.Pos()
					}
				}
				if rn := recvNamed(cal); rn != nil && rn.Obj().Name() == "RulesEventReceiver" && strings.HasPrefix(cal.Name(), "On") && cal != f.Obj {
					if sel, ok := call.Fun.(*ast.SelectorExpr); ok {
						if id, ok := stripParens(sel.X).(*ast.Ident); ok && f.Decl.Recv != nil && len(f.Decl.Recv.List) == 1 && len(f.Decl.Recv.List[0].Names) == 1 && info.ObjectOf(id) == info.ObjectOf(f.Decl.Recv.List[0].Names[0]) {
							lastRedispatch = call.Pos()
						}
					}
				}
				return true
			})
			if lastRedispatch.IsValid() {
				r.Check("C10.dispatch", "rules.RulesEventReceiver."+ev+"|redispatch before counting", lastRedispatch, !firstCount.IsValid() || firstCount > lastRedispatch,
					"the event is counted (NotifyNewObject) before it is handed over to another event of the receiver, which counts it again: one object uses up two of MaxObjectCount and of the enclosing container's expected count")
			}
		}
		name := "rules.RulesEventReceiver." + ev
		if cls.method == "" {
			r.Check("C10.dispatch", name+"|no-validation", f.Decl.Pos(), len(ruleCalls) == 0 && len(notify) == 0, "OnError must not be validated or counted")
			continue
		}
		want := cls.method
		if cls.dataType != "" {
			want += ":" + cls.dataType
		}
		r.Check("C10.dispatch", name+"|rule-method", f.Decl.Pos(), len(ruleCalls) == 1 && ruleCalls[0] == want,
			fmt.Sprintf("event %s must be validated by exactly one call of the current rule's %s; found %v", ev, want, ruleCalls))
		wantNotify := []string{}
		if cls.realObj != "" {
			wantNotify = []string{cls.realObj}
		}
		r.Check("C10.dispatch", name+"|object-count", f.Decl.Pos(), strings.Join(notify, ",") == strings.Join(wantNotify, ",") && notifyBeforeRule,
			fmt.Sprintf("event %s must call NotifyNewObject(%s) once, before the rule; found %v", ev, strings.Join(wantNotify, ","), notify))
	}
	r.Floor("C10.dispatch", "receiver events classified", n, 40)
}

// insideLeavingBranch: the node lies in the body (or else block) of an if statement, or in a case clause, whose last
// statement is a return: nothing after that statement runs on the node's path.
func insideLeavingBranch(body *ast.BlockStmt, target ast.Node) bool {
	res := false
	var stack []ast.Node
	ast.Inspect(body, func(n ast.Node) bool {
		if n == nil {
			stack = stack[:len(stack)-1]
			return true
		}
		stack = append(stack, n)
		if n != target {
			return true
		}
		for i := 1; i < len(stack); i++ {
			var list []ast.Stmt
			switch x := stack[i].(type) {
			case *ast.BlockStmt:
				if _, isIf := stack[i-1].(*ast.IfStmt); isIf {
					list = x.List
				}
			case *ast.CaseClause:
				list = x.Body
			}
			if len(list) > 0 {
				if _, isRet := list[len(list)-1].(*ast.ReturnStmt); isRet {
					res = true
				}
			}
		}
		return true
	})
	return res
}
