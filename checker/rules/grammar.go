package rules

// E3: reader for the ANTLR lexer grammar codegen/cte/CTELexer.g4. It parses token and
// fragment rules into a small regular-expression AST and decides membership of a string
// in a rule's language by position-set simulation (no backtracking blow-up). Semantic
// predicates/actions ({...}, {...}?) are treated as epsilon; rules that contain them
// (verbatim sequences) are never used as oracles.

import (
	"fmt"
	"os"
	"path/filepath"
	"strings"
	"unicode"
)

type gKind int

const (
	gSeq gKind = iota
	gAlt
	gStar
	gPlus
	gOpt
	gLit
	gSetK
	gRef
	gAny
	gEps
)

type gNode struct {
	Kind   gKind
	Kids   []*gNode
	Lit    string
	Set    *gCharSet
	Ref    string
	Negate bool
}

type gRange struct{ lo, hi rune }
type gCharSet struct {
	Ranges  []gRange
	Classes []*unicode.RangeTable
	Neg     bool
}

func (s *gCharSet) has(r rune) bool {
	in := false
	for _, rg := range s.Ranges {
		if r >= rg.lo && r <= rg.hi {
			in = true
			break
		}
	}
	if !in {
		for _, c := range s.Classes {
			if unicode.Is(c, r) {
				in = true
				break
			}
		}
	}
	return in != s.Neg
}

type gRule struct {
	Name     string
	Fragment bool
	Mode     string
	Body     *gNode
	Commands []string // e.g. "pushMode(MODE_STRING)", "popMode", "mode(MODE_NORMAL)", "skip"
	Raw      string
}

type Grammar struct {
	Rules map[string]*gRule
	Order []string
	Path  string
}

func LoadLexerGrammar(repoDir string) (*Grammar, error) {
	path := filepath.Join(repoDir, "codegen", "cte", "CTELexer.g4")
	b, err := os.ReadFile(path)
	if err != nil {
		return nil, err
	}
	g := &Grammar{Rules: map[string]*gRule{}, Path: path}
	src := string(b)
	// drop the @members { ... } block (balanced braces)
	if i := strings.Index(src, "@members"); i >= 0 {
		j := strings.Index(src[i:], "{")
		depth, k := 0, i+j
		for ; k < len(src); k++ {
			if src[k] == '{' {
				depth++
			} else if src[k] == '}' {
				depth--
				if depth == 0 {
					break
				}
			}
		}
		src = src[:i] + src[k+1:]
	}
	p := &gParser{src: []rune(src)}
	mode := "DEFAULT_MODE"
	for {
		p.skipWS()
		if p.eof() {
			break
		}
		word := p.ident()
		if word == "" {
			return nil, fmt.Errorf("%s: unexpected %q at offset %d", path, string(p.src[p.pos]), p.pos)
		}
		switch word {
		case "lexer":
			p.skipWS()
			p.ident() // grammar
			p.skipWS()
			p.ident() // name
			p.skipWS()
			p.expect(';')
			continue
		case "mode":
			p.skipWS()
			mode = p.ident()
			p.skipWS()
			p.expect(';')
			continue
		}
		frag := false
		if word == "fragment" {
			frag = true
			p.skipWS()
			word = p.ident()
		}
		p.skipWS()
		p.expect(':')
		start := p.pos
		body := p.parseAlt()
		var cmds []string
		p.skipWS()
		if p.peekStr("->") {
			p.pos += 2
			for {
				p.skipWS()
				c := p.ident()
				p.skipWS()
				if p.peek() == '(' {
					p.pos++
					p.skipWS()
					arg := p.ident()
					p.skipWS()
					p.expect(')')
					c += "(" + arg + ")"
				}
				cmds = append(cmds, c)
				p.skipWS()
				if p.peek() == ',' {
					p.pos++
					continue
				}
				break
			}
		}
		raw := strings.TrimSpace(string(p.src[start:p.pos]))
		p.skipWS()
		p.expect(';')
		if p.err != nil {
			return nil, fmt.Errorf("%s: rule %s: %v", path, word, p.err)
		}
		g.Rules[word] = &gRule{Name: word, Fragment: frag, Mode: mode, Body: body, Commands: cmds, Raw: raw}
		g.Order = append(g.Order, word)
	}
	if p.err != nil {
		return nil, p.err
	}
	return g, nil
}

type gParser struct {
	src []rune
	pos int
	err error
}

func (p *gParser) eof() bool { return p.pos >= len(p.src) }
func (p *gParser) peek() rune {
	if p.eof() {
		return 0
	}
	return p.src[p.pos]
}
func (p *gParser) peekStr(s string) bool {
	return strings.HasPrefix(string(p.src[p.pos:min(len(p.src), p.pos+len(s))]), s)
}
func (p *gParser) expect(r rune) {
	if p.peek() != r {
		if p.err == nil {
			p.err = fmt.Errorf("expected %q at offset %d, found %q", string(r), p.pos, string(p.peek()))
		}
		p.pos = len(p.src)
		return
	}
	p.pos++
}
func (p *gParser) skipWS() {
	for !p.eof() {
		c := p.peek()
		if c == ' ' || c == '\t' || c == '\n' || c == '\r' {
			p.pos++
		} else if p.peekStr("//") {
			for !p.eof() && p.peek() != '\n' {
				p.pos++
			}
		} else if p.peekStr("/*") {
			for !p.eof() && !p.peekStr("*/") {
				p.pos++
			}
			p.pos += 2
		} else {
			return
		}
	}
}
func (p *gParser) ident() string {
	s := p.pos
	for !p.eof() && (unicode.IsLetter(p.peek()) || unicode.IsDigit(p.peek()) || p.peek() == '_') {
		p.pos++
	}
	return string(p.src[s:p.pos])
}

func (p *gParser) parseAlt() *gNode {
	alts := []*gNode{p.parseSeq()}
	for {
		p.skipWS()
		if p.peek() == '|' {
			p.pos++
			alts = append(alts, p.parseSeq())
		} else {
			break
		}
	}
	if len(alts) == 1 {
		return alts[0]
	}
	return &gNode{Kind: gAlt, Kids: alts}
}

func (p *gParser) parseSeq() *gNode {
	var items []*gNode
	for {
		p.skipWS()
		c := p.peek()
		if p.eof() || c == '|' || c == ')' || c == ';' || p.peekStr("->") {
			break
		}
		items = append(items, p.parseItem())
		if p.err != nil {
			break
		}
	}
	if len(items) == 1 {
		return items[0]
	}
	if len(items) == 0 {
		return &gNode{Kind: gEps}
	}
	return &gNode{Kind: gSeq, Kids: items}
}

func (p *gParser) parseItem() *gNode {
	p.skipWS()
	neg := false
	if p.peek() == '~' {
		neg = true
		p.pos++
		p.skipWS()
	}
	var n *gNode
	switch c := p.peek(); {
	case c == '(':
		p.pos++
		n = p.parseAlt()
		p.skipWS()
		p.expect(')')
	case c == '\'':
		n = &gNode{Kind: gLit, Lit: p.parseLiteral()}
	case c == '[':
		n = &gNode{Kind: gSetK, Set: p.parseSet()}
	case c == '.':
		p.pos++
		n = &gNode{Kind: gAny}
	case c == '{':
		// action or predicate: epsilon
		depth := 0
		for !p.eof() {
			if p.peek() == '{' {
				depth++
			} else if p.peek() == '}' {
				depth--
				if depth == 0 {
					p.pos++
					break
				}
			}
			p.pos++
		}
		if p.peek() == '?' {
			p.pos++
		}
		return &gNode{Kind: gEps}
	default:
		id := p.ident()
		if id == "" {
			if p.err == nil {
				p.err = fmt.Errorf("unexpected %q at offset %d", string(c), p.pos)
			}
			p.pos = len(p.src)
			return &gNode{Kind: gEps}
		}
		n = &gNode{Kind: gRef, Ref: id}
	}
	if neg {
		if n.Kind == gSetK {
			n.Set.Neg = !n.Set.Neg
		} else if n.Kind == gLit && len([]rune(n.Lit)) == 1 {
			r := []rune(n.Lit)[0]
			n = &gNode{Kind: gSetK, Set: &gCharSet{Ranges: []gRange{{r, r}}, Neg: true}}
		} else {
			n.Negate = true
		}
	}
	// suffix
	for {
		switch p.peek() {
		case '*':
			p.pos++
			n = &gNode{Kind: gStar, Kids: []*gNode{n}}
		case '+':
			p.pos++
			n = &gNode{Kind: gPlus, Kids: []*gNode{n}}
		case '?':
			p.pos++
			// "*?" / "+?" non-greedy marker: same language
			if n.Kind != gStar && n.Kind != gPlus {
				n = &gNode{Kind: gOpt, Kids: []*gNode{n}}
			}
		default:
			return n
		}
	}
}

func (p *gParser) parseEscape() rune {
	// at backslash
	p.pos++
	c := p.peek()
	p.pos++
	switch c {
	case 'n':
		return '\n'
	case 'r':
		return '\r'
	case 't':
		return '\t'
	case 'b':
		return '\b'
	case 'f':
		return '\f'
	case 'u':
		var v rune
		if p.peek() == '{' {
			p.pos++
			for p.peek() != '}' && !p.eof() {
				v = v*16 + hexVal(p.peek())
				p.pos++
			}
			p.pos++
			return v
		}
		for i := 0; i < 4; i++ {
			v = v*16 + hexVal(p.peek())
			p.pos++
		}
		return v
	}
	return c
}

func hexVal(r rune) rune {
	switch {
	case r >= '0' && r <= '9':
		return r - '0'
	case r >= 'a' && r <= 'f':
		return r - 'a' + 10
	case r >= 'A' && r <= 'F':
		return r - 'A' + 10
	}
	return 0
}

func (p *gParser) parseLiteral() string {
	p.expect('\'')
	var sb strings.Builder
	for !p.eof() && p.peek() != '\'' {
		if p.peek() == '\\' {
			sb.WriteRune(p.parseEscape())
		} else {
			sb.WriteRune(p.peek())
			p.pos++
		}
	}
	p.expect('\'')
	return sb.String()
}

var uniClasses = map[string]*unicode.RangeTable{
	"Cf": unicode.Cf, "L": unicode.L, "M": unicode.M, "N": unicode.N, "P": unicode.P, "S": unicode.S, "Z": unicode.Z,
}

func (p *gParser) parseSet() *gCharSet {
	p.expect('[')
	s := &gCharSet{}
	var pending []rune
	for !p.eof() && p.peek() != ']' {
		var r rune
		if p.peek() == '\\' {
			if p.pos+1 < len(p.src) && p.src[p.pos+1] == 'p' {
				p.pos += 2
				p.expect('{')
				name := p.ident()
				p.expect('}')
				if t := uniClasses[name]; t != nil {
					s.Classes = append(s.Classes, t)
				} else if p.err == nil {
					p.err = fmt.Errorf("unknown unicode class %q", name)
				}
				continue
			}
			r = p.parseEscape()
		} else {
			r = p.peek()
			p.pos++
		}
		// range?
		if p.peek() == '-' && p.pos+1 < len(p.src) && p.src[p.pos+1] != ']' {
			p.pos++
			var hi rune
			if p.peek() == '\\' {
				hi = p.parseEscape()
			} else {
				hi = p.peek()
				p.pos++
			}
			s.Ranges = append(s.Ranges, gRange{r, hi})
			continue
		}
		pending = append(pending, r)
	}
	p.expect(']')
	for _, r := range pending {
		s.Ranges = append(s.Ranges, gRange{r, r})
	}
	return s
}

// ---------------------------------------------------------------------------
// membership

// Matches reports whether the whole string s belongs to the language of rule name.
func (g *Grammar) Matches(name, s string) bool {
	r := g.Rules[name]
	if r == nil {
		return false
	}
	rs := []rune(s)
	ends := g.step(r.Body, rs, map[int]bool{0: true}, 0)
	return ends[len(rs)]
}

func (g *Grammar) step(n *gNode, s []rune, from map[int]bool, depth int) map[int]bool {
	out := map[int]bool{}
	if depth > 200 || len(from) == 0 {
		return out
	}
	switch n.Kind {
	case gEps:
		for p := range from {
			out[p] = true
		}
	case gLit:
		lit := []rune(n.Lit)
		for p := range from {
			if p+len(lit) <= len(s) && string(s[p:p+len(lit)]) == n.Lit {
				out[p+len(lit)] = true
			}
		}
	case gSetK:
		for p := range from {
			if p < len(s) && n.Set.has(s[p]) {
				out[p+1] = true
			}
		}
	case gAny:
		for p := range from {
			if p < len(s) {
				out[p+1] = true
			}
		}
	case gRef:
		r := g.Rules[n.Ref]
		if r == nil {
			return out
		}
		return g.step(r.Body, s, from, depth+1)
	case gSeq:
		cur := from
		for _, k := range n.Kids {
			cur = g.step(k, s, cur, depth+1)
		}
		return cur
	case gAlt:
		for _, k := range n.Kids {
			for p := range g.step(k, s, from, depth+1) {
				out[p] = true
			}
		}
	case gOpt:
		for p := range from {
			out[p] = true
		}
		for p := range g.step(n.Kids[0], s, from, depth+1) {
			out[p] = true
		}
	case gStar, gPlus:
		cur := from
		if n.Kind == gStar {
			for p := range from {
				out[p] = true
			}
		}
		for i := 0; i <= len(s)+1; i++ {
			next := g.step(n.Kids[0], s, cur, depth+1)
			added := false
			fresh := map[int]bool{}
			for p := range next {
				if !out[p] {
					out[p] = true
					fresh[p] = true
					added = true
				}
			}
			if !added {
				break
			}
			cur = fresh
		}
	}
	return out
}

// FirstRunes returns, for ASCII, the set of first characters a rule can start with.
func (g *Grammar) FirstASCII(name string) map[rune]bool {
	out := map[rune]bool{}
	for c := rune(0); c < 128; c++ {
		// a rule can start with c iff some string starting with c is a prefix match: approximate by
		// stepping one rune through the body.
		r := g.Rules[name]
		if r == nil {
			return out
		}
		if g.canStart(r.Body, c, 0) {
			out[c] = true
		}
	}
	return out
}

// canStart: can the node consume c as its first rune?
func (g *Grammar) canStart(n *gNode, c rune, depth int) bool {
	if depth > 100 {
		return false
	}
	switch n.Kind {
	case gLit:
		rs := []rune(n.Lit)
		return len(rs) > 0 && rs[0] == c
	case gSetK:
		return n.Set.has(c)
	case gAny:
		return true
	case gRef:
		if r := g.Rules[n.Ref]; r != nil {
			return g.canStart(r.Body, c, depth+1)
		}
	case gSeq:
		for _, k := range n.Kids {
			if g.canStart(k, c, depth+1) {
				return true
			}
			if !g.nullable(k, depth+1) {
				return false
			}
		}
	case gAlt:
		for _, k := range n.Kids {
			if g.canStart(k, c, depth+1) {
				return true
			}
		}
	case gOpt, gStar, gPlus:
		return g.canStart(n.Kids[0], c, depth+1)
	}
	return false
}

func (g *Grammar) nullable(n *gNode, depth int) bool {
	if depth > 100 {
		return false
	}
	switch n.Kind {
	case gEps, gOpt, gStar:
		return true
	case gPlus:
		return g.nullable(n.Kids[0], depth+1)
	case gRef:
		if r := g.Rules[n.Ref]; r != nil {
			return g.nullable(r.Body, depth+1)
		}
	case gSeq:
		for _, k := range n.Kids {
			if !g.nullable(k, depth+1) {
				return false
			}
		}
		return true
	case gAlt:
		for _, k := range n.Kids {
			if g.nullable(k, depth+1) {
				return true
			}
		}
	}
	return false
}

// SetOf returns the character set of a fragment that is a single set/literal alternative
// (e.g. CHAR_IDENTIFIER, CTE_VERSION); nil if the rule has another shape.
func (g *Grammar) ASCIISetOf(name string) map[rune]bool {
	r := g.Rules[name]
	if r == nil {
		return nil
	}
	out := map[rune]bool{}
	for c := rune(0); c < 128; c++ {
		if g.Matches(name, string(c)) {
			out[c] = true
		}
	}
	return out
}
