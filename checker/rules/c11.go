package rules

import (
	"fmt"
	"go/ast"
	"go/token"
	"go/types"
	"strings"

	"verif/checker/core"
)

func init() { Registry["C11"] = checkC11 }

// valueReceiverStores reports, for every value-receiver method in the module, direct stores to fields of the receiver.
func valueReceiverStores(p *core.Program, each func(f *fn, pos token.Pos, field string)) int {
	n := 0
	for _, pkg := range p.Pkgs {
		info := pkg.TypesInfo
		for _, f := range funcsOf(pkg) {
			sig := f.Obj.Type().(*types.Signature)
			if sig.Recv() == nil {
				continue
			}
			if _, isPtr := sig.Recv().Type().(*types.Pointer); isPtr {
				continue
			}
			if _, isStruct := sig.Recv().Type().Underlying().(*types.Struct); !isStruct {
				continue
			}
			if f.Decl.Recv == nil || len(f.Decl.Recv.List[0].Names) == 0 {
				continue
			}
			n++
			recv := info.ObjectOf(f.Decl.Recv.List[0].Names[0])
			rooted := func(e ast.Expr) (string, bool) {
				// e is r.f or r.f.g (struct path without pointer/slice/map indirection)
				path := ""
				for {
					sel, ok := stripParens(e).(*ast.SelectorExpr)
					if !ok {
						return "", false
					}
					if fieldOf(info, sel) == nil {
						return "", false
					}
					path = sel.Sel.Name + "." + path
					if id, ok := stripParens(sel.X).(*ast.Ident); ok {
						if info.ObjectOf(id) == recv {
							return strings.TrimSuffix(path, "."), true
						}
						return "", false
					}
					if t := info.TypeOf(sel.X); t != nil {
						if _, isPtr := t.Underlying().(*types.Pointer); isPtr {
							return "", false
						}
					}
					e = sel.X
				}
			}
			ast.Inspect(f.Decl.Body, func(nd ast.Node) bool {
				switch s := nd.(type) {
				case *ast.AssignStmt:
					for _, lhs := range s.Lhs {
						if path, ok := rooted(lhs); ok {
							each(f, s.Pos(), path)
						}
					}
				case *ast.IncDecStmt:
					if path, ok := rooted(s.X); ok {
						each(f, s.Pos(), path)
					}
				}
				return true
			})
		}
	}
	return n
}

func checkC11(r *core.Run, p *core.Program) {
	r.Rule("C11.value-receiver", "no method with a value receiver stores to a field of its receiver anywhere in the module (the update is lost when the method returns; in the validator it loses the undelivered tail of a split UTF-8 character between data events).")
	r.Rule("C11.stringlike", "every switch over the array type in the full-array and chunked validation entry points routes each string-like type (string, resource ID, remote reference, custom text) to a branch that reaches a UTF-8 validity check, and the media type argument of the media events reaches one too.")
	r.Rule("C11.chunk-accounting", "each chunk-data handler first adds the delivered byte count (rejecting when it exceeds the declared chunk length), streams string data through the split-character buffer and validates it, and ends the chunk exactly when the declared length is reached; a string chunk may not end inside a character; an array ends only on a chunk that is not followed by more; the Context primitives involved have the required guard shapes.")
	r.Rule("C11.stream-alias", "a slice that Context.StreamStringData returns does not share its backing array with a buffer of the context that the same call writes afterwards: when a result is (a reslice of) a slice field of the context, no later statement of the function copies into, or re-slices and fills, that field or the array field it is a view of (otherwise the bytes of the character completed from the previous data event are overwritten by the start of the next split character before the caller has validated them, and the verdict depends on how the data was split).")
	checkC11StreamAlias(r, p)
	r.Rule("C11.rune-index", "chars.IndexOfLastRuneStart never returns a negative index (a negative index makes the split-character buffer slice out of range).")
	r.NotDecide("UTF-8 validity decisions themselves (unicode/utf8); equality of verdicts over all possible splits (the structural conditions above are necessary for it)")
	a := newAnalysis(p)
	pkg := p.Pkg("rules")
	info := pkg.TypesInfo

	// ---- value receivers
	nvr := valueReceiverStores(p, func(f *fn, pos token.Pos, field string) {
		r.Fail("C11.value-receiver", f.Name()+"|store to "+field, pos, "method has a value receiver but assigns to its field "+field+": the assignment modifies a copy and is lost")
	})
	r.Count("C11.value-receiver value-receiver methods scanned", nvr)
	r.Pass("C11.value-receiver", "module|scanned", token.NoPos, "")
	r.Floor("C11.value-receiver", "value-receiver methods on struct types", nvr, 1)

	// ---- stringlike routing
	S := []string{"ArrayTypeString", "ArrayTypeResourceID", "ArrayTypeReferenceRemote", "ArrayTypeCustomText"}
	for _, fname := range []string{"ValidateFullArrayAnyType", "ValidateFullArrayStringlike", "BeginArrayAnyType"} {
		f := findFn(p, "rules", "Context."+fname)
		if f == nil {
			r.Undecided("C11.stringlike", "rules.Context."+fname)
			continue
		}
		var sw *ast.SwitchStmt
		ast.Inspect(f.Decl.Body, func(n ast.Node) bool {
			if s, ok := n.(*ast.SwitchStmt); ok && sw == nil && s.Tag != nil {
				if nt := namedOf(info.TypeOf(s.Tag)); nt != nil && nt.Obj().Name() == "ArrayType" {
					sw = s
				}
			}
			return true
		})
		if sw == nil {
			r.Undecided("C11.stringlike", "switch over the array type in rules.Context."+fname)
			continue
		}
		cases := switchTable(info, sw)
		for _, member := range S {
			var clause *switchCase
			for i := range cases {
				for _, e := range cases[i].Exprs {
					if c, ok := objOf(info, e).(*types.Const); ok && c.Name() == member {
						clause = &cases[i]
					}
				}
			}
			if clause == nil {
				for i := range cases {
					if cases[i].Default {
						clause = &cases[i]
					}
				}
			}
			ok := clause != nil && a.nodeReaches(info, clause.Clause, isUTF8Valid)
			r.Check("C11.stringlike", "rules.Context."+fname+"|"+member, sw.Pos(), ok,
				"array type "+member+" is routed to a branch that never reaches a UTF-8 validity check: invalid text is accepted")
		}
	}
	for _, ev := range []string{"OnMedia", "OnMediaBegin"} {
		f := findFn(p, "rules", "RulesEventReceiver."+ev)
		if f == nil {
			r.Undecided("C11.stringlike", "rules.RulesEventReceiver."+ev)
			continue
		}
		mt := f.Obj.Type().(*types.Signature).Params().At(0)
		ok := false
		inspectCalls(info, f.Decl.Body, func(call *ast.CallExpr, cal *types.Func) {
			if cal == nil || !core.InModule(cal) {
				return
			}
			for _, arg := range call.Args {
				if objOf(info, stripConv(info, arg)) == mt && (a.reaches(cal, isUTF8Valid) || a.isASCIIClassValidator(cal)) {
					ok = true
				}
			}
		})
		r.Check("C11.stringlike", "rules.RulesEventReceiver."+ev+"|mediaType", f.Decl.Pos(), ok,
			"the media type string is not passed to any UTF-8 validity check nor to a validator restricting it to ASCII character classes: an invalid media type is accepted")
	}

	// ---- chunk accounting
	table, _, _, pos := ruleTable(p, a)
	wantCells := map[string]string{
		"ArrayChunkRule.OnArrayData":  "ctx.MarkCompletedChunkByteCount(uint64(?pure:len($data))); if($ctx.chunkActualByteCount==$ctx.chunkExpectedByteCount){ctx.EndChunkAnyType()}",
		"StringChunkRule.OnArrayData": "ctx.MarkCompletedChunkByteCount(uint64(?pure:len($data))); def($v1,$v2=ctx.StreamStringData($data)); callfield:ValidateArrayDataFunc($v1); callfield:ValidateArrayDataFunc($v2); ctx.AddBuiltArrayBytes($v1); ctx.AddBuiltArrayBytes($v2); if($ctx.chunkActualByteCount==$ctx.chunkExpectedByteCount){ctx.EndChunkString()}",
	}
	for cell, want := range wantCells {
		parts := strings.SplitN(cell, ".", 2)
		got := table[parts[0]][parts[1]]
		r.Check("C11.chunk-accounting", cell, pos[cell], sameEffect(got, []string{want}), fmt.Sprintf("chunk data handler does `%s`; required `%s`", got, want))
	}
	for _, rt := range []string{"StringChunkRule", "ArrayChunkRule"} {
		for ev, got := range table[rt] {
			if ev != "OnArrayData" && got != "reject" {
				r.Fail("C11.chunk-accounting", rt+"."+ev, pos[rt+"."+ev], "inside a chunk only array data may arrive; this handler does `"+got+"`")
			}
		}
	}
	// StringBuilder rules are not judged as long as nothing enters them
	if f := p.LookupFunc("rules", "Context.BeginStringBuilder"); f != nil {
		callers := 0
		for _, pk := range p.Pkgs {
			for _, g := range funcsOf(pk) {
				inspectCalls(pk.TypesInfo, g.Decl.Body, func(call *ast.CallExpr, cal *types.Func) {
					if cal == f {
						callers++
					}
				})
			}
		}
		r.Check("C11.chunk-accounting", "rules.Context.BeginStringBuilder|no-callers", f.Pos(), callers == 0,
			"the string-builder array contexts are now entered by some caller but have no row in the reference specification (their data handler does not validate UTF-8)")
	}
	checkCtxPrimitives(r, p, a, "C11.chunk-accounting", "StreamStringData", "MarkCompletedChunkByteCount", "markUpcomingChunkByteCount", "EndChunkString", "EndChunkAnyType",
		"tryEndArray", "BeginChunkString", "BeginChunkAnyType", "beginArray", "ValidateByteCountForType", "AddBuiltArrayBytes", "GetBuiltArrayAsString")
	// StreamStringData: pointer receiver (covered by value-receiver rule) and keeps the incomplete tail
	if f := findFn(p, "rules", "Context.StreamStringData"); f == nil {
		r.Undecided("C11.chunk-accounting", "rules.Context.StreamStringData")
	} else {
		_, isPtr := f.Obj.Type().(*types.Signature).Recv().Type().(*types.Pointer)
		r.Check("C11.chunk-accounting", "rules.Context.StreamStringData|pointer-receiver", f.Decl.Pos(), isPtr,
			"StreamStringData has a value receiver: the buffered tail of a split multi-byte character is lost between data events, so the verdict depends on where the data is split")
	}

	// ---- rune index
	if f := findFn(p, "internal/chars", "IndexOfLastRuneStart"); f == nil {
		r.Undecided("C11.rune-index", "chars.IndexOfLastRuneStart")
	} else {
		cinfo := f.Pkg.TypesInfo
		res := f.Obj.Type().(*types.Signature).Results()
		ok := true
		detail := ""
		if res.Len() > 0 && res.At(0).Name() != "" {
			idx := res.At(0)
			body := f.Decl.Body.List
			for i, s := range body {
				fs, isFor := s.(*ast.ForStmt)
				if !isFor || fs.Cond == nil {
					continue
				}
				be, isB := stripParens(fs.Cond).(*ast.BinaryExpr)
				if !isB || be.Op != token.GEQ || objOf(cinfo, be.X) != idx {
					continue
				}
				// loop exits with idx == -1: what follows must set/return a non-negative index explicitly
				fixed := false
				for _, t := range body[i+1:] {
					switch t := t.(type) {
					case *ast.ReturnStmt:
						if len(t.Results) >= 1 {
							if k, isC := constInt(cinfo, t.Results[0]); isC && k >= 0 {
								fixed = true
							}
						}
					case *ast.AssignStmt:
						if len(t.Lhs) == 1 && objOf(cinfo, t.Lhs[0]) == idx {
							if k, isC := constInt(cinfo, t.Rhs[0]); isC && k >= 0 {
								fixed = true
							}
						}
					}
				}
				if !fixed {
					ok, detail = false, "after the loop `for …; index >= 0; index--` falls through, the named result index is -1 and is returned as is"
				}
			}
		}
		r.Check("C11.rune-index", "internal/chars.IndexOfLastRuneStart|non-negative", f.Decl.Pos(), ok, detail)
	}
}

// isASCIIClassValidator: a module function that takes a string, indexes it byte-wise and rejects (panics) on some
// path — i.e. it restricts the string to byte classes, which implies well-formed UTF-8 when the classes are ASCII
// (the classes themselves are compared with the CTE grammar by C03.verbatim).
func (a *analysis) isASCIIClassValidator(f *types.Func) bool {
	d := a.p.FuncDecl(f)
	if d == nil || d.Body == nil {
		return false
	}
	info := a.p.Pkgs[core.Rel(f.Pkg())].TypesInfo
	sig := f.Type().(*types.Signature)
	var sp types.Object
	for i := 0; i < sig.Params().Len(); i++ {
		if b, ok := sig.Params().At(i).Type().Underlying().(*types.Basic); ok && b.Kind() == types.String {
			sp = sig.Params().At(i)
		}
	}
	if sp == nil {
		return false
	}
	indexes, rejects, loops := false, false, false
	ast.Inspect(d.Body, func(n ast.Node) bool {
		switch x := n.(type) {
		case *ast.IndexExpr:
			if objOf(info, x.X) == sp {
				indexes = true
			}
		case *ast.ForStmt, *ast.RangeStmt:
			loops = true
		case *ast.IfStmt:
			if a.alwaysPanics(info, x.Body.List) {
				rejects = true
			}
		}
		return true
	})
	return indexes && rejects && loops
}

func checkC11StreamAlias(r *core.Run, p *core.Program) {
	f := findFn(p, "rules", "Context.StreamStringData")
	if f == nil {
		r.Undecided("C11.stream-alias", "rules.Context.StreamStringData")
		return
	}
	pkg := p.Pkg("rules")
	info := pkg.TypesInfo
	// alias groups of Context fields: F = G[a:b] anywhere in the package puts F and G in one group
	group := map[*types.Var]*types.Var{}
	var find func(v *types.Var) *types.Var
	find = func(v *types.Var) *types.Var {
		if g, ok := group[v]; ok && g != v {
			root := find(g)
			group[v] = root
			return root
		}
		return v
	}
	for _, g := range funcsOf(pkg) {
		ast.Inspect(g.Decl.Body, func(n ast.Node) bool {
			as, ok := n.(*ast.AssignStmt)
			if !ok || len(as.Lhs) != len(as.Rhs) {
				return true
			}
			for i, l := range as.Lhs {
				lf := fieldOf(info, l)
				if lf == nil {
					continue
				}
				rhs := stripParens(as.Rhs[i])
				for {
					if se, ok := rhs.(*ast.SliceExpr); ok {
						rhs = stripParens(se.X)
						continue
					}
					break
				}
				if rf := fieldOf(info, rhs); rf != nil && rf != lf {
					group[find(lf)] = find(rf)
				}
			}
			return true
		})
	}
	sig := f.Obj.Type().(*types.Signature)
	results := map[types.Object]bool{}
	for i := 0; i < sig.Results().Len(); i++ {
		results[sig.Results().At(i)] = true
	}
	viewOf := func(e ast.Expr) *types.Var {
		e = stripParens(e)
		for {
			if se, ok := e.(*ast.SliceExpr); ok {
				e = stripParens(se.X)
				continue
			}
			break
		}
		if fv := fieldOf(info, e); fv != nil {
			switch fv.Type().Underlying().(type) {
			case *types.Slice, *types.Array:
				return find(fv)
			}
		}
		return nil
	}
	n := 0
	ast.Inspect(f.Decl.Body, func(nd ast.Node) bool {
		as, ok := nd.(*ast.AssignStmt)
		if !ok || len(as.Lhs) != len(as.Rhs) {
			return true
		}
		for i, l := range as.Lhs {
			if !results[objOf(info, l)] {
				continue
			}
			g := viewOf(as.Rhs[i])
			if g == nil {
				continue // not a view of a context buffer (parameter data, a copy, nil)
			}
			n++
			// a later write into the same backing array
			var bad token.Pos
			ast.Inspect(f.Decl.Body, func(k ast.Node) bool {
				call, ok := k.(*ast.CallExpr)
				if !ok || call.Pos() <= as.End() || len(call.Args) < 1 {
					return true
				}
				id, ok := call.Fun.(*ast.Ident)
				if !ok {
					return true
				}
				if b, isB := info.Uses[id].(*types.Builtin); !isB || (b.Name() != "copy" && b.Name() != "append") {
					return true
				}
				if viewOf(call.Args[0]) == g && !bad.IsValid() {
					bad = call.Pos()
				}
				return true
			})
			r.Check("C11.stream-alias", "rules.Context.StreamStringData|"+exprStr(l)+" is not overwritten before it is used", posOr(bad, as.Pos()), !bad.IsValid(),
				"the result "+exprStr(l)+" is a view of the context buffer `"+exprStr(as.Rhs[i])+"`, and the same call later writes into that buffer: when one data event completes a split character and ends inside the next one, the completed character is overwritten before the caller validates it, so a valid string is rejected (or an invalid one accepted) depending on how the data was split")
		}
		return true
	})
	r.Count("C11.stream-alias results that are views of context buffers", n)
}
