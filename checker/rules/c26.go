package rules

import (
	"fmt"
	"go/ast"
	"go/token"
	"go/types"
	"sort"
	"strings"

	"golang.org/x/tools/go/packages"

	"verif/checker/core"
)

func init() { Registry["C26"] = checkC26 }

// byteLeaf is one `T(x[base+k]) << s` term of a byte assembly, or one `x[base+k] = byte(v >> s)` store of a disassembly.
type byteLeaf struct {
	slice string // rendered slice expression
	base  string // rendered index expression without its constant term ("0" if none)
	mult  int64  // W when base is `i*W` / `W*i`, else 0
	k     int64
	shift int64
	bits  int64  // bit size of the carrier integer type
	other string // disassembly: rendered source value
	pos   token.Pos
}

// splitIndex splits an index expression into (base, constant term, multiplier of the base).
func splitIndex(info *types.Info, e ast.Expr) (string, int64, int64) {
	e = stripParens(e)
	if c, ok := constInt(info, e); ok {
		return "0", c, 0
	}
	if b, ok := e.(*ast.BinaryExpr); ok && b.Op == token.ADD {
		if c, ok := constInt(info, b.Y); ok {
			base, k, m := splitIndex(info, b.X)
			return base, k + c, m
		}
		if c, ok := constInt(info, b.X); ok {
			base, k, m := splitIndex(info, b.Y)
			return base, k + c, m
		}
	}
	mult := int64(0)
	if b, ok := e.(*ast.BinaryExpr); ok && b.Op == token.MUL {
		if c, ok := constInt(info, b.Y); ok {
			mult = c
		} else if c, ok := constInt(info, b.X); ok {
			mult = c
		}
	}
	return exprStr(e), 0, mult
}

func intBits(sizes types.Sizes, t types.Type) int64 {
	b, ok := t.Underlying().(*types.Basic)
	if !ok || b.Info()&types.IsInteger == 0 {
		return 0
	}
	return sizes.Sizeof(t) * 8
}

// asmLeaf recognises `T(x[idx])` or `T(x[idx]) << s` (x a byte slice/array).
func asmLeaf(pkg *packages.Package, e ast.Expr) (byteLeaf, bool) {
	info := pkg.TypesInfo
	e = stripParens(e)
	shift := int64(0)
	if b, ok := e.(*ast.BinaryExpr); ok && b.Op == token.SHL {
		s, ok := constInt(info, b.Y)
		if !ok {
			return byteLeaf{}, false
		}
		shift = s
		e = stripParens(b.X)
	}
	call, ok := e.(*ast.CallExpr)
	if !ok || len(call.Args) != 1 {
		return byteLeaf{}, false
	}
	tv, ok := info.Types[call.Fun]
	if !ok || !tv.IsType() {
		return byteLeaf{}, false
	}
	bits := intBits(pkg.TypesSizes, tv.Type)
	if bits == 0 {
		return byteLeaf{}, false
	}
	ix, ok := stripParens(call.Args[0]).(*ast.IndexExpr)
	if !ok {
		return byteLeaf{}, false
	}
	if !isByteSeq(info.TypeOf(ix.X)) {
		return byteLeaf{}, false
	}
	base, k, m := splitIndex(info, ix.Index)
	return byteLeaf{slice: exprStr(ix.X), base: base, mult: m, k: k, shift: shift, bits: bits, pos: e.Pos()}, true
}

func isByteSeq(t types.Type) bool {
	if t == nil {
		return false
	}
	var el types.Type
	switch u := t.Underlying().(type) {
	case *types.Slice:
		el = u.Elem()
	case *types.Array:
		el = u.Elem()
	case *types.Pointer:
		if a, ok := u.Elem().Underlying().(*types.Array); ok {
			el = a.Elem()
		}
	}
	if el == nil {
		return false
	}
	b, ok := el.Underlying().(*types.Basic)
	return ok && b.Kind() == types.Uint8
}

// orLeaves flattens an `a | b | c` tree.
func orLeaves(e ast.Expr, out *[]ast.Expr) {
	e = stripParens(e)
	if b, ok := e.(*ast.BinaryExpr); ok && b.Op == token.OR {
		orLeaves(b.X, out)
		orLeaves(b.Y, out)
		return
	}
	*out = append(*out, e)
}

// disLeaf recognises `x[idx] = byte(v >> s)` / `byte(v)` / `uint8(...)`.
func disLeaf(pkg *packages.Package, s ast.Stmt) (byteLeaf, bool) {
	info := pkg.TypesInfo
	as, ok := s.(*ast.AssignStmt)
	if !ok || as.Tok != token.ASSIGN || len(as.Lhs) != 1 || len(as.Rhs) != 1 {
		return byteLeaf{}, false
	}
	ix, ok := stripParens(as.Lhs[0]).(*ast.IndexExpr)
	if !ok || !isByteSeq(info.TypeOf(ix.X)) {
		return byteLeaf{}, false
	}
	call, ok := stripParens(as.Rhs[0]).(*ast.CallExpr)
	if !ok || len(call.Args) != 1 {
		return byteLeaf{}, false
	}
	tv, ok := info.Types[call.Fun]
	if !ok || !tv.IsType() {
		return byteLeaf{}, false
	}
	if b, ok := tv.Type.Underlying().(*types.Basic); !ok || b.Kind() != types.Uint8 {
		return byteLeaf{}, false
	}
	arg := stripParens(call.Args[0])
	shift := int64(0)
	if b, ok := arg.(*ast.BinaryExpr); ok && b.Op == token.SHR {
		sv, ok := constInt(info, b.Y)
		if !ok {
			return byteLeaf{}, false
		}
		shift = sv
		arg = stripParens(b.X)
	}
	bits := intBits(pkg.TypesSizes, info.TypeOf(arg))
	if bits == 0 {
		return byteLeaf{}, false
	}
	if _, isConst := constInt(info, arg); isConst {
		return byteLeaf{}, false
	}
	base, k, m := splitIndex(info, ix.Index)
	return byteLeaf{slice: exprStr(ix.X), base: base, mult: m, k: k, shift: shift, bits: bits, other: exprStr(arg), pos: s.Pos()}, true
}

// judgeGroup applies the little-endian layout rule to one assembly chain / disassembly run.
// complete: the group must use the whole carrier (internal/arrays element conversions).
func judgeGroup(leaves []byteLeaf, disassembly bool) (n int64, s0 int64, problem string) {
	sort.Slice(leaves, func(i, j int) bool { return leaves[i].k < leaves[j].k })
	n = int64(len(leaves))
	kmin := leaves[0].k
	s0 = leaves[0].shift
	for i, l := range leaves {
		if l.k != kmin+int64(i) {
			return n, s0, fmt.Sprintf("byte offsets are not the consecutive run %d..%d (offset %d appears where %d is expected): a byte is used twice or skipped", kmin, kmin+n-1, l.k, kmin+int64(i))
		}
		want := s0 + 8*int64(i)
		if l.shift != want {
			return n, s0, fmt.Sprintf("byte at offset +%d is shifted by %d, little-endian order requires %d (byte k of an element carries bits 8k..8k+7)", l.k, l.shift, want)
		}
		if l.shift+8 > l.bits {
			return n, s0, fmt.Sprintf("byte at offset +%d shifted by %d does not fit the %d-bit carrier", l.k, l.shift, l.bits)
		}
	}
	if leaves[0].mult != 0 {
		if kmin != 0 {
			return n, s0, fmt.Sprintf("element bytes start at offset +%d instead of +0", kmin)
		}
		if leaves[0].mult != n {
			return n, s0, fmt.Sprintf("the element stride is %d bytes but %d bytes are used per element", leaves[0].mult, n)
		}
	}
	if s0 != 0 {
		// only the upper-half (bfloat16-in-float32) layout starts above bit 0
		if !(leaves[0].bits == 32 && n == 2 && s0 == 16) {
			return n, s0, fmt.Sprintf("the lowest byte is shifted by %d: only the 16-bit float layout (upper half of a 32-bit carrier) may start above bit 0", s0)
		}
	}
	return n, s0, ""
}

func checkC26(r *core.Run, p *core.Program) {
	r.Rule("C26.shift-offset", "every place in the library that assembles an integer from consecutive bytes of a byte slice (T(b[i+k]) << s | …) or spreads one into consecutive bytes (b[i+k] = byte(v >> s)) uses little-endian layout: offsets form a consecutive run, byte k is shifted by exactly 8k (16-bit floats: 16+8k inside a 32-bit carrier), the number of bytes equals the element stride, and in internal/arrays the bytes used fill the element type exactly and the slice length is computed with the same width (len/width for bytes->T, len*width for T->bytes). encoding/binary is only used through LittleEndian.")
	r.Rule("C26.probe", "the host-endianness probe of internal/arrays sets isLittleEndian exactly when the byte at the lowest address of uint16(1) is 1.")
	r.Rule("C26.unsafe-len", "each reinterpreting fast path of internal/arrays computes the result length as len(data)/sizeof(T) for bytes->[]T and len(data)*sizeof(T) for []T->bytes (sizes from go/types).")
	r.Rule("C26.empty", "each reinterpreting fast path takes the address of element 0 only when the slice is known to be non-empty.")
	r.Rule("C26.pairing", "each exported ce helper returns the internal/arrays function of the same name applied to its argument, and each exported internal/arrays function falls back to the byte-wise conversion of the same element type and direction.")
	r.Rule("C26.consumers", "wherever the library selects a conversion by array type (a case of a switch over events.ArrayType whose body calls arrays.BytesTo<T>Slice or arrays.<T>SliceAsBytes, directly or through the ce wrappers), the element type named by the conversion is the element type named by every array-type constant of that case (Float16 arrays are not read as Float32 ones and vice versa).")
	r.NotDecide("NaN payload handling by the hardware; behaviour of the unsafe reinterpretation under the Go memory model")
	checkC26Consumers(r, p)

	// ---- C26.shift-offset -------------------------------------------------------------------
	nAsm, nDis := 0, 0
	type arrFact struct {
		n, s0 int64
		pos   token.Pos
	}
	arrFacts := map[string][]arrFact{} // internal/arrays function -> groups
	for _, rel := range core.LibraryPackages {
		if rel == "cte/parser" {
			continue
		}
		pkg := p.Pkg(rel)
		info := pkg.TypesInfo
		for _, f := range funcsOf(pkg) {
			fname := f.Name()
			idx := 0
			// assembly chains
			seenOr := map[ast.Expr]bool{}
			ast.Inspect(f.Decl.Body, func(nd ast.Node) bool {
				b, ok := nd.(*ast.BinaryExpr)
				if !ok || b.Op != token.OR || seenOr[b] {
					return true
				}
				var raw []ast.Expr
				orLeaves(b, &raw)
				// mark the nested OR nodes as handled
				ast.Inspect(b, func(x ast.Node) bool {
					if bb, ok := x.(*ast.BinaryExpr); ok && bb.Op == token.OR {
						seenOr[bb] = true
					}
					return true
				})
				var leaves []byteLeaf
				for _, e := range raw {
					l, ok := asmLeaf(pkg, e)
					if !ok {
						return true // not a pure byte assembly: outside this rule
					}
					leaves = append(leaves, l)
				}
				if len(leaves) < 2 {
					return true
				}
				for _, l := range leaves[1:] {
					if l.slice != leaves[0].slice || l.base != leaves[0].base || l.bits != leaves[0].bits {
						return true // bytes of different sources: not an element assembly
					}
				}
				nAsm++
				idx++
				n, s0, problem := judgeGroup(leaves, false)
				key := fmt.Sprintf("%s|assemble %s[%s+..] #%d", fname, leaves[0].slice, leaves[0].base, idx)
				r.Check("C26.shift-offset", key, b.Pos(), problem == "", problem)
				if rel == "internal/arrays" {
					arrFacts[fname] = append(arrFacts[fname], arrFact{n, s0, b.Pos()})
				}
				return true
			})
			// disassembly runs
			didx := 0
			ast.Inspect(f.Decl.Body, func(nd ast.Node) bool {
				var list []ast.Stmt
				switch b := nd.(type) {
				case *ast.BlockStmt:
					list = b.List
				case *ast.CaseClause:
					list = b.Body
				default:
					return true
				}
				var run []byteLeaf
				flush := func() {
					if len(run) >= 2 {
						nDis++
						didx++
						n, s0, problem := judgeGroup(run, true)
						key := fmt.Sprintf("%s|spread %s into %s[%s+..] #%d", fname, run[0].other, run[0].slice, run[0].base, didx)
						r.Check("C26.shift-offset", key, run[0].pos, problem == "", problem)
						if rel == "internal/arrays" {
							arrFacts[fname] = append(arrFacts[fname], arrFact{n, s0, run[0].pos})
						}
					}
					run = nil
				}
				for _, s := range list {
					l, ok := disLeaf(pkg, s)
					if ok && (len(run) == 0 || (l.slice == run[0].slice && l.base == run[0].base && l.other == run[0].other)) {
						run = append(run, l)
						continue
					}
					flush()
					if ok {
						run = append(run, l)
					}
				}
				flush()
				return true
			})
			_ = info
		}
	}
	r.Floor("C26.shift-offset", "byte assembly chains", nAsm, 40)
	r.Floor("C26.shift-offset", "byte disassembly runs", nDis, 18)

	// encoding/binary: LittleEndian only
	nBin := 0
	for _, rel := range core.LibraryPackages {
		pkg := p.Pkg(rel)
		for id, obj := range pkg.TypesInfo.Uses {
			if obj.Pkg() != nil && obj.Pkg().Path() == "encoding/binary" {
				nBin++
				if obj.Name() == "BigEndian" {
					r.Fail("C26.shift-offset", rel+"|encoding/binary.BigEndian used", id.Pos(), "typed array bytes are little-endian; binary.BigEndian is used")
				}
			}
		}
	}
	r.Count("C26.shift-offset uses of encoding/binary", nBin)

	// internal/arrays: element width of every byte-wise conversion == element type; length arithmetic uses the same width
	arr := p.Pkg("internal/arrays")
	nConv := 0
	for _, f := range funcsOf(arr) {
		facts := arrFacts[f.Name()]
		if len(facts) == 0 {
			continue
		}
		sig := f.Obj.Type().(*types.Signature)
		if sig.Params().Len() != 1 || sig.Results().Len() != 1 {
			continue
		}
		pt, rt := sig.Params().At(0).Type(), sig.Results().At(0).Type()
		var elem types.Type
		toBytes := false
		if isByteSlice(pt) && !isByteSlice(rt) {
			if sl, ok := rt.Underlying().(*types.Slice); ok {
				elem = sl.Elem()
			}
		} else if isByteSlice(rt) && !isByteSlice(pt) {
			toBytes = true
			if sl, ok := pt.Underlying().(*types.Slice); ok {
				elem = sl.Elem()
			}
		}
		if elem == nil {
			continue
		}
		nConv++
		esz := arr.TypesSizes.Sizeof(elem)
		fa := facts[0]
		ok := 8*fa.n+fa.s0 == 8*esz
		r.Check("C26.shift-offset", f.Name()+"|bytes per element fill the element type", fa.pos, ok,
			fmt.Sprintf("%d bytes starting at bit %d are converted per element, but the element type %s has %d bits", fa.n, fa.s0, elem, 8*esz))
		// length arithmetic
		info := arr.TypesInfo
		param := sig.Params().At(0)
		found := false
		ast.Inspect(f.Decl.Body, func(nd ast.Node) bool {
			b, ok := nd.(*ast.BinaryExpr)
			if !ok || (b.Op != token.MUL && b.Op != token.QUO) {
				return true
			}
			if !isLenOf(info, b.X, param) {
				return true
			}
			c, ok := constInt(info, b.Y)
			if !ok {
				return true
			}
			found = true
			wantOp := token.QUO
			if toBytes {
				wantOp = token.MUL
			}
			good := b.Op == wantOp && c == fa.n
			r.Check("C26.shift-offset", f.Name()+"|length arithmetic", b.Pos(), good,
				fmt.Sprintf("the result length is computed as %s; with %d bytes per element it must be len(%s) %s %d", exprStr(b), fa.n, param.Name(), wantOp, fa.n))
			return true
		})
		if !found && fa.n != 1 {
			r.Fail("C26.shift-offset", f.Name()+"|length arithmetic", f.Decl.Pos(), "no len(data)*width / len(data)/width expression found: the result length cannot be related to the element width")
		}
	}
	r.Floor("C26.shift-offset", "byte-wise element conversions in internal/arrays", nConv, 12)

	// ---- C26.total: every byte-wise conversion treats every element, unconditionally ------------------
	r.Rule("C26.total", "each byte-wise conversion of internal/arrays is a single loop over all elements whose body is straight-line (no branch, continue, break or return can skip or alter an element), it is recognised as a little-endian layout, and each exported wrapper contains nothing but the optional fast path, an optional early return for inputs shorter than one element, and the final byte-wise fallback.")
	nTotal := 0
	for _, f := range funcsOf(arr) {
		if recvNamed(f.Obj) != nil || f.Obj.Exported() {
			continue
		}
		sig := f.Obj.Type().(*types.Signature)
		if sig.Params().Len() != 1 || sig.Results().Len() != 1 {
			continue
		}
		pt, rt := sig.Params().At(0).Type(), sig.Results().At(0).Type()
		var elem types.Type
		if isByteSlice(pt) && !isByteSlice(rt) {
			if sl, ok := rt.Underlying().(*types.Slice); ok {
				elem = sl.Elem()
			}
		} else if isByteSlice(rt) && !isByteSlice(pt) {
			if sl, ok := pt.Underlying().(*types.Slice); ok {
				elem = sl.Elem()
			}
		}
		if elem == nil {
			continue
		}
		if b, ok := elem.Underlying().(*types.Basic); !ok || b.Info()&types.IsNumeric == 0 {
			continue // UID helpers ([][]byte) are not typed-slice helpers
		}
		nTotal++
		var loops []ast.Stmt
		bad := ""
		usesHelper := false
		for _, st := range f.Decl.Body.List {
			switch x := st.(type) {
			case *ast.ForStmt, *ast.RangeStmt:
				loops = append(loops, st)
			case *ast.AssignStmt, *ast.ReturnStmt, *ast.DeclStmt:
			default:
				bad = fmt.Sprintf("statement %T outside the element loop (line %s)", x, p.Pos(st.Pos()))
			}
		}
		if len(loops) != 1 && bad == "" {
			bad = fmt.Sprintf("%d element loops found, exactly one expected", len(loops))
		}
		if bad == "" {
			var body *ast.BlockStmt
			switch l := loops[0].(type) {
			case *ast.ForStmt:
				body = l.Body
			case *ast.RangeStmt:
				body = l.Body
			}
			for _, st := range body.List {
				switch x := st.(type) {
				case *ast.AssignStmt, *ast.DeclStmt, *ast.IncDecStmt:
				case *ast.ExprStmt:
					// an unconditional call of an unexported helper of the package (the per-element byte layout extracted)
					if call, ok := x.X.(*ast.CallExpr); ok {
						if cal := callee(arr.TypesInfo, call); cal != nil && !cal.Exported() && cal.Pkg() == arr.Types {
							usesHelper = true
							continue
						}
					}
					bad = fmt.Sprintf("the element loop contains a %T at %s: an element can be skipped or handled differently depending on its value", st, p.Pos(st.Pos()))
				default:
					bad = fmt.Sprintf("the element loop contains a %T at %s: an element can be skipped or handled differently depending on its value", st, p.Pos(st.Pos()))
				}
			}
		}
		r.Check("C26.total", f.Name()+"|one straight-line loop over all elements", f.Decl.Pos(), bad == "", bad)
		if arr.TypesSizes.Sizeof(elem) > 1 {
			r.Check("C26.total", f.Name()+"|recognised little-endian element layout", f.Decl.Pos(), len(arrFacts[f.Name()]) == 1 || (usesHelper && len(arrFacts[f.Name()]) == 0),
				fmt.Sprintf("%d byte assembly/spreading groups recognised in the function, exactly one expected: the conversion is not written as one little-endian element layout and cannot be judged", len(arrFacts[f.Name()])))
		}
	}
	r.Floor("C26.total", "byte-wise conversions", nTotal, 20)
	var leVar0 types.Object = arr.Types.Scope().Lookup("isLittleEndian")
	nWrap := 0
	for _, pk := range []*packages.Package{arr, p.Pkg("ce")} {
		for _, f := range funcsOf(pk) {
			if recvNamed(f.Obj) != nil || !f.Obj.Exported() {
				continue
			}
			name := f.Obj.Name()
			if !(strings.HasPrefix(name, "BytesTo") && strings.HasSuffix(name, "Slice")) && !strings.HasSuffix(name, "SliceAsBytes") {
				continue
			}
			if strings.Contains(name, "UUID") {
				continue
			}
			sig := f.Obj.Type().(*types.Signature)
			if sig.Params().Len() != 1 {
				continue
			}
			param := sig.Params().At(0)
			width := int64(1)
			for _, t := range []types.Type{param.Type(), sig.Results().At(0).Type()} {
				if sl, ok := t.Underlying().(*types.Slice); ok && !isByteSlice(t) {
					width = pk.TypesSizes.Sizeof(sl.Elem())
				}
			}
			if strings.Contains(name, "Float16") {
				width = 2
			}
			nWrap++
			bad := ""
			list := f.Decl.Body.List
			for i, st := range list {
				if i == len(list)-1 {
					if _, ok := st.(*ast.ReturnStmt); !ok {
						bad = "the wrapper does not end in a return"
					}
					continue
				}
				ifs, ok := st.(*ast.IfStmt)
				if !ok {
					bad = fmt.Sprintf("unexpected %T in a conversion wrapper", st)
					continue
				}
				if leVar0 != nil && mentionsObj(pk.TypesInfo, ifs.Cond, leVar0) {
					continue // fast path (judged by C26.unsafe-len / C26.empty)
				}
				// early return: only for inputs shorter than one element
				okShort := false
				if b, isB := stripParens(ifs.Cond).(*ast.BinaryExpr); isB && isLenOf(pk.TypesInfo, b.X, param) {
					if c, okc := constInt(pk.TypesInfo, b.Y); okc {
						switch b.Op {
						case token.LSS:
							okShort = c <= width
						case token.LEQ:
							okShort = c < width
						case token.EQL:
							okShort = c == 0
						}
					}
				}
				if !okShort {
					bad = fmt.Sprintf("early exit under `%s`: with %d-byte elements only inputs shorter than %d bytes convert to nothing; this exit also catches inputs that hold whole elements", exprStr(ifs.Cond), width, width)
				}
			}
			r.Check("C26.total", core.Rel(pk.Types)+"."+name+"|wrapper has only fast path, short-input exit and fallback", f.Decl.Pos(), bad == "", bad)
		}
	}
	r.Floor("C26.total", "exported conversion wrappers", nWrap, 38)

	// ---- C26.pairing ---------------------------------------------------------------------------
	nPair := 0
	cePkg := p.Pkg("ce")
	for _, f := range funcsOf(cePkg) {
		if recvNamed(f.Obj) != nil || !f.Obj.Exported() {
			continue
		}
		name := f.Obj.Name()
		if !(strings.HasPrefix(name, "BytesTo") && strings.HasSuffix(name, "Slice")) && !strings.HasSuffix(name, "SliceAsBytes") {
			continue
		}
		nPair++
		ok, why := delegatesTo(cePkg.TypesInfo, f, func(c *types.Func) bool { return isFunc(c, "internal/arrays", name) })
		r.Check("C26.pairing", "ce."+name+"|delegates to arrays."+name, f.Decl.Pos(), ok, why)
	}
	r.Floor("C26.pairing", "ce array helpers", nPair, 18)
	nFall := 0
	for _, f := range funcsOf(arr) {
		if recvNamed(f.Obj) != nil || !f.Obj.Exported() {
			continue
		}
		name := f.Obj.Name()
		var want string
		switch {
		case strings.HasPrefix(name, "BytesTo") && strings.HasSuffix(name, "Slice"):
			want = "b" + name[1:]
		case strings.HasSuffix(name, "SliceAsBytes"):
			want = strings.ToLower(name[:1]) + strings.TrimSuffix(name[1:], "SliceAsBytes") + "SliceToBytes"
		default:
			continue
		}
		if name == "Uint8SliceAsBytes" || strings.Contains(name, "UUID") {
			continue // identity conversion; UID helpers are not part of the public typed-slice helpers
		}
		nFall++
		// the last return of the function must be the byte-wise sibling applied to the parameter
		ok, why := fallbackDelegates(p, arr.TypesInfo, f, leVar0, func(c *types.Func) bool { return isFunc(c, "internal/arrays", want) })
		r.Check("C26.pairing", "arrays."+name+"|falls back to "+want, f.Decl.Pos(), ok, why)
	}
	r.Floor("C26.pairing", "internal/arrays exported conversions", nFall, 20)

	// ---- fast paths (absent under -tags purego) ---------------------------------------------
	var leVar *types.Var
	if o, ok := arr.Types.Scope().Lookup("isLittleEndian").(*types.Var); ok {
		leVar = o
	}
	if leVar == nil {
		// purego build (or the fast paths were removed): nothing reinterprets memory
		hasUnsafe := false
		for _, imp := range arr.Types.Imports() {
			if imp.Path() == "unsafe" {
				hasUnsafe = true
			}
		}
		r.Check("C26.probe", "internal/arrays|no probe => no unsafe reinterpretation", token.NoPos, !hasUnsafe, "package imports unsafe but has no isLittleEndian probe: a reinterpreting path would be unconditional")
		return
	}
	probeState := c26Probe(r, p, arr, leVar)
	live := "dead on little-endian hosts (probe inverted), live on big-endian hosts"
	if probeState == "correct" {
		live = "live on little-endian hosts"
	}
	nFast := 0
	for _, f := range funcsOf(arr) {
		info := arr.TypesInfo
		sig := f.Obj.Type().(*types.Signature)
		ast.Inspect(f.Decl.Body, func(nd ast.Node) bool {
			ifs, ok := nd.(*ast.IfStmt)
			if !ok || !mentionsObj(info, ifs.Cond, leVar) {
				return true
			}
			if sig.Params().Len() != 1 {
				return true
			}
			param := sig.Params().At(0)
			nFast++
			guardNonEmpty := condImpliesNonEmpty(info, ifs.Cond, param) || earlierEmptyReturn(info, f.Decl.Body, ifs, param)
			for _, st := range ifs.Body.List {
				ret, ok := st.(*ast.ReturnStmt)
				if !ok || len(ret.Results) != 1 {
					continue
				}
				c26FastPath(r, arr, f, param, ret.Results[0], guardNonEmpty, live)
			}
			return true
		})
	}
	r.Floor("C26.unsafe-len", "reinterpreting fast paths", nFast, 18)
}

func isLenOf(info *types.Info, e ast.Expr, v *types.Var) bool {
	call, ok := stripParens(e).(*ast.CallExpr)
	if !ok || len(call.Args) != 1 {
		return false
	}
	id, ok := call.Fun.(*ast.Ident)
	if !ok {
		return false
	}
	if b, ok := info.Uses[id].(*types.Builtin); !ok || b.Name() != "len" {
		return false
	}
	return objOf(info, call.Args[0]) == v
}

// delegatesTo: the function body is `return callee(param)`.
func delegatesTo(info *types.Info, f *fn, pred func(*types.Func) bool) (bool, string) {
	if len(f.Decl.Body.List) != 1 {
		return false, "body is not a single return of the internal helper"
	}
	return lastReturnDelegates(info, f, pred)
}

func lastReturnDelegates(info *types.Info, f *fn, pred func(*types.Func) bool) (bool, string) {
	if len(f.Decl.Body.List) == 0 {
		return false, "empty body"
	}
	ret, ok := f.Decl.Body.List[len(f.Decl.Body.List)-1].(*ast.ReturnStmt)
	if !ok || len(ret.Results) != 1 {
		return false, "the function does not end in a single-value return"
	}
	call, ok := stripParens(ret.Results[0]).(*ast.CallExpr)
	if !ok || len(call.Args) != 1 {
		return false, "the final return is not a call of the sibling conversion: " + exprStr(ret.Results[0])
	}
	c := callee(info, call)
	if c == nil || !pred(c) {
		return false, "the final return calls " + exprStr(call.Fun) + ", not the conversion of the same name/element type"
	}
	sig := f.Obj.Type().(*types.Signature)
	if sig.Params().Len() != 1 || objOf(info, call.Args[0]) != sig.Params().At(0) {
		return false, "the sibling conversion is not applied to the function's own argument"
	}
	return true, ""
}

// condImpliesNonEmpty: cond is a conjunction containing len(param) > 0 / != 0 / >= 1.
func condImpliesNonEmpty(info *types.Info, cond ast.Expr, param *types.Var) bool {
	cond = stripParens(cond)
	if b, ok := cond.(*ast.BinaryExpr); ok {
		if b.Op == token.LAND {
			return condImpliesNonEmpty(info, b.X, param) || condImpliesNonEmpty(info, b.Y, param)
		}
		if isLenOf(info, b.X, param) {
			c, ok := constInt(info, b.Y)
			if ok && ((b.Op == token.GTR && c >= 0) || (b.Op == token.NEQ && c == 0) || (b.Op == token.GEQ && c >= 1)) {
				return true
			}
		}
		if isLenOf(info, b.Y, param) {
			c, ok := constInt(info, b.X)
			if ok && ((b.Op == token.LSS && c >= 0) || (b.Op == token.NEQ && c == 0) || (b.Op == token.LEQ && c >= 1)) {
				return true
			}
		}
	}
	return false
}

// earlierEmptyReturn: a top-level `if len(param) == 0 { return … }` precedes the statement.
func earlierEmptyReturn(info *types.Info, body *ast.BlockStmt, before ast.Stmt, param *types.Var) bool {
	for _, s := range body.List {
		if s == before {
			return false
		}
		ifs, ok := s.(*ast.IfStmt)
		if !ok || len(ifs.Body.List) == 0 {
			continue
		}
		if _, isRet := ifs.Body.List[len(ifs.Body.List)-1].(*ast.ReturnStmt); !isRet {
			continue
		}
		if b, ok := stripParens(ifs.Cond).(*ast.BinaryExpr); ok && isLenOf(info, b.X, param) {
			c, ok := constInt(info, b.Y)
			if ok && ((b.Op == token.EQL && c == 0) || (b.Op == token.LSS && c == 1) || (b.Op == token.LEQ && c == 0)) {
				return true
			}
		}
	}
	return false
}

// c26Probe judges the init() probe. Returns "correct", "inverted" or "unknown".
func c26Probe(r *core.Run, p *core.Program, arr *packages.Package, leVar *types.Var) string {
	info := arr.TypesInfo
	state := "unknown"
	var pos token.Pos
	detail := "no assignment `isLittleEndian = true` under a test of one byte of uint16(1) found"
	for _, f := range funcsOf(arr) {
		// init functions and any other writer of the variable
		ast.Inspect(f.Decl.Body, func(nd ast.Node) bool {
			ifs, ok := nd.(*ast.IfStmt)
			if !ok {
				return true
			}
			assigns := false
			for _, s := range ifs.Body.List {
				if as, ok := s.(*ast.AssignStmt); ok && len(as.Lhs) == 1 && objOf(info, as.Lhs[0]) == leVar {
					if v := constVal(info, as.Rhs[0]); v != nil && v.String() == "true" {
						assigns = true
					}
				}
			}
			if !assigns {
				return true
			}
			pos = ifs.Pos()
			b, ok := stripParens(ifs.Cond).(*ast.BinaryExpr)
			if !ok || b.Op != token.EQL {
				detail = "unrecognised probe condition " + exprStr(ifs.Cond)
				return true
			}
			ix, ok := stripParens(b.X).(*ast.IndexExpr)
			c, okc := constInt(info, b.Y)
			if !ok || !okc {
				detail = "unrecognised probe condition " + exprStr(ifs.Cond)
				return true
			}
			k, okk := constInt(info, ix.Index)
			if !okk {
				detail = "unrecognised probe index"
				return true
			}
			// the probed value must be uint16(1) viewed as bytes
			if !probesUint16One(info, f.Decl.Body, ix.X) {
				detail = "the probed bytes are not a view of a uint16 variable holding 1"
				return true
			}
			switch {
			case (k == 0 && c == 1) || (k == 1 && c == 0):
				state = "correct"
			case (k == 1 && c == 1) || (k == 0 && c == 0):
				state = "inverted"
				detail = fmt.Sprintf("the probe sets isLittleEndian when byte[%d] of uint16(1) == %d, i.e. exactly on BIG-endian hosts: on little-endian hosts the fast paths are dead code, on big-endian hosts they reinterpret big-endian memory as little-endian element bytes", k, c)
			}
			return true
		})
	}
	r.Check("C26.probe", "internal/arrays.init|isLittleEndian <=> lowest-address byte of uint16(1) is 1", pos, state == "correct", detail)
	return state
}

// probesUint16One: x is a local assigned from a byte view of &v where v := uint16(1).
func probesUint16One(info *types.Info, body *ast.BlockStmt, x ast.Expr) bool {
	obj := objOf(info, x)
	if obj == nil {
		return false
	}
	ok := false
	ast.Inspect(body, func(n ast.Node) bool {
		as, isAs := n.(*ast.AssignStmt)
		if !isAs || len(as.Lhs) != 1 || len(as.Rhs) != 1 || objOf(info, as.Lhs[0]) != obj {
			return true
		}
		// find &v inside the right-hand side
		ast.Inspect(as.Rhs[0], func(m ast.Node) bool {
			u, isU := m.(*ast.UnaryExpr)
			if !isU || u.Op != token.AND {
				return true
			}
			v := objOf(info, u.X)
			if v == nil {
				return true
			}
			if b, isB := v.Type().Underlying().(*types.Basic); !isB || b.Kind() != types.Uint16 {
				return true
			}
			// v's initialiser is the constant 1
			ast.Inspect(body, func(q ast.Node) bool {
				as2, isAs2 := q.(*ast.AssignStmt)
				if isAs2 && len(as2.Lhs) == 1 && len(as2.Rhs) == 1 && objOf(info, as2.Lhs[0]) == v {
					if c, okc := constInt(info, as2.Rhs[0]); okc && c == 1 {
						ok = true
					}
				}
				return true
			})
			return true
		})
		return true
	})
	return ok
}

// c26FastPath judges one `return <reinterpretation>` of a fast path.
func c26FastPath(r *core.Run, arr *packages.Package, f *fn, param *types.Var, res ast.Expr, guardNonEmpty bool, live string) {
	info := arr.TypesInfo
	sizes := arr.TypesSizes
	name := f.Name()
	res = stripParens(res)
	var lenExpr ast.Expr
	var wantOp token.Token
	var width int64
	takesAddr := false
	switch x := res.(type) {
	case *ast.CallExpr:
		// asBytes(unsafe.Pointer(&data[0]), LEN)
		c := callee(info, x)
		if c == nil || !isFunc(c, "internal/arrays", "asBytes") || len(x.Args) != 2 {
			return
		}
		sl, ok := param.Type().Underlying().(*types.Slice)
		if !ok {
			return
		}
		width = sizes.Sizeof(sl.Elem())
		wantOp = token.MUL
		lenExpr = x.Args[1]
		takesAddr = true
	case *ast.SliceExpr:
		// (*[N]T)(clonedBytesPtr(data))[:LEN]
		conv, ok := stripParens(x.X).(*ast.CallExpr)
		if !ok || x.High == nil {
			return
		}
		tv, ok := info.Types[conv.Fun]
		if !ok || !tv.IsType() {
			return
		}
		pt, ok := tv.Type.Underlying().(*types.Pointer)
		if !ok {
			return
		}
		at, ok := pt.Elem().Underlying().(*types.Array)
		if !ok {
			return
		}
		width = sizes.Sizeof(at.Elem())
		wantOp = token.QUO
		lenExpr = x.High
		takesAddr = true // clonedBytesPtr takes &dst[0] of a copy of the same length
	default:
		return
	}
	// length
	good := false
	le := stripParens(lenExpr)
	if width == 1 {
		good = isLenOf(info, le, param)
	}
	if b, ok := le.(*ast.BinaryExpr); ok && isLenOf(info, b.X, param) {
		if c, okc := constInt(info, b.Y); okc {
			good = (b.Op == wantOp && c == width) || (width == 1 && c == 1)
		}
	}
	opname := "/"
	if wantOp == token.MUL {
		opname = "*"
	}
	r.Check("C26.unsafe-len", name+"|fast-path length|"+live, res.Pos(), good,
		fmt.Sprintf("the reinterpreted slice is given length %s; with %d-byte elements it must be len(%s)%s%d (as written it covers memory beyond the allocation)", exprStr(lenExpr), width, param.Name(), opname, width))
	if takesAddr {
		r.Check("C26.empty", name+"|element 0 addressed only when non-empty|"+live, res.Pos(), guardNonEmpty,
			"the fast path takes the address of element 0 (directly or in clonedBytesPtr) without a len > 0 guard: an empty slice panics with index out of range")
	}
}

// checkC26Consumers: name agreement between array-type constants and the conversion chosen for them.
func checkC26Consumers(r *core.Run, p *core.Program) {
	elemOfConv := func(cal *types.Func) (string, bool) {
		if cal == nil || cal.Pkg() == nil {
			return "", false
		}
		path := cal.Pkg().Path()
		if path != core.ModulePath+"/internal/arrays" && path != core.ModulePath+"/ce" {
			return "", false
		}
		n := cal.Name()
		switch {
		case strings.HasPrefix(n, "BytesTo") && strings.HasSuffix(n, "Slice"):
			return strings.TrimSuffix(strings.TrimPrefix(n, "BytesTo"), "Slice"), true
		case strings.HasSuffix(n, "SliceAsBytes"):
			return strings.TrimSuffix(n, "SliceAsBytes"), true
		}
		return "", false
	}
	elemOfConst := func(c *types.Const) string {
		n := strings.TrimPrefix(c.Name(), "ArrayType")
		if n == "UID" {
			return "UUID"
		}
		return n
	}
	sites := 0
	for _, rel := range core.LibraryPackages {
		if rel == "cte/parser" {
			continue
		}
		pkg := p.Pkg(rel)
		info := pkg.TypesInfo
		for _, f := range funcsOf(pkg) {
			ast.Inspect(f.Decl.Body, func(nd ast.Node) bool {
				sw, ok := nd.(*ast.SwitchStmt)
				if !ok || sw.Tag == nil {
					return true
				}
				if nt := namedOf(info.TypeOf(sw.Tag)); nt == nil || nt.Obj().Name() != "ArrayType" {
					return true
				}
				for _, c := range sw.Body.List {
					cc := c.(*ast.CaseClause)
					var consts []*types.Const
					for _, e := range cc.List {
						if k, ok := objOf(info, e).(*types.Const); ok {
							consts = append(consts, k)
						}
					}
					for _, st := range cc.Body {
						inspectCalls(info, st, func(call *ast.CallExpr, cal *types.Func) {
							el, ok := elemOfConv(cal)
							if !ok {
								return
							}
							sites++
							for _, k := range consts {
								r.Check("C26.consumers", f.Name()+"|"+k.Name(), call.Pos(), strings.EqualFold(elemOfConst(k), el),
									"arrays of type "+k.Name()+" are converted with "+cal.Name()+": the elements are read with the wrong width or format")
							}
						})
					}
				}
				return true
			})
		}
	}
	r.Floor("C26.consumers", "array-type cases choosing a conversion", sites, 8)
}

// fallbackDelegates: every return of f that can be reached when the host is not little-endian (decided from the
// conditions on its path: `if isLittleEndian {fast}; slow`, `if !isLittleEndian {slow}; fast`, if/else) is a call of
// the byte-wise sibling conversion applied to f's own argument; there is at least one. Returns under a test of
// the argument's length (short-input exits) are C26.total's concern.
func fallbackDelegates(p *core.Program, info *types.Info, f *fn, leVar types.Object, pred func(*types.Func) bool) (bool, string) {
	a := newAnalysis(p)
	sig := f.Obj.Type().(*types.Signature)
	if sig.Params().Len() != 1 {
		return false, "the conversion does not take exactly one argument"
	}
	param := sig.Params().At(0)
	isLE := func(e ast.Expr) bool { return leVar != nil && objOf(info, e) == leVar }
	n := 0
	why := ""
	ast.Inspect(f.Decl.Body, func(nd ast.Node) bool {
		if _, isLit := nd.(*ast.FuncLit); isLit {
			return false
		}
		ret, ok := nd.(*ast.ReturnStmt)
		if !ok {
			return true
		}
		conds, pols := pathConds(a, info, f, ret)
		if leVar != nil && impliesAtomValue(info, f, conds, pols, isLE, true) {
			return true // only reached on little-endian hosts: the fast path
		}
		lenGuarded := false
		for _, c := range conds {
			ast.Inspect(c, func(k ast.Node) bool {
				if e, ok := k.(ast.Expr); ok && isLenOf(info, e, param) {
					lenGuarded = true
				}
				return true
			})
		}
		if lenGuarded {
			return true
		}
		if len(ret.Results) != 1 {
			why = "a return reached on big-endian hosts is not a single value"
			return true
		}
		call, ok := stripParens(ret.Results[0]).(*ast.CallExpr)
		if !ok || len(call.Args) != 1 {
			why = "the return reached when the host is not little-endian is not a call of the sibling conversion: " + exprStr(ret.Results[0])
			return true
		}
		c := callee(info, call)
		if c == nil || !pred(c) {
			why = "the return reached when the host is not little-endian calls " + exprStr(call.Fun) + ", not the conversion of the same name/element type"
			return true
		}
		if objOf(info, call.Args[0]) != param {
			why = "the sibling conversion is not applied to the function's own argument"
			return true
		}
		n++
		return true
	})
	if why != "" {
		return false, why
	}
	if n == 0 {
		return false, "no return delegates to the byte-wise sibling conversion"
	}
	return true, ""
}
