package rules

import (
	"fmt"
	"go/ast"
	"go/constant"
	"go/token"
	"go/types"
	"sort"
	"strings"

	"verif/checker/core"
)

func init() { Registry["C03"] = checkC03 }

// byteClass evaluates a `func(ch byte) bool` of the module for all 256 byte values. The body must be a single
// `return <expr>` over comparisons of the parameter with constants, && || !, strings.IndexByte(const, ch) >= 0
// and calls of other such predicates.
func byteClass(p *core.Program, f *types.Func, depth int) (set [256]bool, ok bool) {
	d := p.FuncDecl(f)
	if d == nil || d.Body == nil || len(d.Body.List) != 1 || depth > 4 {
		return set, false
	}
	ret, isRet := d.Body.List[0].(*ast.ReturnStmt)
	sig := f.Type().(*types.Signature)
	if !isRet || len(ret.Results) != 1 || sig.Params().Len() != 1 {
		return set, false
	}
	pkg := p.Pkgs[core.Rel(f.Pkg())]
	if pkg == nil {
		return set, false
	}
	info := pkg.TypesInfo
	param := sig.Params().At(0)
	var evalB func(e ast.Expr, ch int) (bool, bool)
	evalI := func(e ast.Expr, ch int) (int64, bool) {
		e = stripConv(info, e)
		if c, okc := constInt(info, e); okc {
			return c, true
		}
		if objOf(info, e) == param {
			return int64(ch), true
		}
		if call, isCall := e.(*ast.CallExpr); isCall {
			c := callee(info, call)
			if c != nil && isFunc(c, "strings", "IndexByte") && len(call.Args) == 2 {
				sv := constVal(info, call.Args[0])
				if sv != nil && sv.Kind() == constant.String && objOf(info, stripConv(info, call.Args[1])) == param {
					return int64(strings.IndexByte(constant.StringVal(sv), byte(ch))), true
				}
			}
		}
		return 0, false
	}
	evalB = func(e ast.Expr, ch int) (bool, bool) {
		e = stripParens(e)
		switch x := e.(type) {
		case *ast.UnaryExpr:
			if x.Op == token.NOT {
				v, okv := evalB(x.X, ch)
				return !v, okv
			}
		case *ast.BinaryExpr:
			switch x.Op {
			case token.LAND, token.LOR:
				l, okl := evalB(x.X, ch)
				r, okr := evalB(x.Y, ch)
				if !okl || !okr {
					return false, false
				}
				if x.Op == token.LAND {
					return l && r, true
				}
				return l || r, true
			case token.EQL, token.NEQ, token.LSS, token.LEQ, token.GTR, token.GEQ:
				l, okl := evalI(x.X, ch)
				r, okr := evalI(x.Y, ch)
				if !okl || !okr {
					return false, false
				}
				switch x.Op {
				case token.EQL:
					return l == r, true
				case token.NEQ:
					return l != r, true
				case token.LSS:
					return l < r, true
				case token.LEQ:
					return l <= r, true
				case token.GTR:
					return l > r, true
				default:
					return l >= r, true
				}
			}
		case *ast.CallExpr:
			c := callee(info, x)
			if c != nil && core.InModule(c) && len(x.Args) == 1 && objOf(info, stripConv(info, x.Args[0])) == param {
				sub, oks := byteClass(p, c, depth+1)
				return sub[ch], oks
			}
		}
		return false, false
	}
	for ch := 0; ch < 256; ch++ {
		v, okv := evalB(ret.Results[0], ch)
		if !okv {
			return set, false
		}
		set[ch] = v
	}
	return set, true
}

func classString(set [256]bool) string {
	var sb strings.Builder
	for ch := 0; ch < 256; ch++ {
		if set[ch] {
			if ch > 0x20 && ch < 0x7f {
				sb.WriteByte(byte(ch))
			} else {
				fmt.Fprintf(&sb, "\\x%02x", ch)
			}
		}
	}
	return sb.String()
}

func checkC03(r *core.Run, p *core.Program) {
	r.Rule("C03.verbatim", "every text field the CTE encoder writes without escaping (identifiers of markers, references, record types and records; media types; area/location time zones) is validated by the validator before the event is forwarded, and the set of bytes the validator accepts at each position (computed exactly for all 256 byte values from the validator's character-class predicates / the identifier bit table) is contained in the character class the CTE lexer admits at that position. Otherwise a CBE document the validator accepts converts to CTE that cannot be read back.")
	r.Rule("C03.custom-text", "the CBE encoder rejects custom text in both delivery forms (whole and chunked) - the one kind of data CBE cannot carry - and no other event method of the CBE encoder rejects unconditionally.")
	// the table agreements conversion rests on are shared from C01/C02/C22/C23/C24/C25 (see shared.go)
	_ = func() {}
	//r.Rule("C03.tables", "the table agreements that conversion in either direction rests on: CBE writer/reader code and width tables (C01.codes, C01.widths, C01.array-tables, C01.chunk-header), and the CTE fixed-writer tokens and escapes (C02.tokens, C02.escapes), the exact round-trip guards of float narrowing (C22.float-order) and the element separators / carry-over of the CTE array writers (C23.separator, C23.partial-element).")
	r.NotDecide("data equality through a conversion; non-ASCII identifier characters (the generated identifier table and the lexer's Unicode classes are compared on ASCII only: Unicode-version skew would make a wider comparison unsound); third-party time validation")

	g, err := LoadLexerGrammar(p.RepoDir)
	if err != nil {
		r.BrokenF("lexer grammar: %v", err)
		return
	}
	rules := p.Pkg("rules")
	info := rules.TypesInfo

	// ---- validators called before forwarding ------------------------------------------------------------
	type need struct {
		event, validator string
		argName          string
	}
	needs := []need{
		{"OnMarker", "ValidateIdentifier", ""}, {"OnReferenceLocal", "ValidateIdentifier", ""}, {"OnRecordType", "ValidateIdentifier", ""}, {"OnRecord", "ValidateIdentifier", ""},
		{"OnMedia", "ValidateMediaType", ""}, {"OnMediaBegin", "ValidateMediaType", ""}, {"OnTime", "ValidateTime", ""},
	}
	for _, nd := range needs {
		f := findFn(p, "rules", "RulesEventReceiver."+nd.event)
		if f == nil {
			r.Undecided("C03.verbatim", "rules.RulesEventReceiver."+nd.event)
			continue
		}
		var vpos, fpos token.Pos
		argIsParam := false
		inspectCalls(info, f.Decl.Body, func(call *ast.CallExpr, c *types.Func) {
			if c == nil {
				return
			}
			if isMethodOf(c, "rules", "Context", nd.validator) && vpos == token.NoPos {
				vpos = call.Pos()
				if len(call.Args) == 1 {
					if o := objOf(info, call.Args[0]); o != nil && paramIndex(f.Obj, o) >= 0 {
						argIsParam = true
					}
				}
			}
			if sel, ok := call.Fun.(*ast.SelectorExpr); ok && c.Name() == nd.event {
				if fv := fieldOf(info, sel.X); fv != nil && fv.Name() == "receiver" {
					fpos = call.Pos()
				}
			}
		})
		ok := vpos != token.NoPos && fpos != token.NoPos && vpos < fpos && argIsParam
		r.Check("C03.verbatim", "(*rules.RulesEventReceiver)."+nd.event+"|"+nd.validator+" before forwarding", f.Decl.Pos(), ok,
			fmt.Sprintf("%s must call Context.%s on its own argument before it forwards the event (the CTE encoder writes that text verbatim)", nd.event, nd.validator))
	}

	// ---- class inclusion: media type and area/location ----------------------------------------------------
	type classSpec struct {
		validator   string
		first, next string // lexer fragments
		extra       string // bytes the validator handles structurally (separator) and that the lexer admits at that place by structure
	}
	for _, cs := range []classSpec{
		{"ValidateMediaType", "CHAR_MEDIA_TYPE_FIRST", "CHAR_MEDIA_TYPE_NEXT", "/"},
		{"ValidateTime", "CHAR_AREA_LOC_FIRST", "CHAR_AREA_LOC_NEXT", ""},
	} {
		f := findFn(p, "rules", "Context."+cs.validator)
		if f == nil {
			r.Undecided("C03.verbatim", "rules.Context."+cs.validator)
			continue
		}
		lexFirst, lexNext := g.ASCIISetOf(cs.first), g.ASCIISetOf(cs.next)
		if len(lexFirst) == 0 || len(lexNext) == 0 {
			r.Undecided("C03.verbatim", "lexer fragment "+cs.first+"/"+cs.next)
			continue
		}
		// predicates applied to x[0] (first position) and to x[i] (other positions), each negated inside a rejecting condition
		nPred := 0
		ast.Inspect(f.Decl.Body, func(n ast.Node) bool {
			ifs, ok := n.(*ast.IfStmt)
			if !ok || !newAnalysis(p).alwaysPanics(info, ifs.Body.List) {
				return true
			}
			ast.Inspect(ifs.Cond, func(m ast.Node) bool {
				u, ok := m.(*ast.UnaryExpr)
				if !ok || u.Op != token.NOT {
					return true
				}
				call, ok := stripParens(u.X).(*ast.CallExpr)
				if !ok || len(call.Args) != 1 {
					return true
				}
				c := callee(info, call)
				ix, isIx := stripParens(call.Args[0]).(*ast.IndexExpr)
				if c == nil || !isIx || !core.InModule(c) {
					return true
				}
				set, okc := byteClass(p, c, 0)
				if !okc {
					r.Fail("C03.verbatim", cs.validator+"|"+c.Name()+" evaluable", call.Pos(), "the character-class predicate "+c.Name()+" is not a closed expression over the byte: its accepted set cannot be computed")
					return true
				}
				nPred++
				lex, frag, pos := lexNext, cs.next, "a later position"
				if k, isConst := constInt(info, ix.Index); isConst && k == 0 {
					lex, frag, pos = lexFirst, cs.first, "the first position"
				}
				var extra []string
				for ch := 0; ch < 256; ch++ {
					if set[ch] && !(ch < 128 && lex[rune(ch)]) {
						if ch < 0x7f && ch > 0x20 {
							extra = append(extra, string(rune(ch)))
						} else {
							extra = append(extra, fmt.Sprintf("\\x%02x", ch))
						}
					}
				}
				r.Check("C03.verbatim", cs.validator+"|"+c.Name()+" within lexer "+frag, call.Pos(), len(extra) == 0,
					fmt.Sprintf("the validator accepts the bytes %s at %s, which the CTE lexer's %s does not admit: a CBE document with such a value is accepted but its CTE conversion cannot be read", strings.Join(extra, " "), pos, frag))
				return true
			})
			return true
		})
		r.Floor("C03.verbatim", cs.validator+" character-class tests", nPred, 2)
	}

	// ---- identifiers: the generated bit table on ASCII vs the lexer's CHAR_IDENTIFIER --------------------------------
	c03Identifier(r, p, g)

	// ---- custom text ------------------------------------------------------------------------------------
	a := newAnalysis(p)
	cbe := p.Pkg("cbe")
	if f := findFn(p, "cbe", "Encoder.OnCustomText"); f != nil {
		r.Check("C03.custom-text", "(*cbe.Encoder).OnCustomText|rejects", f.Decl.Pos(), a.alwaysPanics(cbe.TypesInfo, f.Decl.Body.List), "the CBE encoder must reject custom text (it has no encoding for it)")
	} else {
		r.Undecided("C03.custom-text", "cbe.Encoder.OnCustomText")
	}
	if f := findFn(p, "cbe", "Encoder.OnCustomBegin"); f != nil {
		ok := false
		for _, st := range f.Decl.Body.List {
			ifs, isIf := st.(*ast.IfStmt)
			if !isIf || !a.alwaysPanics(cbe.TypesInfo, ifs.Body.List) {
				continue
			}
			if be, isBe := stripParens(ifs.Cond).(*ast.BinaryExpr); isBe && be.Op == token.EQL {
				for _, side := range []ast.Expr{be.X, be.Y} {
					if o := objOf(cbe.TypesInfo, side); o != nil && o.Name() == "ArrayTypeCustomText" {
						ok = true
					}
				}
			}
			if be, isBe := stripParens(ifs.Cond).(*ast.BinaryExpr); isBe && be.Op == token.NEQ {
				for _, side := range []ast.Expr{be.X, be.Y} {
					if o := objOf(cbe.TypesInfo, side); o != nil && o.Name() == "ArrayTypeCustomBinary" {
						ok = true
					}
				}
			}
		}
		r.Check("C03.custom-text", "(*cbe.Encoder).OnCustomBegin|rejects chunked custom text", f.Decl.Pos(), ok, "chunked custom text must be rejected like whole custom text; here it would be written with the custom binary code")
	} else {
		r.Undecided("C03.custom-text", "cbe.Encoder.OnCustomBegin")
	}
	nEv := 0
	for _, f := range funcsOf(cbe) {
		rn := recvNamed(f.Obj)
		if rn == nil || rn.Obj().Name() != "Encoder" || !strings.HasPrefix(f.Obj.Name(), "On") || f.Obj.Name() == "OnCustomText" {
			continue
		}
		nEv++
		r.Check("C03.custom-text", "(*cbe.Encoder)."+f.Obj.Name()+"|does not reject unconditionally", f.Decl.Pos(), !a.alwaysPanics(cbe.TypesInfo, f.Decl.Body.List),
			"this event method of the CBE encoder always rejects: data of this kind in a CTE document cannot be converted to CBE")
	}
	r.Floor("C03.custom-text", "CBE encoder event methods", nEv, 35)

	_ = g
}

// c03Identifier compares chars.identifierSafe (ASCII part) with the lexer's CHAR_IDENTIFIER.
func c03Identifier(r *core.Run, p *core.Program, g *Grammar) {
	chars := p.Pkg("internal/chars")
	info := chars.TypesInfo
	// the table literal
	var lit *ast.CompositeLit
	for _, file := range chars.Syntax {
		for _, d := range file.Decls {
			gd, ok := d.(*ast.GenDecl)
			if !ok {
				continue
			}
			for _, sp := range gd.Specs {
				vs, ok := sp.(*ast.ValueSpec)
				if !ok {
					continue
				}
				for i, n := range vs.Names {
					if n.Name == "identifierSafe" && i < len(vs.Values) {
						lit, _ = vs.Values[i].(*ast.CompositeLit)
					}
				}
			}
		}
	}
	if lit == nil || len(lit.Elts) < 16 {
		r.Undecided("C03.verbatim", "internal/chars.identifierSafe")
		return
	}
	// indexing convention of getBitArrayValue: array[index>>3] & (1 << (index&7))
	conv := findFn(p, "internal/chars", "getBitArrayValue")
	okConv := false
	if conv != nil {
		src := ""
		for _, st := range conv.Decl.Body.List {
			src += nodeString(p, st) + ";"
		}
		okConv = strings.Contains(src, "index>>3") && strings.Contains(src, "index&7") || (strings.Contains(src, "index >> 3") && strings.Contains(src, "index & 7"))
	}
	r.Check("C03.verbatim", "internal/chars.getBitArrayValue|byte index>>3, bit index&7", posOf(lit), okConv, "the bit table accessor no longer uses byte index>>3 / bit index&7: the identifier table cannot be interpreted")
	if !okConv {
		return
	}
	// IsRuneValidIdentifier must consult identifierSafe; ValidateIdentifier must call IsIdentifierSafe
	if f := findFn(p, "internal/chars", "IsRuneValidIdentifier"); f != nil {
		uses := false
		ast.Inspect(f.Decl.Body, func(n ast.Node) bool {
			if id, ok := n.(*ast.Ident); ok && id.Name == "identifierSafe" {
				uses = true
			}
			return true
		})
		r.Check("C03.verbatim", "internal/chars.IsRuneValidIdentifier|consults identifierSafe", f.Decl.Pos(), uses, "IsRuneValidIdentifier no longer reads the identifier table")
	}
	var table [16]byte
	for i := 0; i < 16; i++ {
		v, ok := constInt(info, lit.Elts[i])
		if !ok {
			r.Undecided("C03.verbatim", "internal/chars.identifierSafe entries")
			return
		}
		table[i] = byte(v)
	}
	lex := g.ASCIISetOf("CHAR_IDENTIFIER")
	var extra, missing []string
	for ch := 0; ch < 128; ch++ {
		in := table[ch>>3]&(1<<uint(ch&7)) != 0
		if in && !lex[rune(ch)] {
			extra = append(extra, fmt.Sprintf("%q", rune(ch)))
		}
		if !in && lex[rune(ch)] {
			missing = append(missing, fmt.Sprintf("%q", rune(ch)))
		}
	}
	sort.Strings(extra)
	r.Check("C03.verbatim", "ValidateIdentifier|identifier table within lexer CHAR_IDENTIFIER (ASCII)", posOf(lit), len(extra) == 0,
		"the validator's identifier table accepts the ASCII characters "+strings.Join(extra, " ")+", which the CTE lexer's CHAR_IDENTIFIER does not admit")
	r.Check("C03.verbatim", "ValidateIdentifier|lexer CHAR_IDENTIFIER within identifier table (ASCII)", posOf(lit), len(missing) == 0,
		"the CTE lexer admits the ASCII identifier characters "+strings.Join(missing, " ")+", which the validator rejects: a CTE document the lexer reads is then refused on conversion")
	if f := findFn(p, "rules", "Context.ValidateIdentifier"); f != nil {
		calls := false
		inspectCalls(p.Pkg("rules").TypesInfo, f.Decl.Body, func(call *ast.CallExpr, c *types.Func) {
			if c != nil && isFunc(c, "internal/chars", "IsIdentifierSafe") {
				calls = true
			}
		})
		r.Check("C03.verbatim", "rules.Context.ValidateIdentifier|uses IsIdentifierSafe", f.Decl.Pos(), calls, "ValidateIdentifier no longer checks the identifier's characters")
	}
}

func nodeString(p *core.Program, n ast.Node) string {
	var sb strings.Builder
	ast.Inspect(n, func(x ast.Node) bool {
		if e, ok := x.(ast.Expr); ok {
			sb.WriteString(strings.ReplaceAll(types.ExprString(e), " ", ""))
			sb.WriteString(";")
			return false
		}
		return true
	})
	return sb.String()
}
