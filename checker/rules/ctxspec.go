package rules

import (
	"fmt"
	"go/types"
	"strings"

	"verif/checker/core"
)

// contextSpec: required effect summaries of the validator's Context primitives (reference specification,
// DESIGN.md Appendix A). Shared by the properties that rest on them; each property checks the subset that
// carries its own clause, under its own rule id.
var contextSpec = map[string][]string{
	// containers / counts (C10, C14)
	"BeginList":        {"ctx.beginContainer(listRule,DataTypeList,noObjectCount)"},
	"BeginMap":         {"ctx.beginContainer(mapKeyRule,DataTypeMap,noObjectCount)"},
	"BeginEdge":        {"ctx.beginContainer(edgeSourceRule,DataTypeEdge,3)"},
	"BeginNode":        {"ctx.beginContainer(nodeRule,DataTypeList,noObjectCount)", "ctx.beginContainer(nodeRule,DataTypeNode,noObjectCount)"},
	"BeginRecordType":  {"if(!ctx.areRecordTypesAllowed()){reject}; ctx.beginContainer(recordTypeRule,DataTypeRecordType,noObjectCount); set($_this.recordTypeName=string($id))"},
	"BeginRecord":      {"def($v1,$v2=$_this.recordTypes[string($id)]); if(!$v2){reject}; ctx.beginContainer(recordRule,DataTypeRecord,$v1)"},
	"beginContainer":   {"++($_this.containerDepth); if($_this.containerDepth>$_this.config.Rules.MaxContainerDepth){reject}; ctx.stackRule($rule,$dataType,$expectedObjectCount)"},
	"endContainerLike": {"def($v1=$_this.CurrentEntry.DataType); ctx.UnstackRule(); if($notifyParent){cur.OnChildContainerEnded($_this,$v1)}"},
	"EndContainer":     {"if($_this.containerDepth==0){reject}; if($_this.CurrentEntry.ExpectedObjectCount>=0&&$_this.CurrentEntry.CurrentObjectCount!=$_this.CurrentEntry.ExpectedObjectCount){reject}; if($_this.CurrentEntry.DataType==DataTypeRecordType){ctx.addRecordType($_this.recordTypeName,$_this.CurrentEntry.CurrentObjectCount)}; --($_this.containerDepth); ctx.endContainerLike($notifyParent)"},
	"addRecordType":    {"def(_,$v1=$_this.recordTypes[$id]); if($v1){reject}; set($_this.recordTypes[$id]=$objectCount)"},
	"NotifyNewObject":  {"if($isRealObject){++($_this.CurrentEntry.CurrentObjectCount); if($_this.CurrentEntry.ExpectedObjectCount>=0&&$_this.CurrentEntry.CurrentObjectCount>$_this.CurrentEntry.ExpectedObjectCount){reject}}; ++($_this.objectCount); if($_this.objectCount>$_this.config.Rules.MaxObjectCount){reject}"},
	"ChangeRule":       {"set($_this.CurrentEntry.Rule=$rule)"},
	"UnstackRule":      {"def($v1=$_this.CurrentEntry.Rule); set($_this.CurrentEntry=$_this.stack[?pure:len($_this.stack)-1]); set($_this.stack=$_this.stack[:?pure:len($_this.stack)-1]); return"},
	// markers / references (C13)
	"BeginMarkerKeyable":    {"set($_this.markerID=string($id)); ctx.stackRule(markedObjectKeyableRule,$dataType,noObjectCount); set($_this.CurrentEntry.MarkerID=$_this.markerID)"},
	"BeginMarkerAnyType":    {"set($_this.markerID=string($id)); ctx.stackRule(markedObjectAnyTypeRule,$dataType,noObjectCount); set($_this.CurrentEntry.MarkerID=$_this.markerID)"},
	"MarkEndedContainer":    {"set($_this.markerID=$_this.CurrentEntry.MarkerID); ctx.MarkObject($dataType)"},
	"LocalReferenceKeyable": {"ctx.LocalReferenceObject($identifier,AllowKeyable)"},
	"LocalReferenceAnyType": {"ctx.LocalReferenceObject($identifier,AllowAny)"},
	"MarkObject":            {"def($v1=$_this.LocalReferenceCount+1); if($v1>$_this.config.Rules.MaxLocalReferenceCount){reject}; if($v1>$_this.config.Rules.MaxMarkerCount){reject}; def($v2=$_this.markerID); def(_,$v3=$_this.markedObjects[$v2]); if($v3){reject}; ++($_this.LocalReferenceCount); set($_this.markedObjects[$v2]=$dataType); def($v4,$v5=$_this.forwardLocalReferences[$v2]); if($v5){?pure:delete($_this.forwardLocalReferences,$v2); if($v4&$dataType==0){reject}}"},
	"LocalReferenceObject":  {"def($v1=string($id)); def($v2,$v3=$_this.markedObjects[$v1]); if($v3){if($v2&$allowedDataTypes==0){reject}; return}; def($v4=$_this.forwardLocalReferences[$v1]); if($v4==0){let($v4=$allowedDataTypes)}else{let($v4&=$allowedDataTypes)}; set($_this.forwardLocalReferences[$v1]=$v4)"},
	"ValidateIdentifier":    {"if(?pure:len($data)==0){reject}; if(?pure:len($data)>?pure:conv($_this.config.Rules.MaxIdentifierLength)){reject}; if(!internal/chars.IsIdentifierSafe($data)){reject}"},
	// arrays (C11, C14)
	"StreamStringData":                   {"let($nextRunesBytes=$data); def($v1=?pure:len($_this.utf8RemainderBuffer)); if($v1>0){def($v2=internal/chars.CalculateRuneByteCount($_this.utf8RemainderBuffer[0])); set($_this.utf8RemainderBuffer=$_this.utf8RemainderBuffer[:$v2]); def($v3=?pure:copy($_this.utf8RemainderBuffer[$v1:],$nextRunesBytes)); let($nextRunesBytes=$nextRunesBytes[$v3:]); if($v1+$v3<$v2){set($_this.utf8RemainderBuffer=$_this.utf8RemainderBuffer[:$v1+$v3]); return}; let($firstRuneBytes=$_this.utf8FirstRuneBacking[:$v2]); ?pure:copy($firstRuneBytes,$_this.utf8RemainderBuffer); set($_this.utf8RemainderBuffer=$_this.utf8RemainderBuffer[:0])}; def($v4,$v5=internal/chars.IndexOfLastRuneStart($nextRunesBytes)); if(!$v5){def($v6=$nextRunesBytes[$v4:]); set($_this.utf8RemainderBuffer=$_this.utf8RemainderBacking[:?pure:len($v6)]); ?pure:copy($_this.utf8RemainderBuffer,$v6); let($nextRunesBytes=$nextRunesBytes[:$v4])}; return"},
	"MarkCompletedChunkByteCount":        {"set($_this.chunkActualByteCount+=$byteCount); if($_this.chunkActualByteCount>$_this.chunkExpectedByteCount){reject}"},
	"markUpcomingChunkByteCount":         {"set($_this.arrayTotalByteCount+=$byteCount); ctx.validateArrayTotalByteCount($_this.arrayTotalByteCount,$_this.arrayMaxByteCount)"},
	"validateArrayTotalByteCount":        {"if($byteCount>$_this.arrayMaxByteCount&&$maxByteCount>0){reject}"},
	"EndChunkString":                     {"if(?pure:len($_this.utf8RemainderBuffer)>0){reject}; if(!ctx.tryEndArray($_this.moreChunksFollow,nil)){ctx.ChangeRule(stringRule)}"},
	"EndChunkAnyType":                    {"if(!ctx.tryEndArray($_this.moreChunksFollow,nil)){ctx.ChangeRule(arrayRule)}"},
	"tryEndArray":                        {"if($moreChunksFollow){return}; if($validator!=nil){?call}; ctx.endContainerLike(true); return"},
	"BeginChunkString":                   {"set($_this.chunkExpectedByteCount=$elemCount); ctx.markUpcomingChunkByteCount($_this.chunkExpectedByteCount); set($_this.chunkActualByteCount=0); set($_this.moreChunksFollow=$moreChunksFollow); if($elemCount>0){ctx.ChangeRule(stringChunkRule)}else{ctx.EndChunkString()}"},
	"BeginChunkAnyType":                  {"set($_this.chunkExpectedByteCount=internal/common.ElementCountToByteCount((ce/events.ArrayType).ElementSize(),$elemCount)); ctx.markUpcomingChunkByteCount($_this.chunkExpectedByteCount); set($_this.chunkActualByteCount=0); set($_this.moreChunksFollow=$moreChunksFollow); if($elemCount>0){ctx.ChangeRule(arrayChunkRule)}else{ctx.EndChunkAnyType()}"},
	"beginArray":                         {"set($_this.arrayTotalByteCount=0); set($_this.builtArrayBuffer=$_this.builtArrayBuffer[:0]); set($_this.utf8RemainderBuffer=$_this.utf8RemainderBacking[:0]); ctx.stackRule($rule,$dataType,noObjectCount); set($_this.arrayType=$arrayType); set($_this.arrayMaxByteCount=$maxByteCount); set($_this.ValidateArrayDataFunc=$validatorFunc)"},
	"ValidateByteCountForType":           {"def($v1=internal/common.ElementCountToByteCount((ce/events.ArrayType).ElementSize(),$elementCount)); if($byteCount!=$v1){reject}"},
	"ValidateLengthAnyType":              {"if($length>$_this.config.Rules.MaxArraySizeBytes&&$_this.config.Rules.MaxArraySizeBytes>0){reject}"},
	"ValidateLengthString":               {"if($length>$_this.config.Rules.MaxArraySizeBytes&&$_this.config.Rules.MaxArraySizeBytes>0){reject}"},
	"ValidateLengthRID":                  {"if($length>$_this.config.Rules.MaxArraySizeBytes&&$_this.config.Rules.MaxArraySizeBytes>0){reject}"},
	"AssertArrayType":                    {"if(arrayTypeToDataType[$arrayType]&$allowedTypes==0){reject}"},
	"BeginArrayKeyable":                  {"ctx.AssertArrayType($contextDesc,$arrayType,AllowKeyable); ctx.BeginArrayAnyType($arrayType)"},
	"ValidateFullArrayKeyable":           {"ctx.AssertArrayType($contextDesc,$arrayType,AllowKeyable); ctx.ValidateFullArrayAnyType($arrayType,$elementCount,$data)"},
	"ValidateFullArrayStringlikeKeyable": {"ctx.AssertArrayType($contextDesc,$arrayType,AllowKeyable); ctx.ValidateFullArrayStringlike($arrayType,$data)"},
	"GetBuiltArrayAsString":              {"?pure:conv($_this.builtArrayBuffer); return"},
	"AddBuiltArrayBytes":                 {"set($_this.builtArrayBuffer=?pure:append($_this.builtArrayBuffer,$bytes))"},
}

// checkCtxPrimitives compares the named Context methods with contextSpec under the given rule id.
func checkCtxPrimitives(r *core.Run, p *core.Program, a *analysis, rule string, names ...string) {
	for _, name := range names {
		want, ok := contextSpec[name]
		if !ok {
			r.BrokenF("contextSpec has no entry %s", name)
			continue
		}
		got, f := ctxSummary(p, a, name)
		if f == nil {
			if _, expandable := ctxHelperParams[name]; expandable {
				// the helper was inlined into its callers: their summaries are compared with the reference expanded the same way
				r.Pass(rule, "rules.Context."+name, 0, "helper not present: inlined into its callers, which are judged against the expanded reference")
				continue
			}
			r.Undecided(rule, "rules.Context."+name)
			continue
		}
		match := false
		for _, w := range want {
			if sameEffect(got, []string{w}) {
				match = true
			}
		}
		r.Check(rule, "rules.Context."+name, f.Decl.Pos(), match, fmt.Sprintf("Context.%s does `%s`; the reference specification requires `%s`", name, got, strings.Join(want, "` or `")))
	}
}

// checkTableRows compares complete rows (or selected events) of the validator's transition table with the reference spec.
func checkTableRows(r *core.Run, p *core.Program, a *analysis, rule string, rows []string, onlyEvents map[string]bool) int {
	table, _, events, pos := ruleTable(p, a)
	if table == nil {
		r.Undecided(rule, "rules.EventRule / rules.Context")
		return 0
	}
	spec := c10Spec()
	n := 0
	for _, rt := range rows {
		cs, known := spec[rt]
		if !known || table[rt] == nil {
			r.Undecided(rule, "rules."+rt)
			continue
		}
		for _, ev := range events {
			if onlyEvents != nil && !onlyEvents[ev] {
				continue
			}
			n++
			want := cs[ev]
			if len(want) == 0 {
				want = []string{"reject"}
			}
			got := table[rt][ev]
			ok := false
			for _, w := range want {
				if sameEffect(got, []string{w}) {
					ok = true
				}
			}
			r.Check(rule, rt+"."+ev, pos[rt+"."+ev], ok, fmt.Sprintf("context %s, event %s: the code does `%s`; the reference specification requires `%s`", rt, ev, got, strings.Join(want, "` or `")))
		}
	}
	return n
}

var _ = types.Universe
