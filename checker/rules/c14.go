package rules

import (
	"fmt"
	"go/ast"
	"go/token"
	"go/types"
	"sort"

	"golang.org/x/tools/go/packages"

	"verif/checker/core"
)

func init() { Registry["C14"] = checkC14 }

// limits the property names
var c14Named = []string{"MaxContainerDepth", "MaxObjectCount", "MaxArraySizeBytes", "MaxIdentifierLength", "MaxMarkerCount", "MaxDocumentSizeBytes"}

type limitGuard struct {
	limit string
	fn    *fn
	pos   token.Pos
	good  bool
}

// limitOf: if e denotes a RuleConfiguration limit field (directly, or through a carrier field), return its name.
func limitOf(info *types.Info, e ast.Expr, ruleCfg *types.Named, carriers map[*types.Var]string) string {
	e = stripConv(info, e)
	if id, isId := stripParens(e).(*ast.Ident); isId {
		// a local that holds a limit (c14ScanFunc enters such locals in its copy of the carrier table)
		if v, ok := info.ObjectOf(id).(*types.Var); ok && !v.IsField() {
			return carriers[v]
		}
	}
	fld := fieldOf(info, e)
	if fld == nil {
		return ""
	}
	if sel, ok := stripParens(e).(*ast.SelectorExpr); ok {
		if s := info.Selections[sel]; s != nil {
			if nt := namedOf(s.Recv()); nt != nil && nt.Obj() == ruleCfg.Obj() {
				return fld.Name()
			}
		}
	}
	return carriers[fld]
}

// limitCarriers finds struct fields that only ever hold a configured limit: assigned from a parameter of a
// function all of whose call sites pass a RuleConfiguration field for that parameter.
func limitCarriers(p *core.Program, ruleCfg *types.Named) map[*types.Var]string {
	carriers := map[*types.Var]string{}
	for _, pkg := range p.Pkgs {
		info := pkg.TypesInfo
		for _, f := range funcsOf(pkg) {
			ast.Inspect(f.Decl.Body, func(n ast.Node) bool {
				as, ok := n.(*ast.AssignStmt)
				if !ok || len(as.Lhs) != len(as.Rhs) {
					return true
				}
				for i, lhs := range as.Lhs {
					fld := fieldOf(info, lhs)
					id, isId := stripParens(as.Rhs[i]).(*ast.Ident)
					if fld == nil || !isId {
						continue
					}
					pi := paramIndex(f.Obj, info.ObjectOf(id))
					if pi < 0 {
						continue
					}
					// all call sites of f pass a limit field at pi
					lim, sites := "", 0
					consistent := true
					for _, pk2 := range p.Pkgs {
						for _, file := range pk2.Syntax {
							ast.Inspect(file, func(n2 ast.Node) bool {
								call, ok := n2.(*ast.CallExpr)
								if !ok || callee(pk2.TypesInfo, call) != f.Obj || pi >= len(call.Args) {
									return true
								}
								sites++
								l := limitOf(pk2.TypesInfo, call.Args[pi], ruleCfg, nil)
								if l == "" || (lim != "" && lim != l) {
									consistent = false
								}
								lim = l
								return true
							})
						}
					}
					if sites > 0 && consistent && lim != "" {
						carriers[fld] = lim
					}
				}
				return true
			})
		}
	}
	return carriers
}

func checkC14(r *core.Run, p *core.Program) {
	r.Rule("C14.limit-guard", "every comparison of a usage quantity with a configured limit (a RuleConfiguration field, or a field that only carries one) has the form `usage > limit` (or mirrored), sits in a condition whose branch rejects, and the usage counter was advanced for the current event before the comparison; >=, <, <=, == against a limit, a comparison whose branch does not reject, and compare-before-advance are violations.")
	r.Rule("C14.unused-limit", "each limit the property names (container depth, object count, array size, identifier length, marker count, document size) is enforced by at least one such guard.")
	r.Rule("C14.byte-accounting", "in the CBE reader every operation that consumes bytes from the source contributes its count to the document-size counter: the count result of a direct Read and the bytes-decoded result of the ULEB128 / compact-float / compact-time stream decoders is never discarded and reaches markBytesRead.")
	r.NotDecide("that each usage counter equals the specification's notion of that quantity for every document shape")

	cfgT := p.LookupType("configuration", "RuleConfiguration")
	if cfgT == nil {
		r.Undecided("C14.limit-guard", "configuration.RuleConfiguration")
		return
	}
	ruleCfg := cfgT.Type().(*types.Named)
	st := ruleCfg.Underlying().(*types.Struct)
	have := map[string]bool{}
	for i := 0; i < st.NumFields(); i++ {
		have[st.Field(i).Name()] = true
	}
	for _, n := range c14Named {
		if !have[n] {
			r.Undecided("C14.unused-limit", "configuration.RuleConfiguration."+n)
		}
	}
	carriers := limitCarriers(p, ruleCfg)
	a := newAnalysis(p)
	good := map[string]int{}
	nCmp := 0
	var rels []string
	for rel := range p.Pkgs {
		rels = append(rels, rel)
	}
	sort.Strings(rels)
	for _, rel := range rels {
		pkg := p.Pkgs[rel]
		info := pkg.TypesInfo
		for _, f := range funcsOf(pkg) {
			c14ScanFunc(r, a, p, pkg, info, f, ruleCfg, carriers, good, &nCmp)
		}
	}
	r.Floor("C14.limit-guard", "limit comparisons", nCmp, 8)
	for _, n := range c14Named {
		r.Check("C14.unused-limit", "configuration.RuleConfiguration."+n, token.NoPos, good[n] > 0,
			"no `usage > "+n+" => reject` guard exists anywhere in the module: this configured maximum is never enforced")
	}
	r.Count("C14 carrier fields", len(carriers))

	// usage accounting: the counters that the guards compare are advanced / released at exactly the required places
	r.Rule("C14.usage-accounting", "the usage counters compared with the limits are maintained exactly: container depth is incremented when a container begins and decremented on every accepted container end (no early return skips it), the object counter is incremented once per object, the array byte total adds each chunk's BYTE count (element count converted by element size) and is zeroed when an array begins, full arrays are measured by len(data); the Context primitives involved equal the reference specification.")
	checkCtxPrimitives(r, p, a, "C14.usage-accounting", "beginContainer", "EndContainer", "endContainerLike", "NotifyNewObject", "markUpcomingChunkByteCount",
		"validateArrayTotalByteCount", "BeginChunkAnyType", "BeginChunkString", "beginArray", "MarkObject", "ValidateIdentifier",
		"ValidateLengthAnyType", "ValidateLengthString", "ValidateLengthRID")
	checkC14Accounting(r, p, a)

	checkC14Bytes(r, p, a)
}

func c14ScanFunc(r *core.Run, a *analysis, p *core.Program, pkg *packages.Package, info *types.Info, f *fn, ruleCfg *types.Named, carriers map[*types.Var]string, good map[string]int, nCmp *int) {
	// map each comparison to the innermost enclosing if / case condition
	type frame struct {
		cond ast.Expr
		body []ast.Stmt
	}
	// locals defined once from a limit (`maxSize := cfg.MaxDocumentSizeBytes`) stand for that limit
	{
		local := map[*types.Var]string{}
		ast.Inspect(f.Decl.Body, func(n ast.Node) bool {
			as, ok := n.(*ast.AssignStmt)
			if !ok || as.Tok != token.DEFINE || len(as.Lhs) != len(as.Rhs) {
				return true
			}
			for i, l := range as.Lhs {
				id, ok := l.(*ast.Ident)
				if !ok {
					continue
				}
				v, ok := info.Defs[id].(*types.Var)
				if !ok {
					continue
				}
				if lim := limitOf(info, as.Rhs[i], ruleCfg, carriers); lim != "" && singleInit(info, f, v) != nil {
					local[v] = lim
				}
			}
			return true
		})
		if len(local) > 0 {
			cp := make(map[*types.Var]string, len(carriers)+len(local))
			for k, v := range carriers {
				cp[k] = v
			}
			for k, v := range local {
				cp[k] = v
			}
			carriers = cp
		}
	}
	var walk func(n ast.Node, encl *frame)
	visitCond := func(cond ast.Expr, body []ast.Stmt) {
		ast.Inspect(cond, func(n ast.Node) bool {
			be, ok := n.(*ast.BinaryExpr)
			if !ok {
				return true
			}
			switch be.Op {
			case token.GTR, token.LSS, token.GEQ, token.LEQ, token.EQL, token.NEQ:
			default:
				return true
			}
			lx, ly := limitOf(info, be.X, ruleCfg, carriers), limitOf(info, be.Y, ruleCfg, carriers)
			if lx == "" && ly == "" {
				return true
			}
			// limit compared with constant 0: "0 = unlimited" switch, not a guard
			if lx != "" {
				if k, isC := constInt(info, be.Y); isC && k == 0 {
					return true
				}
			}
			if ly != "" {
				if k, isC := constInt(info, be.X); isC && k == 0 {
					return true
				}
			}
			*nCmp++
			lim, usage, op := ly, be.X, be.Op
			if lx != "" && ly == "" {
				lim, usage = lx, be.Y
				switch be.Op { // mirror
				case token.GTR:
					op = token.LSS
				case token.LSS:
					op = token.GTR
				case token.GEQ:
					op = token.LEQ
				case token.LEQ:
					op = token.GEQ
				}
			}
			key := fmt.Sprintf("%s|%s vs %s", f.Name(), exprStr(stripConv(info, usage)), lim)
			if op != token.GTR {
				r.Fail("C14.limit-guard", key, be.Pos(), fmt.Sprintf("limit %s is compared with `%s` (normalised: usage %s limit); only `usage > limit => reject` enforces the maximum exactly (off-by-one or inverted test otherwise)", lim, be.Op, op))
				return true
			}
			if !a.alwaysPanics(info, body) {
				r.Fail("C14.limit-guard", key, be.Pos(), "exceeding "+lim+" does not reject: the branch guarded by this comparison does not raise an error")
				return true
			}
			// usage advanced before the comparison?
			u := stripConv(info, usage)
			if ufld := fieldOf(info, u); ufld != nil {
				advanced := false
				ast.Inspect(f.Decl.Body, func(n2 ast.Node) bool {
					switch s := n2.(type) {
					case *ast.IncDecStmt:
						if s.Tok == token.INC && fieldOf(info, s.X) == ufld && s.Pos() < be.Pos() {
							advanced = true
						}
					case *ast.AssignStmt:
						if s.Tok == token.ADD_ASSIGN && len(s.Lhs) == 1 && fieldOf(info, s.Lhs[0]) == ufld && s.Pos() < be.Pos() {
							advanced = true
						}
					}
					return true
				})
				if !advanced {
					r.Fail("C14.limit-guard", key, be.Pos(), "the counter "+exprStr(u)+" is compared with "+lim+" before being advanced for the current event in this function: one more than the maximum is accepted")
					return true
				}
			}
			// usage is a parameter: the callers must have advanced the counter they pass
			if uid, isId := u.(*ast.Ident); isId {
				if pi := paramIndex(f.Obj, info.ObjectOf(uid)); pi >= 0 {
					stale := ""
					for _, pk2 := range p.Pkgs {
						for _, g := range funcsOf(pk2) {
							inspectCalls(pk2.TypesInfo, g.Decl.Body, func(call *ast.CallExpr, cal *types.Func) {
								if cal != f.Obj || pi >= len(call.Args) {
									return
								}
								afld := fieldOf(pk2.TypesInfo, stripConv(pk2.TypesInfo, call.Args[pi]))
								if afld == nil {
									return
								}
								adv := false
								ast.Inspect(g.Decl.Body, func(n2 ast.Node) bool {
									switch s := n2.(type) {
									case *ast.IncDecStmt:
										if s.Tok == token.INC && fieldOf(pk2.TypesInfo, s.X) == afld && s.Pos() < call.Pos() {
											adv = true
										}
									case *ast.AssignStmt:
										if s.Tok == token.ADD_ASSIGN && len(s.Lhs) == 1 && fieldOf(pk2.TypesInfo, s.Lhs[0]) == afld && s.Pos() < call.Pos() {
											adv = true
										}
									}
									return true
								})
								if !adv {
									stale = g.Name() + " passes " + afld.Name()
								}
							})
						}
					}
					if stale != "" {
						r.Fail("C14.limit-guard", key, be.Pos(), "the caller "+stale+" to this guard before advancing it for the current event: one more than "+lim+" is accepted")
						return true
					}
				}
			}
			r.Pass("C14.limit-guard", key, be.Pos(), "")
			good[lim]++
			return true
		})
	}
	walk = func(n ast.Node, encl *frame) {
		ast.Inspect(n, func(n ast.Node) bool {
			switch s := n.(type) {
			case *ast.IfStmt:
				visitCond(s.Cond, s.Body.List)
			case *ast.CaseClause:
				for _, e := range s.List {
					visitCond(e, s.Body)
				}
			case *ast.BinaryExpr:
				// comparisons outside any if/case condition (e.g. returned booleans) are handled below
			}
			return true
		})
	}
	walk(f.Decl.Body, nil)
	// comparisons with a limit that are NOT inside an if/case condition: report (the shape cannot be judged)
	inCond := map[*ast.BinaryExpr]bool{}
	ast.Inspect(f.Decl.Body, func(n ast.Node) bool {
		mark := func(c ast.Expr) {
			ast.Inspect(c, func(n2 ast.Node) bool {
				if be, ok := n2.(*ast.BinaryExpr); ok {
					inCond[be] = true
				}
				return true
			})
		}
		switch s := n.(type) {
		case *ast.IfStmt:
			mark(s.Cond)
		case *ast.CaseClause:
			for _, e := range s.List {
				mark(e)
			}
		}
		return true
	})
	ast.Inspect(f.Decl.Body, func(n ast.Node) bool {
		be, ok := n.(*ast.BinaryExpr)
		if !ok || inCond[be] {
			return true
		}
		switch be.Op {
		case token.GTR, token.LSS, token.GEQ, token.LEQ, token.EQL, token.NEQ:
			lx, ly := limitOf(info, be.X, ruleCfg, carriers), limitOf(info, be.Y, ruleCfg, carriers)
			if lx != "" || ly != "" {
				r.Fail("C14.limit-guard", f.Name()+"|comparison outside a guard: "+lx+ly, be.Pos(), "a limit is compared outside an if/case condition; the shape is not one of the accepted guard forms")
			}
		}
		return true
	})
}

// checkC14Bytes: byte accounting of the CBE reader.
func checkC14Bytes(r *core.Run, p *core.Program, a *analysis) {
	pkg := p.Pkg("cbe")
	info := pkg.TypesInfo
	mark := p.LookupFunc("cbe", "Reader.markBytesRead")
	if mark == nil {
		r.Undecided("C14.byte-accounting", "cbe.Reader.markBytesRead")
		return
	}
	sites := 0
	for _, f := range funcsOf(pkg) {
		if rn := recvNamed(f.Obj); rn == nil || rn.Obj().Name() != "Reader" {
			continue
		}
		// arguments handed to markBytesRead in this function
		marked := map[types.Object]bool{}
		constMarked := int64(0)
		inspectCalls(info, f.Decl.Body, func(call *ast.CallExpr, cal *types.Func) {
			if cal == mark && len(call.Args) == 1 {
				if obj := objOf(info, stripConv(info, call.Args[0])); obj != nil {
					marked[obj] = true
				}
				if k, ok := constInt(info, call.Args[0]); ok {
					constMarked += k
				}
			}
		})
		ast.Inspect(f.Decl.Body, func(n ast.Node) bool {
			as, ok := n.(*ast.AssignStmt)
			if !ok || len(as.Rhs) != 1 {
				return true
			}
			call, ok := as.Rhs[0].(*ast.CallExpr)
			if !ok {
				return true
			}
			cal := callee(info, call)
			if cal == nil {
				return true
			}
			countIdx := -1
			kind := ""
			switch {
			case cal.Name() == "Read" && typeIs(recvType(cal), "io", "Reader"):
				countIdx, kind = 0, "io.Reader.Read"
			case !core.InModule(cal) && takesReader(cal):
				// third-party stream decoder: the int result is the number of bytes decoded
				sig := cal.Type().(*types.Signature)
				for i := 0; i < sig.Results().Len(); i++ {
					if b, ok := sig.Results().At(i).Type().Underlying().(*types.Basic); ok && b.Kind() == types.Int {
						countIdx = i
					}
				}
				kind = cal.Pkg().Name() + "." + cal.Name()
			}
			if countIdx < 0 || countIdx >= len(as.Lhs) {
				return true
			}
			sites++
			key := f.Name() + "|" + kind
			id, isId := as.Lhs[countIdx].(*ast.Ident)
			if !isId || id.Name == "_" {
				// accepted alternative: a constant count is marked in the same function and the read is of exactly that many bytes
				if kind == "io.Reader.Read" && constMarked > 0 {
					r.Pass("C14.byte-accounting", key, call.Pos(), "count discarded but a constant count is marked (exactness of that read is C28's concern)")
					return true
				}
				// or the read sits in an unexported helper and every caller of the helper marks a constant count
				if kind == "io.Reader.Read" && !f.Obj.Exported() {
					nCallers, allMark := 0, true
					for _, g := range funcsOf(pkg) {
						calls, marks := false, false
						inspectCalls(info, g.Decl.Body, func(c2 *ast.CallExpr, cal2 *types.Func) {
							if cal2 == f.Obj {
								calls = true
							}
							if cal2 == mark && len(c2.Args) == 1 {
								if _, ok := constInt(info, c2.Args[0]); ok {
									marks = true
								}
							}
						})
						if calls {
							nCallers++
							if !marks {
								allMark = false
							}
						}
					}
					if nCallers > 0 && allMark {
						r.Pass("C14.byte-accounting", key, call.Pos(), "count discarded in a helper; every caller marks a constant count")
						return true
					}
				}
				r.Fail("C14.byte-accounting", key, call.Pos(), "the number of bytes consumed by "+kind+" is discarded: these document bytes are not counted towards MaxDocumentSizeBytes")
				return true
			}
			r.Check("C14.byte-accounting", key, call.Pos(), marked[info.ObjectOf(id)],
				"the number of bytes consumed by "+kind+" is not passed to markBytesRead: these document bytes are not counted towards MaxDocumentSizeBytes")
			return true
		})
	}
	r.Floor("C14.byte-accounting", "byte-consuming call sites in cbe.Reader", sites, 6)
}

func takesReader(f *types.Func) bool {
	sig := f.Type().(*types.Signature)
	for i := 0; i < sig.Params().Len(); i++ {
		if typeIs(sig.Params().At(i).Type(), "io", "Reader") {
			return true
		}
	}
	return false
}

// checkC14Accounting: what is measured is the right quantity.
func checkC14Accounting(r *core.Run, p *core.Program, a *analysis) {
	pkg := p.Pkg("rules")
	info := pkg.TypesInfo
	// every ValidateLength* call measures len(data) in bytes
	n := 0
	for _, f := range funcsOf(pkg) {
		inspectCalls(info, f.Decl.Body, func(call *ast.CallExpr, cal *types.Func) {
			if cal == nil || recvNamed(cal) == nil || recvNamed(cal).Obj().Name() != "Context" || len(call.Args) != 1 {
				return
			}
			switch cal.Name() {
			case "ValidateLengthAnyType", "ValidateLengthString", "ValidateLengthRID":
			default:
				return
			}
			n++
			arg := stripConv(info, call.Args[0])
			ok := false
			if c, isCall := arg.(*ast.CallExpr); isCall {
				if id, isId := c.Fun.(*ast.Ident); isId && id.Name == "len" {
					ok = true
				}
			}
			r.Check("C14.usage-accounting", f.Name()+"|"+cal.Name()+" measures len(data)", call.Pos(), ok, "the array size compared with MaxArraySizeBytes is "+exprStr(call.Args[0])+", not the byte length of the data")
		})
	}
	r.Floor("C14.usage-accounting", "full-array length checks", n, 8)
	// every beginArray call passes the configured array limit
	if ba := p.LookupFunc("rules", "Context.beginArray"); ba == nil {
		r.Undecided("C14.usage-accounting", "rules.Context.beginArray")
	} else {
		cfgT := p.LookupType("configuration", "RuleConfiguration")
		m := 0
		for _, f := range funcsOf(pkg) {
			inspectCalls(info, f.Decl.Body, func(call *ast.CallExpr, cal *types.Func) {
				if cal != ba || len(call.Args) < 4 {
					return
				}
				m++
				lim := limitOf(info, call.Args[3], cfgT.Type().(*types.Named), nil)
				r.Check("C14.usage-accounting", f.Name()+"|beginArray limit", call.Pos(), lim == "MaxArraySizeBytes", "a chunked array is begun with limit "+exprStr(call.Args[3])+" instead of config.Rules.MaxArraySizeBytes")
			})
		}
		r.Floor("C14.usage-accounting", "beginArray call sites", m, 5)
	}
	// document size: both decoders
	e := &effectCtx{a: a, p: p}
	if f := findFn(p, "cbe", "Reader.markBytesRead"); f == nil {
		r.Undecided("C14.usage-accounting", "cbe.Reader.markBytesRead")
	} else {
		got := e.summarize(f.Obj)
		want := "set($_this.bytesRead+=uint64($byteCount)); if($_this.bytesRead>$_this.config.Rules.MaxDocumentSizeBytes){reject}"
		r.Check("C14.usage-accounting", "cbe.Reader.markBytesRead", f.Decl.Pos(), sameEffect(got, []string{want}), "markBytesRead does `"+got+"`; required `"+want+"`")
	}
	if f := findFn(p, "cte", "Decoder.markBytesRead"); f == nil {
		r.Undecided("C14.usage-accounting", "cte.Decoder.markBytesRead")
	} else {
		got := e.summarize(f.Obj)
		want := "if(?pure:conv($byteCount)>$_this.config.Rules.MaxDocumentSizeBytes){reject}"
		r.Check("C14.usage-accounting", "cte.Decoder.markBytesRead", f.Decl.Pos(), sameEffect(got, []string{want}), "markBytesRead does `"+got+"`; required `"+want+"`")
	}
	for _, name := range []string{"Decode", "DecodeDocument"} {
		f := findFn(p, "cte", "Decoder."+name)
		if f == nil {
			r.Undecided("C14.usage-accounting", "cte.Decoder."+name)
			continue
		}
		cinfo := f.Pkg.TypesInfo
		markPos, parsePos := token.NoPos, token.NoPos
		sized := false
		inspectCalls(cinfo, f.Decl.Body, func(call *ast.CallExpr, cal *types.Func) {
			if cal == nil {
				return
			}
			if cal.Name() == "markBytesRead" && len(call.Args) == 1 {
				markPos = call.Pos()
				s := exprStr(call.Args[0])
				sized = s == "len(document)" || s == "buf.Len()"
			}
			if cal.Name() == "ParseDocument" {
				parsePos = call.Pos()
			}
		})
		r.Check("C14.usage-accounting", "cte.Decoder."+name+"|size-checked-before-parse", f.Decl.Pos(), markPos.IsValid() && parsePos.IsValid() && markPos < parsePos && sized,
			"the whole document's length must be checked against MaxDocumentSizeBytes before parsing")
	}
}
