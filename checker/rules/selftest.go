package rules

import (
	"encoding/json"
	"fmt"
	"os"
	"os/exec"
	"path/filepath"
	"sort"
	"strings"
	"sync"

	"verif/checker/core"
)

// SelfTest is the both-ways test of the thorough tier: every stored variant of the property
// (/verif/mutants/<prop>/*.patch and /verif/seeded/*/patch.diff whose meta.json names the
// property and lists it as detected) is applied to a scratch copy of the repository's current
// working tree; the check, run on the copy, must report a violation that is not a known finding.
// Patches that no longer apply to an edited tree are counted as skipped. Scratch copies are
// removed before returning. Silent on the current tree is established by the main run itself.
func SelfTest(r *core.Run, prop, repo, verif string) {
	type mutant struct {
		name, patch string
		expect      string // substring expected in the output (rule id), optional
	}
	var ms []mutant
	files, _ := filepath.Glob(filepath.Join(verif, "mutants", prop, "*.patch"))
	sort.Strings(files)
	for _, f := range files {
		m := mutant{name: "mutants/" + prop + "/" + filepath.Base(f), patch: f}
		if b, err := os.ReadFile(strings.TrimSuffix(f, ".patch") + ".expect"); err == nil {
			m.expect = strings.TrimSpace(string(b))
		}
		ms = append(ms, m)
	}
	metas, _ := filepath.Glob(filepath.Join(verif, "seeded", "*", "meta.json"))
	sort.Strings(metas)
	for _, mf := range metas {
		b, err := os.ReadFile(mf)
		if err != nil {
			continue
		}
		var meta struct {
			Property   string   `json:"property"`
			DetectedBy []string `json:"detected_by"`
		}
		if json.Unmarshal(b, &meta) != nil {
			continue
		}
		for _, d := range meta.DetectedBy {
			if d == prop {
				dir := filepath.Dir(mf)
				ms = append(ms, mutant{name: "seeded/" + filepath.Base(dir), patch: filepath.Join(dir, "patch.diff")})
			}
		}
	}
	if len(ms) == 0 {
		r.Extra["selftest"] = "no stored variants for this property"
		return
	}
	self, err := os.Executable()
	if err != nil {
		r.BrokenF("selftest: %v", err)
		return
	}
	type result struct {
		name, status, detail string
	}
	results := make([]result, len(ms))
	sem := make(chan struct{}, 3)
	var wg sync.WaitGroup
	for i, m := range ms {
		wg.Add(1)
		go func(i int, m mutant) {
			defer wg.Done()
			sem <- struct{}{}
			defer func() { <-sem }()
			results[i] = result{name: m.name}
			tmp, err := os.MkdirTemp("", "cecheck-selftest-")
			if err != nil {
				results[i].status, results[i].detail = "error", err.Error()
				return
			}
			defer os.RemoveAll(tmp)
			scratch := filepath.Join(tmp, "repo")
			sverif := filepath.Join(tmp, "verif")
			os.MkdirAll(sverif, 0o755)
			if out, err := exec.Command("rsync", "-a", "--exclude", ".git", repo+"/", scratch+"/").CombinedOutput(); err != nil {
				results[i].status, results[i].detail = "error", string(out)
				return
			}
			if b, err := os.ReadFile(filepath.Join(verif, "known_findings.json")); err == nil {
				os.WriteFile(filepath.Join(sverif, "known_findings.json"), b, 0o644)
			}
			ap := exec.Command("patch", "-p1", "-s", "-f", "--no-backup-if-mismatch", "-i", m.patch)
			ap.Dir = scratch
			if out, err := ap.CombinedOutput(); err != nil {
				results[i].status, results[i].detail = "skipped", "patch does not apply to the current tree: "+firstLine(string(out))
				return
			}
			cmd := exec.Command(self, prop, "--quick", "--no-selftest", "--repo", scratch, "--verif", sverif)
			cmd.Env = append(os.Environ(), "VERIF_TIER=quick")
			out, err := cmd.CombinedOutput()
			code := 0
			if ee, ok := err.(*exec.ExitError); ok {
				code = ee.ExitCode()
			} else if err != nil {
				results[i].status, results[i].detail = "error", err.Error()
				return
			}
			text := string(out)
			switch {
			case code == 1 && strings.Contains(text, "VIOLATION property="+prop) && (m.expect == "" || strings.Contains(text, m.expect)):
				results[i].status = "killed"
				for _, l := range strings.Split(text, "\n") {
					if strings.Contains(l, prop+".") && !strings.HasPrefix(l, "KNOWN-FINDING") {
						results[i].detail = l
						break
					}
				}
			case code == 2:
				results[i].status, results[i].detail = "error", firstLine(text)
			default:
				results[i].status = "survived"
				results[i].detail = fmt.Sprintf("exit %d; expected a violation%s", code, map[bool]string{true: " mentioning " + m.expect, false: ""}[m.expect != ""])
			}
		}(i, m)
	}
	wg.Wait()
	killed, skipped, survived := 0, 0, 0
	var list []map[string]string
	for _, res := range results {
		switch res.status {
		case "killed":
			killed++
		case "skipped":
			skipped++
		case "survived":
			survived++
			// a stored variant that the check no longer detects means the checker regressed
			r.BrokenF("selftest: stored variant %s is no longer detected (%s)", res.name, res.detail)
		default:
			r.BrokenF("selftest: %s: %s", res.name, res.detail)
		}
		list = append(list, map[string]string{"variant": res.name, "status": res.status, "detail": res.detail})
	}
	r.Extra["selftest"] = map[string]interface{}{"variants": len(ms), "killed": killed, "skipped": skipped, "survived": survived, "results": list}
	fmt.Printf("%s selftest: %d stored variants, %d killed, %d skipped, %d survived\n", prop, len(ms), killed, skipped, survived)
}

func firstLine(s string) string {
	s = strings.TrimSpace(s)
	if i := strings.Index(s, "\n"); i >= 0 {
		return s[:i]
	}
	return s
}
