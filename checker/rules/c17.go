package rules

import (
	"fmt"
	"go/ast"
	"go/token"
	"go/types"
	"sort"
	"strings"

	"verif/checker/core"
)

func init() { Registry["C17"] = checkC17 }

// initLike: functions that run once before any concurrent use: init functions and functions handed to sync.Once.Do.
func initLikeFuncs(p *core.Program) map[*types.Func]bool {
	out := map[*types.Func]bool{}
	for _, pkg := range p.Pkgs {
		for _, f := range funcsOf(pkg) {
			if f.Obj.Name() == "init" && recvNamed(f.Obj) == nil {
				out[f.Obj] = true
			}
			inspectCalls(pkg.TypesInfo, f.Decl.Body, func(call *ast.CallExpr, c *types.Func) {
				if c == nil || c.Name() != "Do" || !typeIs(recvType(c), "sync", "Once") || len(call.Args) != 1 {
					return
				}
				if fo, ok := objOf(pkg.TypesInfo, call.Args[0]).(*types.Func); ok {
					out[fo] = true
				}
			})
		}
	}
	// functions only called from init-like functions are init-like too (one level, module functions)
	callers := map[*types.Func]map[*types.Func]bool{}
	a := newAnalysis(p)
	for _, pkg := range p.Pkgs {
		for _, f := range funcsOf(pkg) {
			for _, g := range a.refs(f.Obj) {
				if callers[g] == nil {
					callers[g] = map[*types.Func]bool{}
				}
				callers[g][f.Obj] = true
			}
		}
	}
	for changed := true; changed; {
		changed = false
		for g, cs := range callers {
			if out[g] || !core.InModule(g) || g.Exported() {
				continue
			}
			all := len(cs) > 0
			for c := range cs {
				if !out[c] {
					all = false
				}
			}
			if all {
				out[g] = true
				changed = true
			}
		}
	}
	return out
}

// storeRoot returns the package-level variable a store expression is rooted at (x, x.f, x[i], *x, x.f[i].g …).
func storeRoot(info *types.Info, e ast.Expr) *types.Var {
	for {
		switch x := stripParens(e).(type) {
		case *ast.Ident:
			v, ok := info.ObjectOf(x).(*types.Var)
			if ok && v.Pkg() != nil && v.Parent() == v.Pkg().Scope() {
				return v
			}
			return nil
		case *ast.SelectorExpr:
			// pkg.Var
			if id, ok := x.X.(*ast.Ident); ok {
				if _, isPkg := info.ObjectOf(id).(*types.PkgName); isPkg {
					v, ok := info.ObjectOf(x.Sel).(*types.Var)
					if ok && v.Parent() == v.Pkg().Scope() {
						return v
					}
					return nil
				}
			}
			e = x.X
		case *ast.IndexExpr:
			e = x.X
		case *ast.StarExpr:
			e = x.X
		case *ast.SliceExpr:
			e = x.X
		default:
			return nil
		}
	}
}

func checkC17(r *core.Run, p *core.Program) {
	r.Rule("C17.globals", "no function of the module other than init functions, variable initialisers and functions run under sync.Once stores to a package-level variable of the module - directly, through an element, field or pointer of it, or by appending to it: separate instances share nothing mutable, so their concurrent use cannot race on package state.")
	r.Rule("C17.singletons", "every type that has a package-level instance handed to all callers (the global builders, the validator's rule singletons, decorators, the root sessions) either has no fields or stores to its fields only in Init: methods of a shared singleton never modify it.")
	r.Rule("C17.session-cache", "the shared type caches follow the placeholder protocol: the WaitGroup is incremented before the placeholder is published with LoadOrStore; the placeholder closure waits on the WaitGroup before it reads the captured generator; the captured variable is assigned before every Done (normal and failure path); all other cache access is through the sync.Map methods.")
	r.Rule("C17.shared-context", "state a session hands to every iterator/builder it creates (the per-session part of iterator.Context, the session structs) is never written through after the session is initialised: no element store, append or use as a destination buffer of a slice or map field of it outside the session's initialisation (a struct copy duplicates only the slice header, so such a write is shared by all marshalers of the session).")
	r.NotDecide("actual interleavings and the race detector's verdict; package-level state of third-party modules (the ANTLR runtime's prediction caches are shared between parsers and synchronised by the runtime itself); equality with sequential results")
	r.Assume("third-party modules (ANTLR runtime, compact-time, apd) synchronise their own package-level state")

	initLike := initLikeFuncs(p)

	// ---- globals ----------------------------------------------------------------------------------------
	nVars, nStoresInit := 0, 0
	for _, rel := range core.LibraryPackages {
		pkg := p.Pkg(rel)
		info := pkg.TypesInfo
		for _, n := range pkg.Types.Scope().Names() {
			if _, ok := pkg.Types.Scope().Lookup(n).(*types.Var); ok {
				nVars++
			}
		}
		for _, f := range funcsOf(pkg) {
			ast.Inspect(f.Decl.Body, func(nd ast.Node) bool {
				var lhs []ast.Expr
				switch s := nd.(type) {
				case *ast.AssignStmt:
					if s.Tok == token.DEFINE {
						return true
					}
					lhs = s.Lhs
				case *ast.IncDecStmt:
					lhs = []ast.Expr{s.X}
				case *ast.RangeStmt:
					if s.Tok == token.ASSIGN {
						lhs = []ast.Expr{s.Key, s.Value}
					}
				}
				// a package-level slice used as a destination buffer: append(G[:k], …) and append(G, …) with spare
				// capacity, copy(G…, …) and Append*-style helpers write into the backing array every goroutine shares
				if call, isCall := nd.(*ast.CallExpr); isCall && len(call.Args) >= 1 && !initLike[f.Obj] {
					isDest := false
					if id, ok := call.Fun.(*ast.Ident); ok {
						if b, ok := info.Uses[id].(*types.Builtin); ok && (b.Name() == "append" || b.Name() == "copy") {
							isDest = true
						}
					}
					if cal := callee(info, call); cal != nil && strings.HasPrefix(cal.Name(), "Append") {
						isDest = true
					}
					if isDest {
						dst := stripParens(call.Args[0])
						sliced := false
						if se, ok := dst.(*ast.SliceExpr); ok {
							dst, sliced = stripParens(se.X), true
						}
						if v, ok := objOf(info, dst).(*types.Var); ok && core.InModule(v) && v.Parent() == v.Pkg().Scope() {
							if _, isSlice := v.Type().Underlying().(*types.Slice); isSlice && (sliced || packageSliceHasSpareCap(p, v)) {
								r.Fail("C17.globals", f.Name()+"|writes into package buffer "+core.Rel(v.Pkg())+"."+v.Name(), call.Pos(),
									"the package-level slice "+v.Name()+" is used as a destination buffer (`"+exprStr(call)+"`): the bytes are written into a backing array that every instance in every goroutine shares, so concurrent use of separate instances overwrites each other's data")
							}
						}
					}
				}
				for _, l := range lhs {
					if l == nil {
						continue
					}
					v := storeRoot(info, l)
					if v == nil || !core.InModule(v) {
						continue
					}
					if initLike[f.Obj] {
						nStoresInit++
						continue
					}
					r.Fail("C17.globals", f.Name()+"|stores to package variable "+core.Rel(v.Pkg())+"."+v.Name(), l.Pos(),
						"the package-level variable "+v.Name()+" is modified outside initialisation (`"+exprStr(l)+" = …`): every instance in every goroutine shares it, so concurrent use of separate instances races and results can depend on what other goroutines did")
				}
				return true
			})
		}
	}
	r.Pass("C17.globals", "module|package variables are only stored to during initialisation", token.NoPos, "")
	r.Floor("C17.globals", "package-level variables of the module", nVars, 100)
	r.Floor("C17.globals", "stores to package variables inside init-like functions (positive instances of the pattern)", nStoresInit, 5)

	// ---- singletons ---------------------------------------------------------------------------------------
	nSing := 0
	for _, rel := range core.LibraryPackages {
		if rel == "cte/parser" {
			continue
		}
		pkg := p.Pkg(rel)
		info := pkg.TypesInfo
		seen := map[*types.Named]string{}
		for _, file := range pkg.Syntax {
			for _, d := range file.Decls {
				gd, ok := d.(*ast.GenDecl)
				if !ok || gd.Tok != token.VAR {
					continue
				}
				for _, sp := range gd.Specs {
					vs := sp.(*ast.ValueSpec)
					for _, nm := range vs.Names {
						v, ok := info.Defs[nm].(*types.Var)
						if !ok {
							continue
						}
						nt := namedOf(v.Type())
						if nt == nil || !core.InModule(nt.Obj()) {
							continue
						}
						if _, isStruct := nt.Underlying().(*types.Struct); !isStruct {
							continue
						}
						if _, dup := seen[nt]; !dup {
							seen[nt] = v.Name()
						}
					}
				}
			}
		}
		var nts []*types.Named
		for nt := range seen {
			nts = append(nts, nt)
		}
		sort.Slice(nts, func(i, j int) bool { return nts[i].Obj().Name() < nts[j].Obj().Name() })
		for _, nt := range nts {
			st := nt.Underlying().(*types.Struct)
			nSing++
			key := core.Rel(nt.Obj().Pkg()) + "." + nt.Obj().Name() + " (instance " + seen[nt] + ")"
			if st.NumFields() == 0 {
				r.Pass("C17.singletons", key+"|no fields", nt.Obj().Pos(), "")
				continue
			}
			writes := fieldWrites(p, nt)
			var bad []string
			for fld, ws := range writes {
				for _, w := range ws {
					fname := w.f.Decl.Name.Name
					if fname == "Init" || strings.HasPrefix(fname, "New") || initLike[w.f.Obj] {
						continue
					}
					// stores through a value of this type that is a local/fresh instance are not singleton stores, but we cannot
					// tell instances apart: report only methods of the type itself
					if recvNamed(w.f.Obj) == nil || recvNamed(w.f.Obj).Obj() != nt.Obj() {
						continue
					}
					bad = append(bad, fname+" stores "+fld.Name())
				}
			}
			sort.Strings(bad)
			// types that are ALSO instantiated per user (sessions, contexts, encoders) legitimately store in their methods:
			// only pure singletons (never constructed outside the package-level declaration) are judged
			if constructedElsewhere(p, nt) {
				r.Pass("C17.singletons", key+"|also a per-user type", nt.Obj().Pos(), "instances are created per user; the package-level instance is judged by C17.session-cache / C17.globals")
				continue
			}
			r.Check("C17.singletons", key+"|methods do not modify the shared instance", nt.Obj().Pos(), len(bad) == 0,
				"the package-level instance is shared by every caller, but "+strings.Join(firstN(bad, 3), "; ")+": concurrent users race on it")
		}
	}
	r.Floor("C17.singletons", "types with a package-level instance", nSing, 40)

	// ---- session cache ----------------------------------------------------------------------------------------
	for _, spec := range []struct{ rel, fn string }{{"iterator", "Session.GetIteratorForType"}, {"builder", "Session.GetBuilderGeneratorForType"}} {
		f := findFn(p, spec.rel, spec.fn)
		if f == nil {
			r.Undecided("C17.session-cache", spec.rel+"."+spec.fn)
			continue
		}
		c17Placeholder(r, p, f)
	}
	// all access to the cache field through sync.Map methods (no copy of the map value, no address taken)
	for _, spec := range []struct{ rel, field string }{{"iterator", "iteratorFuncs"}, {"builder", "builderGenerators"}} {
		pkg := p.Pkg(spec.rel)
		info := pkg.TypesInfo
		okAll := true
		n := 0
		var badPos token.Pos
		for _, f := range funcsOf(pkg) {
			ast.Inspect(f.Decl.Body, func(nd ast.Node) bool {
				sel, ok := nd.(*ast.SelectorExpr)
				if !ok {
					return true
				}
				if fv := fieldOf(info, sel.X); fv != nil && fv.Name() == spec.field {
					n++
					if m, ok := info.Uses[sel.Sel].(*types.Func); !ok || !typeIs(recvType(m), "sync", "Map") {
						okAll = false
						badPos = sel.Pos()
					}
					return false
				}
				if fv := fieldOf(info, sel); fv != nil && fv.Name() == spec.field {
					// the field used other than as receiver of a sync.Map method
					okAll = false
					badPos = sel.Pos()
				}
				return true
			})
		}
		r.Check("C17.session-cache", spec.rel+".Session."+spec.field+"|accessed only through sync.Map methods", badPos, okAll && n >= 4, "the shared cache is read or written other than through the sync.Map methods")
	}

	// ---- shared context ---------------------------------------------------------------------------------------
	c17SharedContext(r, p, initLike)
}

// constructedElsewhere: a composite literal / new() of the type occurs inside a function (instances are created per use).
func constructedElsewhere(p *core.Program, nt *types.Named) bool {
	found := false
	for _, pkg := range p.Pkgs {
		for _, f := range funcsOf(pkg) {
			ast.Inspect(f.Decl.Body, func(n ast.Node) bool {
				switch x := n.(type) {
				case *ast.CompositeLit:
					if t := namedOf(pkg.TypesInfo.TypeOf(x)); t != nil && t.Obj() == nt.Obj() {
						found = true
					}
				case *ast.AssignStmt:
					// x := packageLevelValue copies the instance: the copy is a per-user value
					for _, rh := range x.Rhs {
						if v, ok := objOf(pkg.TypesInfo, rh).(*types.Var); ok && v.Pkg() != nil && v.Parent() == v.Pkg().Scope() {
							if t, ok := v.Type().(*types.Named); ok && t.Obj() == nt.Obj() {
								found = true
							}
						}
					}
				case *ast.CallExpr:
					if id, ok := x.Fun.(*ast.Ident); ok && id.Name == "new" && len(x.Args) == 1 {
						if t := namedOf(pkg.TypesInfo.TypeOf(x.Args[0])); t != nil && t.Obj() == nt.Obj() {
							found = true
						}
					}
				case *ast.ValueSpec:
					if x.Type != nil {
						if t := namedOf(pkg.TypesInfo.TypeOf(x.Type)); t != nil && t.Obj() == nt.Obj() {
							found = true
						}
					}
				}
				return !found
			})
			// struct fields of this type embedded by value in per-user types count as construction too
		}
		if found {
			return true
		}
	}
	// a by-value field of another struct type
	for _, pkg := range p.Pkgs {
		for _, n := range pkg.Types.Scope().Names() {
			tn, ok := pkg.Types.Scope().Lookup(n).(*types.TypeName)
			if !ok {
				continue
			}
			st, ok := tn.Type().Underlying().(*types.Struct)
			if !ok {
				continue
			}
			for i := 0; i < st.NumFields(); i++ {
				if t, ok := st.Field(i).Type().(*types.Named); ok && t.Obj() == nt.Obj() {
					return true
				}
			}
		}
	}
	return false
}

// c17Placeholder checks the placeholder-and-WaitGroup protocol of one cache-fill function.
func c17Placeholder(r *core.Run, p *core.Program, f *fn) {
	info := f.Pkg.TypesInfo
	var wgObj, capObj types.Object
	var addPos, publishPos token.Pos
	var closure *ast.FuncLit
	for _, st := range f.Decl.Body.List {
		ast.Inspect(st, func(n ast.Node) bool {
			call, ok := n.(*ast.CallExpr)
			if !ok {
				return true
			}
			c := callee(info, call)
			if c == nil {
				return true
			}
			if c.Name() == "Add" && typeIs(recvType(c), "sync", "WaitGroup") && addPos == token.NoPos {
				addPos = call.Pos()
				if sel, ok := call.Fun.(*ast.SelectorExpr); ok {
					wgObj = objOf(info, sel.X)
				}
			}
			if c.Name() == "LoadOrStore" && typeIs(recvType(c), "sync", "Map") && publishPos == token.NoPos {
				publishPos = call.Pos()
				ast.Inspect(call.Args[1], func(m ast.Node) bool {
					if fl, ok := m.(*ast.FuncLit); ok && closure == nil {
						closure = fl
					}
					return true
				})
			}
			return true
		})
	}
	name := f.Name()
	if addPos == token.NoPos || publishPos == token.NoPos || closure == nil {
		r.Fail("C17.session-cache", name+"|placeholder protocol recognised", f.Decl.Pos(), "the function no longer has the shape wg.Add(1); LoadOrStore(placeholder closure): the protocol cannot be judged")
		return
	}
	r.Check("C17.session-cache", name+"|WaitGroup incremented before the placeholder is published", addPos, addPos < publishPos,
		"wg.Add(1) runs after LoadOrStore published the placeholder: another goroutine can already be in wg.Wait(), which is unordered with the Add (a race on the WaitGroup) and can return before the generator exists")
	// closure: first statement wg.Wait(), then uses captured var
	waitFirst := false
	if len(closure.Body.List) > 0 {
		if es, ok := closure.Body.List[0].(*ast.ExprStmt); ok {
			if call, ok := es.X.(*ast.CallExpr); ok {
				if c := callee(info, call); c != nil && c.Name() == "Wait" && typeIs(recvType(c), "sync", "WaitGroup") {
					if sel, ok := call.Fun.(*ast.SelectorExpr); ok && objOf(info, sel.X) == wgObj {
						waitFirst = true
					}
				}
			}
		}
	}
	// captured variable: the local of function type called in the closure
	ast.Inspect(closure.Body, func(n ast.Node) bool {
		call, ok := n.(*ast.CallExpr)
		if !ok {
			return true
		}
		if id, ok := call.Fun.(*ast.Ident); ok {
			if v, ok := info.ObjectOf(id).(*types.Var); ok && v.Pos() < closure.Pos() && v.Pos() > f.Decl.Pos() {
				capObj = v
			}
		}
		return true
	})
	r.Check("C17.session-cache", name+"|placeholder waits before it reads the generator", closure.Pos(), waitFirst && capObj != nil,
		"the placeholder closure must call wg.Wait() first and only then use the generator variable it captured")
	if capObj == nil {
		return
	}
	// every wg.Done() is preceded, in its block, by an assignment to the captured variable
	nDone := 0
	var visit func(list []ast.Stmt, assignedBefore bool, isCap func(ast.Expr) bool, depth int)
	visit = func(list []ast.Stmt, assignedBefore bool, isCap func(ast.Expr) bool, depth int) {
		assigned := assignedBefore
		for _, st := range list {
			switch s := st.(type) {
			case *ast.AssignStmt:
				for _, l := range s.Lhs {
					if isCap(l) {
						assigned = true
					}
				}
			case *ast.ExprStmt:
				if call, ok := s.X.(*ast.CallExpr); ok {
					c := callee(info, call)
					if c != nil && c.Name() == "Done" && typeIs(recvType(c), "sync", "WaitGroup") {
						nDone++
						r.Check("C17.session-cache", fmt.Sprintf("%s|generator assigned before Done #%d", name, nDone), call.Pos(), assigned,
							"wg.Done() releases the waiting goroutines before the generator variable they will read has been assigned")
					} else if c != nil && depth < 2 && c.Pkg() == f.Pkg.Types {
						// a helper that is handed the address of the generator variable: its `*p = …` is the assignment
						if hd := p.FuncDecl(c); hd != nil && hd.Body != nil {
							sig := c.Type().(*types.Signature)
							var capParam types.Object
							for i, arg := range call.Args {
								if u, ok := stripParens(arg).(*ast.UnaryExpr); ok && u.Op == token.AND && isCap(u.X) && i < sig.Params().Len() {
									capParam = sig.Params().At(i)
								}
							}
							if capParam != nil {
								visit(hd.Body.List, assigned, func(e ast.Expr) bool {
									st, ok := stripParens(e).(*ast.StarExpr)
									return ok && objOf(info, st.X) == capParam
								}, depth+1)
							}
						}
					}
				}
			case *ast.IfStmt:
				visit(s.Body.List, assigned, isCap, depth)
			case *ast.DeferStmt:
				if fl, ok := s.Call.Fun.(*ast.FuncLit); ok {
					visit(fl.Body.List, false, isCap, depth)
				}
			}
		}
	}
	visit(f.Decl.Body.List, false, func(e ast.Expr) bool { return objOf(info, e) == capObj }, 0)
	r.Check("C17.session-cache", name+"|Done on the normal and on the failure path", f.Decl.Pos(), nDone >= 2, "the WaitGroup must be released both after a successful generation and when generation fails")
}

// c17SharedContext: slice and map fields of iterator.Context are written through only during session initialisation.
func c17SharedContext(r *core.Run, p *core.Program, initLike map[*types.Func]bool) {
	tn := p.LookupType("iterator", "Context")
	if tn == nil {
		r.Undecided("C17.shared-context", "iterator.Context")
		return
	}
	nt := tn.Type().(*types.Named)
	st := nt.Underlying().(*types.Struct)
	shared := map[*types.Var]bool{}
	for i := 0; i < st.NumFields(); i++ {
		switch st.Field(i).Type().Underlying().(type) {
		case *types.Slice, *types.Map:
			shared[st.Field(i)] = true
		}
	}
	allowed := func(f *fn) bool {
		n := f.Decl.Name.Name
		return n == "sessionContext" || (n == "Init" && recvNamed(f.Obj) != nil && recvNamed(f.Obj).Obj().Name() == "Session") || initLike[f.Obj]
	}
	nUses := 0
	for _, pkg := range p.Pkgs {
		info := pkg.TypesInfo
		for _, f := range funcsOf(pkg) {
			if allowed(f) {
				continue
			}
			ast.Inspect(f.Decl.Body, func(nd ast.Node) bool {
				switch s := nd.(type) {
				case *ast.AssignStmt:
					for _, l := range s.Lhs {
						// element store x.F[i] = / x.F[i].g =
						if fld := rootField(info, l, nt); fld != nil && shared[fld] {
							if _, direct := stripParens(l).(*ast.SelectorExpr); direct && fieldOf(info, l) == fld {
								// whole-field assignment of a per-iterator copy: only a problem when it re-uses the old backing array
								for _, rh := range s.Rhs {
									if mentionsField(info, rh, fld) {
										nUses++
										r.Fail("C17.shared-context", f.Name()+"|"+fld.Name()+" rebuilt from itself", s.Pos(), "the session-provided "+fld.Name()+" is appended to / resliced and stored back: the backing array is shared by every iterator of the session")
									}
								}
								continue
							}
							nUses++
							r.Fail("C17.shared-context", f.Name()+"|element of "+fld.Name()+" stored", s.Pos(), "an element of the session-provided "+fld.Name()+" is modified after the session was initialised: all iterators created from the session share that array")
						}
					}
				case *ast.CallExpr:
					// destination-buffer use: append(x.F[:0], …), strconv.AppendInt(x.F[:0], …), copy(x.F, …)
					name := ""
					if id, ok := s.Fun.(*ast.Ident); ok {
						name = id.Name
					} else if c := callee(info, s); c != nil {
						name = c.Name()
					}
					if !(name == "append" || name == "copy" || strings.HasPrefix(name, "Append")) || len(s.Args) == 0 {
						return true
					}
					if fld := rootField(info, s.Args[0], nt); fld != nil && shared[fld] {
						nUses++
						r.Fail("C17.shared-context", f.Name()+"|"+fld.Name()+" used as a destination buffer", s.Pos(), "the session-provided "+fld.Name()+" is the destination of "+name+": a struct copy of the context shares the slice's backing array, so every marshaler of the session writes into the same bytes")
					}
				}
				return true
			})
		}
	}
	r.Pass("C17.shared-context", "iterator.Context|slice and map fields are read-only after session initialisation", tn.Pos(), "")
	r.Floor("C17.shared-context", "slice/map fields of the per-session context", len(shared), 1)
}

func mentionsField(info *types.Info, e ast.Expr, fld *types.Var) bool {
	found := false
	ast.Inspect(e, func(n ast.Node) bool {
		if sel, ok := n.(*ast.SelectorExpr); ok && fieldOf(info, sel) == fld {
			found = true
		}
		return !found
	})
	return found
}

// packageSliceHasSpareCap: the package-level slice is created with make([]T, n, c) where c is not the constant n,
// (or in a way the checker cannot see), so an append to it may write into its backing array instead of copying.
func packageSliceHasSpareCap(p *core.Program, v *types.Var) bool {
	for _, pkg := range p.Pkgs {
		if pkg.Types != v.Pkg() {
			continue
		}
		info := pkg.TypesInfo
		for _, file := range pkg.Syntax {
			for _, d := range file.Decls {
				gd, ok := d.(*ast.GenDecl)
				if !ok {
					continue
				}
				for _, sp := range gd.Specs {
					vs, ok := sp.(*ast.ValueSpec)
					if !ok {
						continue
					}
					for i, nm := range vs.Names {
						if info.Defs[nm] != v {
							continue
						}
						if i >= len(vs.Values) {
							return false // nil slice: append allocates
						}
						switch init := stripParens(vs.Values[i]).(type) {
						case *ast.CompositeLit:
							return false // len == cap
						case *ast.CallExpr:
							if id, ok := init.Fun.(*ast.Ident); ok && id.Name == "make" {
								if len(init.Args) == 2 {
									return false
								}
								if len(init.Args) == 3 {
									a, okA := constInt(info, init.Args[1])
									b, okB := constInt(info, init.Args[2])
									return !(okA && okB && a == b)
								}
							}
							if tv, ok := info.Types[init.Fun]; ok && tv.IsType() {
								return false // []byte("…") conversion: len == cap is not guaranteed by the spec but appends reallocate in practice… be conservative:
							}
						}
						return true
					}
				}
			}
		}
	}
	return true
}
