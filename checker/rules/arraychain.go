package rules

import (
	"fmt"
	"go/ast"
	"go/types"
	"os"
	"path/filepath"
	"regexp"
	"sort"
	"strings"

	"verif/checker/core"
)

// ---------------------------------------------------------------------------------------------
// Read side of CTE typed arrays: lexer header token -> pushed mode -> element tokens -> parser
// element rule -> listener method -> base / bit size handed to strconv.

// parserRule is one rule of CTEParser.g4 reduced to the identifiers it mentions, in order.
type parserRule struct {
	Name   string
	Idents []string
	Raw    string
}

// loadParserGrammar reads codegen/cte/CTEParser.g4 (rule name -> identifiers in order of appearance).
func loadParserGrammar(repoDir string) (map[string]*parserRule, error) {
	path := filepath.Join(repoDir, "codegen", "cte", "CTEParser.g4")
	b, err := os.ReadFile(path)
	if err != nil {
		return nil, err
	}
	src := string(b)
	// strip comments
	src = regexp.MustCompile(`(?s)/\*.*?\*/`).ReplaceAllString(src, " ")
	src = regexp.MustCompile(`//[^\n]*`).ReplaceAllString(src, " ")
	// strip literals
	src = regexp.MustCompile(`'(?:\\.|[^'\\])*'`).ReplaceAllString(src, " ")
	rules := map[string]*parserRule{}
	for _, chunk := range strings.Split(src, ";") {
		i := strings.Index(chunk, ":")
		if i < 0 {
			continue
		}
		head := strings.Fields(chunk[:i])
		if len(head) == 0 {
			continue
		}
		name := head[len(head)-1]
		if name == "grammar" || name == "options" || strings.Contains(chunk[:i], "{") {
			continue
		}
		body := chunk[i+1:]
		ids := regexp.MustCompile(`[A-Za-z_][A-Za-z0-9_]*`).FindAllString(body, -1)
		rules[name] = &parserRule{Name: name, Idents: ids, Raw: strings.Join(strings.Fields(body), " ")}
	}
	if len(rules) < 20 {
		return nil, fmt.Errorf("%s: only %d parser rules recognised", path, len(rules))
	}
	return rules, nil
}

// arrayAlt is one alternative of a typed-array parser rule: the header token and the element rules it admits.
type arrayAlt struct {
	Rule      string // arrayI16
	Header    string // ARRAY_TYPE_I16X
	ElemRules []string
}

var arrayHeaderRe = regexp.MustCompile(`^ARRAY_TYPE_([IUF])(8|16|32|64)([BOX]?)$`)

func arrayAlts(pr map[string]*parserRule) []arrayAlt {
	var out []arrayAlt
	for _, name := range sortedKeys(pr) {
		r := pr[name]
		var cur *arrayAlt
		for _, id := range r.Idents {
			if arrayHeaderRe.MatchString(id) {
				out = append(out, arrayAlt{Rule: name, Header: id})
				cur = &out[len(out)-1]
				continue
			}
			if cur != nil && strings.HasPrefix(id, "arrayElem") {
				dup := false
				for _, e := range cur.ElemRules {
					if e == id {
						dup = true
					}
				}
				if !dup {
					cur.ElemRules = append(cur.ElemRules, id)
				}
			}
		}
	}
	return out
}

// listenerParse describes what a listener method hands to the element parser.
type listenerParse struct {
	Method  string
	Parser  string // parseIntElement / parseUintElement / parseFloatElement
	Base    int64
	BaseOK  bool
	BitsArg string // rendered bit-size argument
	Pos     ast.Node
}

// listenerElemParsers extracts, for each cteListener.ExitArrayElem* method, the element parser it calls and the base.
func listenerElemParsers(p *core.Program) map[string]listenerParse {
	out := map[string]listenerParse{}
	pkg := p.Pkg("cte")
	for _, f := range funcsOf(pkg) {
		rn := recvNamed(f.Obj)
		if rn == nil || rn.Obj().Name() != "cteListener" || !strings.HasPrefix(f.Obj.Name(), "ExitArrayElem") {
			continue
		}
		lp := listenerParse{Method: f.Obj.Name(), Pos: f.Decl}
		inspectCalls(pkg.TypesInfo, f.Decl.Body, func(call *ast.CallExpr, c *types.Func) {
			if c == nil || !pkgIs(c.Pkg(), "cte") || recvNamed(c) != nil {
				return
			}
			switch c.Name() {
			case "parseIntElement", "parseUintElement", "parseFloatElement":
				lp.Parser = c.Name()
				if len(call.Args) >= 3 {
					lp.Base, lp.BaseOK = constInt(pkg.TypesInfo, call.Args[1])
					lp.BitsArg = exprStr(call.Args[2])
				}
			}
		})
		out[f.Obj.Name()] = lp
	}
	return out
}

// digitsBase: the numeric base of the digits an element token admits, from the fragments its body references.
// prefixed reports whether a 0b/0o/0x prefix is part of the token.
func tokenDigits(g *Grammar, tok string) (base int, prefixed bool, ok bool) {
	r := g.Rules[tok]
	if r == nil {
		return 0, false, false
	}
	raw := r.Raw
	switch {
	case strings.Contains(raw, "DIGITS_BIN"):
		base = 2
	case strings.Contains(raw, "DIGITS_OCT"):
		base = 8
	case strings.Contains(raw, "DIGITS_HEX"), strings.Contains(raw, "_H_PREFIX"), strings.Contains(raw, "_H_NOPREFIX"):
		base = 16
	case strings.Contains(raw, "DIGITS_DEC"), strings.Contains(raw, "FLOAT_OR_INT_D"):
		base = 10
	default:
		return 0, false, false
	}
	prefixed = strings.Contains(raw, "PREFIX_") || strings.Contains(raw, "_H_PREFIX")
	return base, prefixed, true
}

// modeElemTokens lists the non-fragment tokens of a lexer mode.
func modeTokens(g *Grammar, mode string) []string {
	var out []string
	for _, n := range g.Order {
		r := g.Rules[n]
		if !r.Fragment && r.Mode == mode {
			out = append(out, n)
		}
	}
	sort.Strings(out)
	return out
}

func pushedMode(r *gRule) string {
	for _, c := range r.Commands {
		if strings.HasPrefix(c, "pushMode(") {
			return strings.TrimSuffix(strings.TrimPrefix(c, "pushMode("), ")")
		}
	}
	return ""
}

// checkArrayReadChain verifies, for every typed-array header token, that lexer mode, parser alternative and listener
// agree on the numeric base and the element width. rule is the obligation id to file results under.
func checkArrayReadChain(r *core.Run, p *core.Program, rule string) (chains int) {
	g, err := LoadLexerGrammar(p.RepoDir)
	if err != nil {
		r.BrokenF("lexer grammar: %v", err)
		return 0
	}
	pr, err := loadParserGrammar(p.RepoDir)
	if err != nil {
		r.BrokenF("parser grammar: %v", err)
		return 0
	}
	lps := listenerElemParsers(p)
	pkg := p.Pkg("cte")
	info := pkg.TypesInfo
	for _, alt := range arrayAlts(pr) {
		m := arrayHeaderRe.FindStringSubmatch(alt.Header)
		kind, width, suffix := m[1], m[2], m[3]
		key := alt.Header
		tok := g.Rules[alt.Header]
		if tok == nil {
			r.Fail(rule, key+"|header token exists in the lexer", 0, "the parser grammar uses "+alt.Header+" but the lexer grammar does not define it")
			continue
		}
		chains++
		mode := pushedMode(tok)
		// the parser rule name must be array<Kind><width>
		wantRule := "array" + kind + width
		r.Check(rule, key+"|parser rule", 0, alt.Rule == wantRule, fmt.Sprintf("header %s appears in parser rule %s, expected %s", alt.Header, alt.Rule, wantRule))
		// expected mode
		wantMode := "MODE_ARRAY_" + kind
		if suffix != "" {
			wantMode += "_" + suffix
		}
		r.Check(rule, key+"|lexer mode", 0, mode == wantMode, fmt.Sprintf("header %s pushes %s, expected %s (element digits would be read in another base/kind)", alt.Header, mode, wantMode))
		toks := map[string]bool{}
		for _, t := range modeTokens(g, mode) {
			toks[t] = true
		}
		for _, er := range alt.ElemRules {
			rr := pr[er]
			if rr == nil {
				r.Fail(rule, key+"|"+er+" defined", 0, "parser rule "+er+" is not defined")
				continue
			}
			// every token of the element rule must be producible: belong to the pushed mode (rules shared between modes list tokens of several modes)
			inMode := 0
			for _, t := range rr.Idents {
				if toks[t] {
					inMode++
				}
			}
			r.Check(rule, key+"|"+er+" tokens come from "+mode, 0, inMode > 0, fmt.Sprintf("none of the tokens of %s (%s) is produced in lexer mode %s", er, strings.Join(rr.Idents, " "), mode))
			if er == "arrayElemNan" || er == "arrayElemSnan" || er == "arrayElemInf" || er == "arrayElemNinf" {
				continue
			}
			// listener
			method := "Exit" + strings.ToUpper(er[:1]) + er[1:]
			lp, ok := lps[method]
			if !ok || lp.Parser == "" {
				r.Fail(rule, key+"|"+method+" parses the element", 0, "listener method "+method+" not found or does not call an element parser")
				continue
			}
			wantParser := map[string]string{"I": "parseIntElement", "U": "parseUintElement", "F": "parseFloatElement"}[kind]
			r.Check(rule, key+"|"+method+" parser kind", lp.Pos.Pos(), lp.Parser == wantParser, fmt.Sprintf("%s calls %s, expected %s for a %s array", method, lp.Parser, wantParser, kind+width))
			// base: tokens of this element rule that live in this mode decide the digits
			for _, t := range rr.Idents {
				if !toks[t] {
					continue
				}
				base, prefixed, okd := tokenDigits(g, t)
				if !okd {
					r.Fail(rule, key+"|"+t+" digits", 0, "cannot determine the digit class of token "+t+" ("+g.Rules[t].Raw+")")
					continue
				}
				var good bool
				var want string
				switch {
				case !lp.BaseOK:
					good, want = false, "a constant base"
				case prefixed:
					// the prefix tells strconv the base: only base 0 understands it
					good, want = lp.Base == 0, "0 (prefix-driven)"
				case base == 10:
					// unprefixed decimal digits: base 10, or base 0 for floats (a decimal float has no base prefix ambiguity)
					good, want = lp.Base == 10 || (kind == "F" && lp.Base == 0) || lp.Base == 0, "10"
				default:
					good, want = lp.Base == int64(base), fmt.Sprint(base)
				}
				r.Check(rule, key+"|"+t+" -> "+method+" base", lp.Pos.Pos(), good,
					fmt.Sprintf("token %s spells base-%d digits (prefix: %v) but %s parses with base %d; expected %s", t, base, prefixed, method, lp.Base, want))
			}
			r.Check(rule, key+"|"+method+" bit size", lp.Pos.Pos(), strings.Contains(lp.BitsArg, "elementSizeBits"),
				"the element parser is given bit size "+lp.BitsArg+" instead of the array's element size: out-of-range elements are not rejected")
		}
		// Enter<rule>: beginArray(width); Exit<rule>: OnArray(ArrayType<kind><width>, len/bytes)
		enter := findFn(p, "cte", "cteListener.Enter"+strings.ToUpper(alt.Rule[:1])+alt.Rule[1:])
		exit := findFn(p, "cte", "cteListener.Exit"+strings.ToUpper(alt.Rule[:1])+alt.Rule[1:])
		if enter == nil || exit == nil {
			r.Fail(rule, alt.Rule+"|listener Enter/Exit", 0, "Enter/Exit listener methods for "+alt.Rule+" not found")
			continue
		}
		gotBits := int64(-1)
		inspectCalls(info, enter.Decl.Body, func(call *ast.CallExpr, c *types.Func) {
			if c != nil && c.Name() == "beginArray" && len(call.Args) == 1 {
				gotBits, _ = constInt(info, call.Args[0])
			}
		})
		r.Check(rule, alt.Rule+"|element size bits", enter.Decl.Pos(), fmt.Sprint(gotBits) == width, fmt.Sprintf("%s sets element size %d bits, expected %s", enter.Name(), gotBits, width))
		wantType := map[string]string{"I": "Int", "U": "Uint", "F": "Float"}[kind] + width
		okType, okDiv := false, false
		inspectCalls(info, exit.Decl.Body, func(call *ast.CallExpr, c *types.Func) {
			if c == nil || c.Name() != "OnArray" || len(call.Args) != 3 {
				return
			}
			if o := objOf(info, call.Args[0]); o != nil && o.Name() == "ArrayType"+wantType {
				okType = true
			}
			// element count: len(arrayData) / (width/8)  (or plain len for 8 bits)
			cnt := stripConv(info, call.Args[1])
			if width == "8" {
				okDiv = strings.HasPrefix(exprStr(cnt), "len(")
			} else if b, ok := cnt.(*ast.BinaryExpr); ok && b.Op.String() == "/" {
				d, _ := constInt(info, b.Y)
				okDiv = fmt.Sprint(d*8) == width
			}
		})
		r.Check(rule, alt.Rule+"|array type", exit.Decl.Pos(), okType, exit.Name()+" does not raise OnArray with ArrayType"+wantType)
		r.Check(rule, alt.Rule+"|element count", exit.Decl.Pos(), okDiv, exit.Name()+" does not compute the element count as byte length / "+width+"/8")
	}
	return chains
}
