package rules

import (
	"fmt"
	"go/ast"
	"go/constant"
	"go/token"
	"go/types"
	"strings"

	"verif/checker/core"
)

func init() { Registry["C19"] = checkC19 }

// numeric classification of a type: kind ("int","uint","float","") and bit size
func numClass(t types.Type) (string, int) {
	b, ok := t.Underlying().(*types.Basic)
	if !ok {
		return "", 0
	}
	switch b.Kind() {
	case types.Int8:
		return "int", 8
	case types.Int16:
		return "int", 16
	case types.Int32:
		return "int", 32
	case types.Int64, types.Int:
		return "int", 64
	case types.Uint8:
		return "uint", 8
	case types.Uint16:
		return "uint", 16
	case types.Uint32:
		return "uint", 32
	case types.Uint64, types.Uint, types.Uintptr:
		return "uint", 64
	case types.Float32:
		return "float", 32
	case types.Float64:
		return "float", 64
	}
	return "", 0
}

// lossyConversion: T(x) can change the mathematical value of x.
func lossyConversion(from, to types.Type) bool {
	fk, fs := numClass(from)
	tk, ts := numClass(to)
	if fk == "" || tk == "" {
		return false
	}
	switch {
	case fk == tk:
		return ts < fs
	case fk == "uint" && tk == "int":
		return ts <= fs
	case fk == "int" && tk == "uint":
		return true
	case fk == "float" && tk != "float":
		return true
	case fk != "float" && tk == "float":
		return fs > 24 && (ts == 32 || fs > 53) // int64/uint64 -> float64 rounds above 2^53
	}
	return false
}

func checkC19(r *core.Run, p *core.Program) {
	r.Rule("C19.lossy-op", "in the numeric conversion functions (builder set*From* helpers and package conversions), every operation that can change the mathematical value of data derived from the input — a narrowing / sign-changing / float<->int conversion, reflect SetInt/SetUint/SetFloat into a possibly narrower kind, big.Int.Int64/Uint64, big.Float.Int64/Uint64/Float64/Int, a shift of the input — is guarded: dominated by a range or sign test on the source that leaves the function, or followed by a round-trip comparison of the stored/converted value with the original whose failing branch raises, or its accuracy result is compared with big.Exact, or its error result is checked.")
	r.Rule("C19.sign", "in every OnNegativeInt implementation the magnitude parameter is only used in ways that carry the sign: negated, given to a Neg/negative-form writer or a negative type code, converted to the negative-magnitude key type, compared, or forwarded to another OnNegativeInt; it never reaches a positive/unsigned sink un-negated.")
	r.Rule("C19.decimal-sign", "a function that takes the coefficient of an apd.Decimal (field Coeff holds the magnitude only) consults the field Negative before every successful return that follows or contains that use: a shortcut return placed before the sign handling turns a negative number into its absolute value without an error.")
	checkC19DecimalSign(r, p)
	r.Rule("C19.decimal-construct", "a big decimal is not assembled by hand from a number that can be negative: in a composite literal of apd.Decimal the coefficient is never the dereference of a caller's *big.Int (negative coefficient, and the copy shares the caller's digits), never *big.NewInt(-x) (wraps for the smallest int64), and *big.NewInt(x) of a signed x only where the path excludes x < 0; apd.New / apd.NewWithBigInt split magnitude and sign correctly.")
	checkC19DecimalConstruct(r, p)
	r.Rule("C19.big-fits", "(*big.Int).Uint64() and (*big.Int).Int64() - which silently return the low 64 bits of anything - are only taken on paths whose conditions imply IsUint64() / IsInt64() of the same value (a bit-length test alone does not exclude negative values).")
	checkC19BigFits(r, p)
	r.Rule("C19.uint-to-int", "a uint64 parameter is converted to int64 only on paths whose conditions exclude magnitudes above 2^63 (decided by evaluating the comparisons and range predicates on the path for 2^63+1 and 2^64-1): a larger magnitude would wrap to a small or positive number.")
	checkC19UintToInt(r, p)
	r.NotDecide("that guard constants are numerically right on every platform (amd64 semantics of out-of-range float->int conversions are assumed); exactness of third-party conversions (compact-float, apd) beyond their error result")
	r.Assume("third-party conversions (DFloat.Int/Uint/BigInt, apd.Decimal.Int64/Float64) return an error instead of a wrong value")
	a := newAnalysis(p)
	nOps := 0
	for _, rel := range []string{"builder", "conversions"} {
		pkg := p.Pkg(rel)
		info := pkg.TypesInfo
		for _, f := range funcsOf(pkg) {
			if rel == "builder" {
				pos := p.Fset.Position(f.Decl.Pos())
				if !strings.HasSuffix(pos.Filename, "conversions.go") {
					continue
				}
			}
			sig := f.Obj.Type().(*types.Signature)
			if sig.Params().Len() == 0 {
				continue
			}
			src := sig.Params().At(0) // the value being converted
			derived := map[types.Object]bool{src: true}
			// locals assigned from expressions mentioning the source
			for iter := 0; iter < 3; iter++ {
				ast.Inspect(f.Decl.Body, func(n ast.Node) bool {
					as, ok := n.(*ast.AssignStmt)
					if !ok {
						return true
					}
					for _, rhs := range as.Rhs {
						m := false
						for o := range derived {
							if mentionsObj(info, rhs, o) {
								m = true
							}
						}
						if m {
							for _, l := range as.Lhs {
								if id, ok := l.(*ast.Ident); ok && id.Name != "_" {
									if o := info.ObjectOf(id); o != nil {
										derived[o] = true
									}
								}
							}
						}
					}
					return true
				})
			}
			mentionsDerived := func(e ast.Node) bool {
				for o := range derived {
					if mentionsObj(info, e, o) {
						return true
					}
				}
				return false
			}
			// guards: if-statements that leave (panic / return a non-nil error)
			type guard struct {
				pos  token.Pos
				cond ast.Expr
			}
			var guards []guard
			ast.Inspect(f.Decl.Body, func(n ast.Node) bool {
				ifs, ok := n.(*ast.IfStmt)
				if !ok {
					return true
				}
				leaves := a.alwaysPanics(info, ifs.Body.List)
				if !leaves && len(ifs.Body.List) > 0 {
					if ret, ok := ifs.Body.List[len(ifs.Body.List)-1].(*ast.ReturnStmt); ok {
						for _, res := range ret.Results {
							if t := info.TypeOf(res); t != nil && isErrorType(t) && !isNilExpr(info, res) {
								leaves = true
							}
						}
					}
				}
				if leaves {
					guards = append(guards, guard{ifs.Pos(), ifs.Cond})
				}
				return true
			})
			report := func(op ast.Node, what string, resultObjs []types.Object, errOrAcc types.Object) {
				nOps++
				ok := false
				why := ""
				for _, g := range guards {
					if g.pos < op.Pos() {
						// range/sign test on the source before the operation
						if mentionsObj(info, g.cond, src) || mentionsDerived(g.cond) {
							cs := exprStr(g.cond)
							if strings.ContainsAny(cs, "<>") || strings.Contains(cs, "IsInt64") || strings.Contains(cs, "IsUint64") || strings.Contains(cs, "Exponent") || strings.Contains(cs, "MantExp") {
								ok, why = true, "range test before"
							}
						}
					} else {
						// round trip after: compares something with the source / result
						if be, isB := stripParens(g.cond).(*ast.BinaryExpr); isB && (be.Op == token.NEQ || be.Op == token.EQL) {
							mSrc := mentionsDerived(g.cond)
							mRes := false
							for _, ro := range resultObjs {
								if ro != nil && mentionsObj(info, g.cond, ro) {
									mRes = true
								}
							}
							if mSrc && (mRes || strings.Contains(exprStr(g.cond), "dst.")) {
								ok, why = true, "round-trip comparison after"
							}
						}
						if errOrAcc != nil && mentionsObj(info, g.cond, errOrAcc) {
							ok, why = true, "error/accuracy result checked"
						}
					}
				}
				_ = why
				r.Check("C19.lossy-op", fmt.Sprintf("%s|%s", f.Name(), what), op.Pos(), ok,
					"the value-changing operation "+what+" on data derived from the input is neither preceded by a range/sign test that leaves the function nor followed by a round-trip comparison / error / exactness check that raises: an out-of-range or inexact value is stored silently")
			}
			ast.Inspect(f.Decl.Body, func(n ast.Node) bool {
				switch x := n.(type) {
				case *ast.CallExpr:
					// conversions
					if tv, ok := info.Types[x.Fun]; ok && tv.IsType() && len(x.Args) == 1 {
						if lossyConversion(info.TypeOf(x.Args[0]), tv.Type) && mentionsDerived(x.Args[0]) && !isMetadataAccessor(info, x.Args[0]) {
							// a conversion that is itself inside a guard condition is part of a round-trip test
							inGuard := false
							for _, g := range guards {
								if g.cond.Pos() <= x.Pos() && x.End() <= g.cond.End() {
									inGuard = true
								}
							}
							if !inGuard {
								var res []types.Object
								// result object when assigned
								ast.Inspect(f.Decl.Body, func(k ast.Node) bool {
									if as, ok := k.(*ast.AssignStmt); ok {
										for i, rhs := range as.Rhs {
											if rhs == ast.Expr(x) && i < len(as.Lhs) {
												res = append(res, objOf(info, as.Lhs[i]))
											}
										}
									}
									return true
								})
								report(x, "conversion "+exprStr(x), res, nil)
							}
						}
						return true
					}
					cal := callee(info, x)
					if cal == nil {
						return true
					}
					rt := recvType(cal)
					// big.Float setters on a receiver whose precision was fixed by big.NewFloat (53 bits): the value is rounded silently
					if rt != nil && typeIs(rt, "math/big", "Float") && (cal.Name() == "SetInt" || cal.Name() == "SetRat" || cal.Name() == "SetInt64" || cal.Name() == "SetUint64" || cal.Name() == "Set") {
						if sel, ok := x.Fun.(*ast.SelectorExpr); ok && len(x.Args) == 1 && mentionsDerived(x.Args[0]) {
							if rc, ok := stripParens(sel.X).(*ast.CallExpr); ok {
								if c2 := callee(info, rc); c2 != nil && isFunc(c2, "math/big", "NewFloat") {
									report(x, "big.Float."+cal.Name()+" into a float created by big.NewFloat (fixed 53-bit precision)", nil, nil)
								}
							}
						}
					}
					switch {
					case rt != nil && typeIs(rt, "reflect", "Value") && (cal.Name() == "SetInt" || cal.Name() == "SetUint" || cal.Name() == "SetFloat") && len(x.Args) == 1 && mentionsDerived(x.Args[0]):
						// setFloatFromFloat stores a float into a float (float->float rounding is outside the property)
						if cal.Name() == "SetFloat" {
							// float -> float rounding is outside the property: only integer sources count
							sk, _ := numClass(src.Type())
							if !(sk == "int" || sk == "uint" || typeIs(src.Type(), "math/big", "Int")) {
								return true
							}
						}
						report(x, "reflect "+cal.Name(), nil, nil)
					case rt != nil && (typeIs(rt, "math/big", "Int") || typeIs(rt, "math/big", "Float")) && (cal.Name() == "Int64" || cal.Name() == "Uint64" || cal.Name() == "Float64" || cal.Name() == "Int") && core.Rel(f.Obj.Pkg()) == "conversions":
						if sel, ok := x.Fun.(*ast.SelectorExpr); ok && mentionsDerived(sel.X) {
							// accuracy / ok result variable
							var acc types.Object
							ast.Inspect(f.Decl.Body, func(k ast.Node) bool {
								if as, ok := k.(*ast.AssignStmt); ok && len(as.Rhs) == 1 && as.Rhs[0] == ast.Expr(x) && len(as.Lhs) == 2 {
									acc = objOf(info, as.Lhs[1])
								}
								return true
							})
							if cal.Name() == "Float64" && typeIs(rt, "math/big", "Float") {
								return true // float -> float rounding is outside the property
							}
							report(x, "big "+cal.Name()+"()", nil, acc)
						}
					}
				case *ast.BinaryExpr:
					if (x.Op == token.SHR || x.Op == token.SHL) && mentionsObj(info, x.X, src) {
						if k, _ := numClass(info.TypeOf(x.X)); k != "" {
							report(x, "shift "+exprStr(x), nil, nil)
						}
					}
				}
				return true
			})
		}
	}
	r.Floor("C19.lossy-op", "value-changing operations on input data", nOps, 20)

	// ---- decimal sign: the coefficient of an apd.Decimal is a magnitude; the sign lives in .Negative
	r.Rule("C19.decimal-sign", "every conversion that reads the coefficient (.Coeff) of a big decimal also reads its sign flag (.Negative) or a sign accessor: the coefficient alone is the magnitude, so a conversion that ignores the flag stores -5 as 5.")
	nCoeff := 0
	for _, rel := range []string{"builder", "conversions"} {
		pkg := p.Pkg(rel)
		info := pkg.TypesInfo
		for _, f := range funcsOf(pkg) {
			readsCoeff, readsSign := false, false
			var pos token.Pos
			ast.Inspect(f.Decl.Body, func(n ast.Node) bool {
				switch x := n.(type) {
				case *ast.SelectorExpr:
					if fv := fieldOf(info, x); fv != nil && typeIs(info.TypeOf(x.X), "github.com/cockroachdb/apd/v2", "Decimal") {
						switch fv.Name() {
						case "Coeff":
							// writing the coefficient (composite literal key / assignment target) is not a read
							readsCoeff = true
							pos = x.Pos()
						case "Negative":
							readsSign = true
						}
					}
				case *ast.CallExpr:
					if c := callee(info, x); c != nil && typeIs(recvType(c), "github.com/cockroachdb/apd/v2", "Decimal") && (c.Name() == "Sign" || c.Name() == "Neg" || c.Name() == "Abs" || c.Name() == "Cmp") {
						readsSign = true
					}
				}
				return true
			})
			if !readsCoeff {
				continue
			}
			nCoeff++
			r.Check("C19.decimal-sign", f.Name()+"|reads the sign with the coefficient", pos, readsSign,
				"the function uses the decimal's coefficient but never looks at its sign flag: a negative value is converted as if it were positive")
		}
	}
	r.Floor("C19.decimal-sign", "conversions that read a decimal coefficient", nCoeff, 1)

	// ---- integer destinations must not be reached through a rounding binary float
	r.Rule("C19.no-float-detour", "a conversion from a decimal source to an integer destination (…ToInt, …ToUint, …ToBigInt) never goes through a binary big.Float built with a finite precision (big.ParseFloat with a precision, big.NewFloat, SetPrec): the float silently rounds, and the later exactness test only sees the rounded value.")
	nDet := 0
	for _, f := range funcsOf(p.Pkg("conversions")) {
		name := f.Obj.Name()
		if !(strings.Contains(name, "DecimalFloatTo") && (strings.HasSuffix(name, "ToInt") || strings.HasSuffix(name, "ToUint") || strings.HasSuffix(name, "ToBigInt"))) {
			continue
		}
		nDet++
		via := ""
		a.reaches(f.Obj, func(g *types.Func) bool {
			if g.Pkg() != nil && g.Pkg().Path() == "math/big" && (g.Name() == "ParseFloat" || g.Name() == "NewFloat" || g.Name() == "SetPrec") {
				via = "math/big." + g.Name()
				return true
			}
			return false
		})
		r.Check("C19.no-float-detour", "conversions."+name+"|stays in exact arithmetic", f.Decl.Pos(), via == "",
			"this decimal-to-integer conversion reaches "+via+": the value is rounded to the float's precision before the integer is taken, so e.g. 1e19 is stored as 10376293541461622784 without an error")
	}
	r.Floor("C19.no-float-detour", "decimal-to-integer conversions", nDet, 3)

	// ---- negative zero: Go has no negative-zero constant
	r.Rule("C19.negative-zero", "nowhere in the module is unary minus applied to a floating-point constant that is zero (`-zero`, `-0.0`, `-float64(0)`): Go folds it to +0, so a value meant to be negative zero (the integer -0 of a document) silently becomes positive zero; negative zero must be made at run time (math.Copysign(0, -1)).")
	nNegConst := 0
	for _, rel := range core.LibraryPackages {
		if rel == "cte/parser" {
			continue
		}
		pkg := p.Pkg(rel)
		for _, f := range funcsOf(pkg) {
			ast.Inspect(f.Decl.Body, func(n ast.Node) bool {
				u, ok := n.(*ast.UnaryExpr)
				if !ok || u.Op != token.SUB {
					return true
				}
				tv, ok := pkg.TypesInfo.Types[u.X]
				if !ok || tv.Value == nil {
					return true
				}
				b, _ := pkg.TypesInfo.TypeOf(u).Underlying().(*types.Basic)
				if b == nil || b.Info()&types.IsFloat == 0 {
					return true
				}
				nNegConst++
				isZero := constant.Sign(tv.Value) == 0
				r.Check("C19.negative-zero", f.Name()+"|"+exprStr(u), u.Pos(), !isZero, "`"+exprStr(u)+"` negates a constant zero: the result is +0, not negative zero")
				return true
			})
		}
	}
	r.Count("C19.negative-zero negated floating-point constants", nNegConst)
	r.Pass("C19.negative-zero", "module|no negated constant zero", token.NoPos, "")

	// ---- sign obligation
	iface := p.LookupType("ce/events", "DataEventReceiver")
	it := iface.Type().Underlying().(*types.Interface)
	nImpl := 0
	for _, rel := range []string{"builder", "cbe", "cte", "rules", "nullevent", "ce"} {
		pkg := p.Pkg(rel)
		info := pkg.TypesInfo
		for _, f := range funcsOf(pkg) {
			rn := recvNamed(f.Obj)
			if rn == nil || f.Decl.Name.Name != "OnNegativeInt" || !types.Implements(types.NewPointer(rn), it) {
				continue
			}
			nImpl++
			param := f.Obj.Type().(*types.Signature).Params().At(0)
			if param.Name() == "" || param.Name() == "_" {
				r.Pass("C19.sign", f.Name(), f.Decl.Pos(), "parameter unused")
				continue
			}
			// every call that receives the magnitude (or a plain conversion of it)
			bad := ""
			parents := map[ast.Node]ast.Node{}
			var stack []ast.Node
			ast.Inspect(f.Decl.Body, func(n ast.Node) bool {
				if n == nil {
					stack = stack[:len(stack)-1]
					return true
				}
				if len(stack) > 0 {
					parents[n] = stack[len(stack)-1]
				}
				stack = append(stack, n)
				return true
			})
			negLater := func(recv types.Object, after token.Pos) bool {
				found := false
				inspectCalls(info, f.Decl.Body, func(c *ast.CallExpr, cal *types.Func) {
					if cal != nil && cal.Name() == "Neg" && c.Pos() > after {
						if sel, ok := c.Fun.(*ast.SelectorExpr); ok && objOf(info, stripAddr(sel.X)) == recv {
							found = true
						}
					}
				})
				return found
			}
			ast.Inspect(f.Decl.Body, func(n ast.Node) bool {
				id, ok := n.(*ast.Ident)
				if !ok || info.ObjectOf(id) != param {
					return true
				}
				// climb through conversions / parens
				var cur ast.Node = id
				negated := false
				for {
					par := parents[cur]
					switch pn := par.(type) {
					case *ast.ParenExpr:
						cur = pn
						continue
					case *ast.UnaryExpr:
						if pn.Op == token.SUB {
							negated = true
						}
						cur = pn
						continue
					case *ast.CallExpr:
						if tv, ok := info.Types[pn.Fun]; ok && tv.IsType() {
							if nt := namedOf(tv.Type); nt != nil && nt.Obj().Name() == "negint" {
								negated = true
							}
							cur = pn
							continue
						}
						if negated {
							return true
						}
						cal := callee(info, pn)
						if cal == nil {
							return true
						}
						name := cal.Name()
						switch {
						case name == "OnNegativeInt" || strings.Contains(name, "Neg"):
							// carries the sign
						case strings.HasPrefix(name, "fitsIn"):
						case name == "SetUint64":
							if sel, ok := pn.Fun.(*ast.SelectorExpr); ok {
								if !negLater(objOf(info, stripAddr(sel.X)), pn.Pos()) {
									bad = "big.Int.SetUint64(magnitude) is never followed by Neg on the same number"
								}
							}
						case strings.HasPrefix(name, "WriteTyped") || name == "WriteType":
							okCode := false
							for _, arg := range pn.Args {
								if c, ok := objOf(info, arg).(*types.Const); ok && strings.Contains(c.Name(), "Neg") {
									okCode = true
								}
							}
							if !okCode {
								bad = "written with " + name + " without a negative type code"
							}
						case name == "OnPositiveInt" || name == "OnInt" || name == "OnBigInt" || name == "BuildFromUint" || name == "BuildFromInt" || name == "WritePositiveInt":
							bad = "the magnitude is passed un-negated to " + name
						}
						return true
					}
					return true
				}
			})
			r.Check("C19.sign", f.Name(), f.Decl.Pos(), bad == "", "the magnitude of a negative integer loses its sign: "+bad)
		}
	}
	r.Floor("C19.sign", "OnNegativeInt implementations", nImpl, 5)
}

func stripAddr(e ast.Expr) ast.Expr {
	e = stripParens(e)
	if u, ok := e.(*ast.UnaryExpr); ok && u.Op == token.AND {
		return stripParens(u.X)
	}
	return e
}

// isMetadataAccessor: the operand is a property of the number (precision, digit count, exponent, length), not its value.
func isMetadataAccessor(info *types.Info, e ast.Expr) bool {
	c, ok := stripParens(e).(*ast.CallExpr)
	if !ok {
		return false
	}
	cal := callee(info, c)
	if cal == nil {
		if id, ok := c.Fun.(*ast.Ident); ok && id.Name == "len" {
			return true
		}
		return false
	}
	switch cal.Name() {
	case "Prec", "MinPrec", "NumDigits", "MantExp", "BitLen", "Sign", "Len":
		return true
	}
	return false
}

func checkC19BigFits(r *core.Run, p *core.Program) {
	n := 0
	for _, rel := range core.LibraryPackages {
		if rel == "cte/parser" {
			continue
		}
		pkg := p.Pkg(rel)
		info := pkg.TypesInfo
		a := newAnalysis(p)
		for _, f := range funcsOf(pkg) {
			inspectCalls(info, f.Decl.Body, func(call *ast.CallExpr, c *types.Func) {
				if c == nil || (c.Name() != "Uint64" && c.Name() != "Int64") {
					return
				}
				rt := recvType(c)
				if rt == nil || !typeIs(rt, "math/big", "Int") {
					return
				}
				sel, ok := call.Fun.(*ast.SelectorExpr)
				if !ok {
					return
				}
				n++
				recv := exprStr(sel.X)
				want := "Is" + c.Name()
				isFit := func(e ast.Expr) bool {
					cc, ok := stripParens(e).(*ast.CallExpr)
					if !ok {
						return false
					}
					cal := callee(info, cc)
					s2, ok := cc.Fun.(*ast.SelectorExpr)
					return ok && cal != nil && cal.Name() == want && exprStr(s2.X) == recv
				}
				conds, pols := pathConds(a, info, f, call)
				r.Check("C19.big-fits", fmt.Sprintf("%s|%s.%s()", f.Name(), recv, c.Name()), call.Pos(), impliesAtomValue(info, f, conds, pols, isFit, true),
					fmt.Sprintf("%s.%s() is taken on a path that does not require %s.%s(): a value outside the range (for Uint64: any negative value) is silently truncated to its low 64 bits", recv, c.Name(), recv, want))
			})
		}
	}
	r.Floor("C19.big-fits", "(*big.Int).Uint64/Int64 calls", n, 5)
}

func checkC19UintToInt(r *core.Run, p *core.Program) {
	n := 0
	for _, rel := range []string{"builder", "conversions", "cbe", "cte", "rules", "iterator"} {
		pkg := p.Pkg(rel)
		info := pkg.TypesInfo
		a := newAnalysis(p)
		for _, f := range funcsOf(pkg) {
			sig := f.Obj.Type().(*types.Signature)
			params := map[types.Object]bool{}
			for i := 0; i < sig.Params().Len(); i++ {
				if b, ok := sig.Params().At(i).Type().Underlying().(*types.Basic); ok && b.Kind() == types.Uint64 {
					params[sig.Params().At(i)] = true
				}
			}
			if len(params) == 0 {
				continue
			}
			ast.Inspect(f.Decl.Body, func(nd ast.Node) bool {
				call, ok := nd.(*ast.CallExpr)
				if !ok || len(call.Args) != 1 {
					return true
				}
				tv, ok := info.Types[call.Fun]
				if !ok || !tv.IsType() {
					return true
				}
				tb, ok := tv.Type.Underlying().(*types.Basic)
				if !ok || (tb.Kind() != types.Int64 && tb.Kind() != types.Int) {
					return true
				}
				po := objOf(info, call.Args[0])
				if po == nil || !params[po] {
					return true
				}
				n++
				conds, pols := pathConds(a, info, f, call)
				bad := ""
				for _, v := range []uint64{1<<63 + 1, ^uint64(0)} {
					if uintPathFeasible(p, info, conds, pols, po, v) {
						bad = fmt.Sprintf("%d", v)
					}
				}
				r.Check("C19.uint-to-int", fmt.Sprintf("%s|%s", f.Name(), exprStr(call)), call.Pos(), bad == "",
					"`"+exprStr(call)+"` can be reached with "+po.Name()+" = "+bad+": the conversion wraps, so the magnitude and the sign of the number are lost")
				return true
			})
		}
	}
	r.Floor("C19.uint-to-int", "int64 conversions of uint64 parameters", n, 3)
}

// uintPathFeasible: can all path conditions have their required polarity when the parameter has value v? Comparisons
// of the parameter with constants and calls of one-line range predicates (value <= C) are evaluated; anything else
// is unknown and does not exclude the path.
func uintPathFeasible(p *core.Program, info *types.Info, conds []ast.Expr, pols []bool, param types.Object, v uint64) bool {
	var eval func(e ast.Expr) (val, known bool)
	eval = func(e ast.Expr) (bool, bool) {
		e = stripParens(e)
		switch x := e.(type) {
		case *ast.UnaryExpr:
			if x.Op == token.NOT {
				b, k := eval(x.X)
				return !b, k
			}
		case *ast.CallExpr:
			if len(x.Args) == 1 && objOf(info, stripConv(info, x.Args[0])) == param {
				if c := callee(info, x); c != nil && core.InModule(c) {
					if pk := p.PkgOf(c); pk != nil {
						if bound, ok := predicateBound(p, pk.TypesInfo, c); ok {
							return v <= bound, true
						}
					}
				}
			}
		case *ast.BinaryExpr:
			switch x.Op {
			case token.LAND:
				a, ka := eval(x.X)
				b, kb := eval(x.Y)
				if (ka && !a) || (kb && !b) {
					return false, true
				}
				return a && b, ka && kb
			case token.LOR:
				a, ka := eval(x.X)
				b, kb := eval(x.Y)
				if (ka && a) || (kb && b) {
					return true, true
				}
				return a || b, ka && kb
			case token.EQL, token.NEQ, token.LSS, token.LEQ, token.GTR, token.GEQ:
				var cv constant.Value
				op := x.Op
				if objOf(info, stripConv(info, x.X)) == param {
					cv = constVal(info, x.Y)
				} else if objOf(info, stripConv(info, x.Y)) == param {
					cv = constVal(info, x.X)
					switch op {
					case token.LSS:
						op = token.GTR
					case token.GTR:
						op = token.LSS
					case token.LEQ:
						op = token.GEQ
					case token.GEQ:
						op = token.LEQ
					}
				}
				if cv != nil && (cv.Kind() == constant.Int || cv.Kind() == constant.Float) {
					return constant.Compare(constant.MakeUint64(v), op, constant.ToInt(cv)), true
				}
			}
		}
		return false, false
	}
	for i, c := range conds {
		b, known := eval(c)
		if known && b != pols[i] {
			return false
		}
	}
	return true
}

func checkC19DecimalConstruct(r *core.Run, p *core.Program) {
	n := 0
	for _, rel := range []string{"conversions", "builder", "iterator", "cbe", "cte", "rules"} {
		pkg := p.Pkg(rel)
		info := pkg.TypesInfo
		a := newAnalysis(p)
		for _, f := range funcsOf(pkg) {
			sig := f.Obj.Type().(*types.Signature)
			isParam := func(o types.Object) bool {
				for i := 0; i < sig.Params().Len(); i++ {
					if sig.Params().At(i) == o {
						return true
					}
				}
				return false
			}
			ast.Inspect(f.Decl.Body, func(nd ast.Node) bool {
				lit, ok := nd.(*ast.CompositeLit)
				if !ok || !typeIs(info.TypeOf(lit), "github.com/cockroachdb/apd/v2", "Decimal") {
					return true
				}
				for _, el := range lit.Elts {
					kv, ok := el.(*ast.KeyValueExpr)
					if !ok {
						continue
					}
					if k, _ := kv.Key.(*ast.Ident); k == nil || k.Name != "Coeff" {
						continue
					}
					n++
					key := fmt.Sprintf("%s|Coeff: %s", f.Name(), exprStr(kv.Value))
					st, isStar := stripParens(kv.Value).(*ast.StarExpr)
					if !isStar {
						r.Pass("C19.decimal-construct", key, kv.Pos(), "")
						continue
					}
					inner := stripParens(st.X)
					if o := objOf(info, inner); o != nil && isParam(o) {
						r.Fail("C19.decimal-construct", key, kv.Pos(), "the coefficient is a struct copy of the caller's *big.Int "+o.Name()+": a negative number keeps a negative coefficient with Negative unset (it then compares and encodes as positive), and the copy shares the caller's digits")
						continue
					}
					if call, ok := inner.(*ast.CallExpr); ok && len(call.Args) == 1 && isFunc(callee(info, call), "math/big", "NewInt") {
						arg := stripParens(call.Args[0])
						if u, isNeg := arg.(*ast.UnaryExpr); isNeg && u.Op == token.SUB {
							if constVal(info, u.X) == nil {
								r.Fail("C19.decimal-construct", key, kv.Pos(), "the magnitude is computed as -"+exprStr(u.X)+" in int64: for the smallest int64 the negation wraps and the coefficient stays negative (the number prints with two minus signs)")
								continue
							}
						}
						if o := objOf(info, arg); o != nil && isParam(o) {
							if b, isB := o.Type().Underlying().(*types.Basic); isB && b.Info()&types.IsUnsigned == 0 && b.Info()&types.IsInteger != 0 {
								isNegTest := func(e ast.Expr) bool {
									be, ok := stripParens(e).(*ast.BinaryExpr)
									if !ok || be.Op != token.LSS || objOf(info, be.X) != o {
										return false
									}
									k, isC := constInt(info, be.Y)
									return isC && k == 0
								}
								conds, pols := pathConds(a, info, f, lit)
								r.Check("C19.decimal-construct", key, kv.Pos(), impliesAtomValue(info, f, conds, pols, isNegTest, false),
									"the signed value "+o.Name()+" becomes the coefficient on a path that does not exclude "+o.Name()+" < 0")
								continue
							}
						}
					}
					r.Pass("C19.decimal-construct", key, kv.Pos(), "")
				}
				return true
			})
		}
	}
	r.Count("C19.decimal-construct big decimals assembled from a coefficient", n)
}

func checkC19DecimalSign(r *core.Run, p *core.Program) {
	n := 0
	for _, rel := range []string{"conversions", "builder", "iterator", "cbe", "cte", "rules"} {
		pkg := p.Pkg(rel)
		info := pkg.TypesInfo
		for _, f := range funcsOf(pkg) {
			var coeff, neg []token.Pos
			ast.Inspect(f.Decl.Body, func(nd ast.Node) bool {
				sel, ok := nd.(*ast.SelectorExpr)
				if !ok {
					return true
				}
				t := info.TypeOf(sel.X)
				if t == nil {
					return true
				}
				if pt, isP := t.Underlying().(*types.Pointer); isP {
					t = pt.Elem()
				}
				if !typeIs(t, "github.com/cockroachdb/apd/v2", "Decimal") {
					return true
				}
				switch sel.Sel.Name {
				case "Coeff":
					coeff = append(coeff, sel.Pos())
				case "Negative", "Sign", "Cmp", "Int64", "Float64", "Text", "String":
					neg = append(neg, sel.Pos())
				}
				return true
			})
			if len(coeff) == 0 {
				continue
			}
			// composite literals that copy Coeff and Negative together are judged by C19.decimal-construct
			ast.Inspect(f.Decl.Body, func(nd ast.Node) bool {
				if _, isLit := nd.(*ast.FuncLit); isLit {
					return false
				}
				ret, ok := nd.(*ast.ReturnStmt)
				if !ok || len(ret.Results) == 0 || !isNilExpr(info, ret.Results[len(ret.Results)-1]) {
					return true
				}
				if _, isErr := info.TypeOf(ret.Results[len(ret.Results)-1]).(*types.Basic); !isErr && len(ret.Results) < 2 {
					return true
				}
				used := false
				for _, c := range coeff {
					if c < ret.End() {
						used = true
					}
				}
				if !used {
					return true
				}
				n++
				signed := false
				for _, g := range neg {
					if g < ret.End() {
						signed = true
					}
				}
				r.Check("C19.decimal-sign", f.Name()+"|return after Coeff", ret.Pos(), signed,
					"this successful return follows (or contains) a use of the decimal's Coeff, which is the magnitude only, but the sign (field Negative) has not been consulted yet: a negative number is converted to its absolute value")
				return true
			})
		}
	}
	r.Floor("C19.decimal-sign", "successful returns after a Coeff use", n, 1)
}
