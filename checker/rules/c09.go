package rules

import (
	"go/ast"
	"go/token"
	"go/types"
	"strings"

	"verif/checker/core"
)

func init() { Registry["C09"] = checkC09 }

func checkC09(r *core.Run, p *core.Program) {
	r.Rule("C09.eof", "end of input is treated as a normal end only at a value boundary: the single comparison with io.EOF in the codecs sits in the function that reads the next type code and yields the end-of-document sentinel; every other read error (including EOF inside a value) is raised; the decode loop leaves only through the sentinel case and then signals OnEndDocument exactly once before returning.")
	r.Rule("C09.end-document", "in the validator's transition table OnEndDocument is rejected in every context except the end-of-document context (so a document that ends inside a container or before its top-level object is an error), and closing more containers than were opened is rejected.")
	r.Rule("C09.on-error", "both unmarshalers call receiver.OnError() when decoding failed, before fetching the built object, and return the decoder's error; the validator forwards OnError; the builder's OnError unwinds the unfinished builders (progress: C07.progress).")
	r.Rule("C09.cte-error", "the CTE parse entry point returns the error recorded by its error listener on every normal path, the listener's SyntaxError stores the error, and listener panics are re-raised with position (not swallowed).")
	r.NotDecide("that the partial value returned is a prefix of the full value (value-level)")
	a := newAnalysis(p)

	// ---- eof
	pkg := p.Pkg("cbe")
	info := pkg.TypesInfo
	eofSites := 0
	for _, rel := range []string{"cbe", "cte", "ce"} {
		pk := p.Pkg(rel)
		for _, f := range funcsOf(pk) {
			ast.Inspect(f.Decl.Body, func(n ast.Node) bool {
				be, ok := n.(*ast.BinaryExpr)
				if !ok || (be.Op != token.EQL && be.Op != token.NEQ) {
					return true
				}
				isEOF := func(e ast.Expr) bool {
					v, ok := objOf(pk.TypesInfo, e).(*types.Var)
					return ok && v.Pkg() != nil && v.Pkg().Path() == "io" && v.Name() == "EOF"
				}
				if !isEOF(be.X) && !isEOF(be.Y) {
					return true
				}
				eofSites++
				ok2 := rel == "cbe" && f.Decl.Name.Name == "ReadTypeOrEOF"
				r.Check("C09.eof", f.Name()+"|compares with io.EOF", be.Pos(), ok2, "end of input is tolerated here; only the read of the next type code may turn EOF into a normal end of document, anywhere else a truncated document would be accepted silently")
				return true
			})
		}
	}
	if f := findFn(p, "cbe", "Reader.ReadTypeOrEOF"); f == nil {
		r.Undecided("C09.eof", "cbe.Reader.ReadTypeOrEOF")
	} else {
		e := &effectCtx{a: a, p: p}
		got := e.summarize(f.Obj)
		want := "if(def(_,$v1=iface.Read($_this.buffer[:1]));$v1!=nil){if($v1==EOF){return}; reject}; (*cbe.Reader).markBytesRead(1); return"
		okShape := strings.Contains(got, "if($v1!=nil){if($v1==io.EOF){return}; reject}")
		_ = want
		r.Check("C09.eof", "cbe.Reader.ReadTypeOrEOF|only EOF is tolerated", f.Decl.Pos(), okShape, "after a failed read of the type code only io.EOF may yield the end sentinel, every other error must be raised; the function does `"+got+"`")
		// sentinel returned in the EOF branch is cbeTypeEOF
		sentinel := false
		ast.Inspect(f.Decl.Body, func(n ast.Node) bool {
			if ret, ok := n.(*ast.ReturnStmt); ok && len(ret.Results) == 1 {
				if c, ok := objOf(info, ret.Results[0]).(*types.Const); ok && c.Name() == "cbeTypeEOF" {
					sentinel = true
				}
			}
			return true
		})
		r.Check("C09.eof", "cbe.Reader.ReadTypeOrEOF|sentinel", f.Decl.Pos(), sentinel, "the EOF branch must return the end-of-document sentinel")
	}
	if f := findFn(p, "cbe", "Decoder.runMainDecodeLoop"); f == nil {
		r.Undecided("C09.eof", "cbe.Decoder.runMainDecodeLoop")
	} else {
		// break out of the loop only in the sentinel case; OnEndDocument after the loop
		var loop *ast.LabeledStmt
		for _, s := range f.Decl.Body.List {
			if l, ok := s.(*ast.LabeledStmt); ok {
				loop = l
			}
		}
		okBreak, endDocAfter := true, false
		nBreaks := 0
		if loop != nil {
			ast.Inspect(loop, func(n ast.Node) bool {
				cc, ok := n.(*ast.CaseClause)
				if !ok {
					return true
				}
				hasBreak := false
				ast.Inspect(cc, func(k ast.Node) bool {
					if b, ok := k.(*ast.BranchStmt); ok && b.Tok == token.BREAK && b.Label != nil {
						hasBreak = true
					}
					if _, ok := k.(*ast.ReturnStmt); ok {
						hasBreak = true
					}
					return true
				})
				if hasBreak {
					nBreaks++
					isSentinel := len(cc.List) == 1
					if isSentinel {
						c, _ := objOf(info, cc.List[0]).(*types.Const)
						isSentinel = c != nil && c.Name() == "cbeTypeEOF"
					}
					if !isSentinel {
						okBreak = false
					}
				}
				return true
			})
			after := false
			for _, s := range f.Decl.Body.List {
				if s == ast.Stmt(loop) {
					after = true
					continue
				}
				if after {
					if es, ok := s.(*ast.ExprStmt); ok {
						if c, ok := es.X.(*ast.CallExpr); ok {
							if cal := callee(info, c); cal != nil && cal.Name() == "OnEndDocument" {
								endDocAfter = true
							}
						}
					}
				}
			}
		}
		r.Check("C09.eof", "cbe.Decoder.runMainDecodeLoop|leaves only at the sentinel", f.Decl.Pos(), loop != nil && okBreak && nBreaks == 1, "the decode loop must be left only in the end-of-document sentinel case")
		r.Check("C09.eof", "cbe.Decoder.runMainDecodeLoop|OnEndDocument after loop", f.Decl.Pos(), endDocAfter, "after the loop the decoder must signal OnEndDocument (the validator then rejects unclosed containers)")
	}
	r.Floor("C09.eof", "io.EOF comparisons", eofSites, 1)
	// every other read error in the reader is raised
	nErr := 0
	for _, f := range funcsOf(pkg) {
		if rn := recvNamed(f.Obj); rn == nil || rn.Obj().Name() != "Reader" {
			continue
		}
		if f.Decl.Name.Name == "ReadTypeOrEOF" {
			nErr++ // its branch (EOF -> sentinel, anything else raised) is checked by shape above
			continue
		}
		ast.Inspect(f.Decl.Body, func(n ast.Node) bool {
			ifs, ok := n.(*ast.IfStmt)
			if !ok {
				return true
			}
			be, ok := stripParens(ifs.Cond).(*ast.BinaryExpr)
			if !ok || be.Op != token.NEQ || !isNilExpr(info, be.Y) {
				return true
			}
			if t := info.TypeOf(be.X); t == nil || !isErrorType(t) {
				return true
			}
			nErr++
			r.Check("C09.eof", f.Name()+"|read error raised", ifs.Pos(), a.alwaysPanics(info, ifs.Body.List), "a read error (possibly a truncated document) does not raise on every path of this branch")
			return true
		})
	}
	r.Floor("C09.eof", "read-error branches in cbe.Reader", nErr, 5)

	// ---- end-document column
	table, ruleTypes, _, pos := ruleTable(p, a)
	if table == nil {
		r.Undecided("C09.end-document", "rules.EventRule")
	} else {
		n := 0
		for _, rt := range ruleTypes {
			n++
			got := table[rt]["OnEndDocument"]
			want := "reject"
			if rt == "EndDocumentRule" {
				want = "ctx.EndDocument()"
			}
			r.Check("C09.end-document", rt+".OnEndDocument", pos[rt+".OnEndDocument"], sameEffect(got, []string{want}), "context "+rt+" handles end of document with `"+got+"`, required `"+want+"`: a document cut inside this context would be accepted")
		}
		r.Floor("C09.end-document", "contexts", n, 20)
		checkCtxPrimitives(r, p, a, "C09.end-document", "EndContainer", "beginContainer")
		checkTableRows(r, p, a, "C09.end-document", []string{"TopLevelRule", "EndDocumentRule", "BeginDocumentRule", "VersionRule"}, nil)
	}

	// ---- on-error
	for _, rel := range []string{"cbe", "cte"} {
		f := findFn(p, rel, "Unmarshaler.Unmarshal")
		if f == nil {
			r.Undecided("C09.on-error", rel+".Unmarshaler.Unmarshal")
			continue
		}
		finfo := f.Pkg.TypesInfo
		var decodePos, onErrPos, getPos token.Pos
		onErrGuarded := false
		ast.Inspect(f.Decl.Body, func(n ast.Node) bool {
			switch s := n.(type) {
			case *ast.IfStmt:
				if strings.Contains(exprStr(s.Cond), "err != nil") {
					inspectCalls(finfo, s.Body, func(c *ast.CallExpr, cal *types.Func) {
						if cal != nil && cal.Name() == "OnError" {
							onErrPos = c.Pos()
							onErrGuarded = true
						}
					})
				}
			case *ast.CallExpr:
				if cal := callee(finfo, s); cal != nil {
					switch cal.Name() {
					case "Decode":
						decodePos = s.Pos()
					case "GetBuiltObject":
						getPos = s.Pos()
					}
				}
			}
			return true
		})
		r.Check("C09.on-error", rel+".Unmarshaler.Unmarshal|OnError before GetBuiltObject", f.Decl.Pos(),
			decodePos.IsValid() && onErrGuarded && getPos.IsValid() && decodePos < onErrPos && onErrPos < getPos,
			"when Decode fails the receiver must be told (OnError) before the partially built object is fetched; otherwise unfinished containers are not closed and the partial result is lost or malformed")
	}
	if f := findFn(p, "builder", "BuilderEventReceiver.OnError"); f == nil {
		r.Undecided("C09.on-error", "builder.BuilderEventReceiver.OnError")
	} else {
		reach := a.reaches(f.Obj, func(g *types.Func) bool { return g.Name() == "ArtificiallyTerminate" })
		r.Check("C09.on-error", "builder.BuilderEventReceiver.OnError|unwinds", f.Decl.Pos(), reach, "the builder's OnError must unwind the unfinished builders (ArtificiallyTerminate)")
	}
	if f := findFn(p, "rules", "RulesEventReceiver.OnError"); f == nil {
		r.Undecided("C09.on-error", "rules.RulesEventReceiver.OnError")
	} else {
		fw := false
		inspectCalls(f.Pkg.TypesInfo, f.Decl.Body, func(c *ast.CallExpr, cal *types.Func) {
			if cal != nil && cal.Name() == "OnError" && typeIs(recvType(cal), "ce/events", "DataEventReceiver") {
				fw = true
			}
		})
		r.Check("C09.on-error", "rules.RulesEventReceiver.OnError|forwards", f.Decl.Pos(), fw, "the validator must forward OnError to the next receiver")
	}
	r.Rule("C09.stacked-wrapper", "a builder that is pushed on the builder stack holding the builder that was on top before it (a marker waiting for its object: constructed from Context.CurrentBuilder and stacked in the same method) does not forward the artificial end of input to that builder: the wrapped builder is BELOW it on the stack and is terminated by the unwinding loop itself - forwarding closes the enclosing container while the wrapper is still stacked, and the partial result ends up containing itself.")
	checkC09StackedWrapper(r, p)
	checkTerminateProgress2(r, p, a)
	if m := newBuilderMatrix(p, a); m != nil {
		checkTerminators(r, m, "C09.on-error")
	}
	// the unwinding loop runs until only the top-level builder is left (a counted loop would overrun when a
	// terminator pops more than one builder, or stop early)
	if f := findFn(p, "builder", "Context.ArtificiallyTerminate"); f != nil {
		ctxT := p.LookupType("builder", "Context")
		e := &effectCtx{a: a, p: p, ctxType: ctxT.Type().(*types.Named)}
		got := e.summarize(f.Obj)
		want := "for(;?pure:len($_this.builderStack)>1;){def($v1=?pure:len($_this.builderStack)); iface.BuildArtificiallyEndContainer($_this); if(?pure:len($_this.builderStack)>=$v1){ctx.UnstackBuilder()}}"
		r.Check("C09.on-error", "builder.Context.ArtificiallyTerminate|loop shape", f.Decl.Pos(), sameEffect(got, []string{want}), "the unwinding loop does `"+got+"`; required `"+want+"`")
	}

	// ---- cte error
	if f := findFn(p, "cte", "ParseDocument"); f == nil {
		r.Undecided("C09.cte-error", "cte.ParseDocument")
	} else {
		finfo := f.Pkg.TypesInfo
		okRet, nRet := true, 0
		var listener types.Object
		ast.Inspect(f.Decl.Body, func(n ast.Node) bool {
			if as, ok := n.(*ast.AssignStmt); ok && len(as.Rhs) == 1 {
				if t := finfo.TypeOf(as.Rhs[0]); t != nil && strings.Contains(t.String(), "reportingErrorListener") {
					listener = objOf(finfo, as.Lhs[0])
				}
			}
			return true
		})
		ast.Inspect(f.Decl.Body, func(n ast.Node) bool {
			if ret, ok := n.(*ast.ReturnStmt); ok {
				nRet++
				if len(ret.Results) != 1 {
					okRet = false
					return true
				}
				sel, ok := ret.Results[0].(*ast.SelectorExpr)
				if !ok || objOf(finfo, sel.X) != listener || sel.Sel.Name != "Error" {
					okRet = false
				}
			}
			return true
		})
		nListeners := 0
		inspectCalls(finfo, f.Decl.Body, func(c *ast.CallExpr, cal *types.Func) {
			if cal != nil && cal.Name() == "AddErrorListener" && len(c.Args) == 1 && objOf(finfo, c.Args[0]) == listener {
				nListeners++
			}
		})
		r.Check("C09.cte-error", "cte.ParseDocument|returns listener error", f.Decl.Pos(), okRet && nRet >= 1 && listener != nil, "ParseDocument must return the error recorded by its error listener on every path")
		r.Check("C09.cte-error", "cte.ParseDocument|listener installed on lexer and parser", f.Decl.Pos(), nListeners == 2, "the reporting error listener must be installed on both the lexer and the parser")
	}
	if f := findFn(p, "cte", "reportingErrorListener.SyntaxError"); f == nil {
		r.Undecided("C09.cte-error", "cte.reportingErrorListener.SyntaxError")
	} else {
		stores := false
		ast.Inspect(f.Decl.Body, func(n ast.Node) bool {
			if as, ok := n.(*ast.AssignStmt); ok && len(as.Lhs) == 1 {
				if fld := fieldOf(f.Pkg.TypesInfo, as.Lhs[0]); fld != nil && fld.Name() == "Error" && !isNilExpr(f.Pkg.TypesInfo, as.Rhs[0]) {
					stores = true
				}
			}
			return true
		})
		r.Check("C09.cte-error", "cte.reportingErrorListener.SyntaxError|stores", f.Decl.Pos(), stores, "a syntax error (including unexpected end of input) must be stored for ParseDocument to return")
	}
	if f := p.LookupFunc("cte", "cteListener.wrapPanic"); f == nil {
		r.Undecided("C09.cte-error", "cte.cteListener.wrapPanic")
	} else {
		r.Check("C09.cte-error", "cte.cteListener.wrapPanic|re-raises", f.Pos(), repanicsNonNil(p, a, f), "wrapPanic must re-raise every non-nil recovered value")
	}
}

// checkTerminateProgress2 re-uses the C07 progress rule under C09's id.
func checkTerminateProgress2(r *core.Run, p *core.Program, a *analysis) {
	sub := core.NewRun("C09", "quick", 0, "")
	sub.Prog = p
	checkTerminateProgress(sub, p, a)
	for _, o := range sub.Obls {
		r.Check("C09.on-error", o.Construct, token.NoPos, o.OK, o.Detail)
	}
}

func checkC09StackedWrapper(r *core.Run, p *core.Program) {
	pkg := p.Pkg("builder")
	info := pkg.TypesInfo
	n := 0
	for _, f := range funcsOf(pkg) {
		if rn := recvNamed(f.Obj); rn == nil || rn.Obj().Name() != "Context" {
			continue
		}
		// x := newT(…, _this.CurrentBuilder, …) … _this.StackBuilder(x)
		ast.Inspect(f.Decl.Body, func(nd ast.Node) bool {
			as, ok := nd.(*ast.AssignStmt)
			if !ok || len(as.Lhs) != 1 || len(as.Rhs) != 1 {
				return true
			}
			xObj := objOf(info, as.Lhs[0])
			// the wrapper may be built in place: x := &T{…, child: _this.CurrentBuilder}
			if u, isAddr := stripParens(as.Rhs[0]).(*ast.UnaryExpr); isAddr && u.Op == token.AND {
				if lit, isLit := stripParens(u.X).(*ast.CompositeLit); isLit {
					var heldIn *types.Var
					for _, el := range lit.Elts {
						if kv, ok := el.(*ast.KeyValueExpr); ok {
							if fv := fieldOf(info, kv.Value); fv != nil && fv.Name() == "CurrentBuilder" {
								heldIn, _ = objOf(info, kv.Key).(*types.Var)
							}
						}
					}
					tNamed := namedOf(info.TypeOf(lit))
					stackedLit := false
					inspectCalls(info, f.Decl.Body, func(c2 *ast.CallExpr, cal *types.Func) {
						if cal != nil && cal.Name() == "StackBuilder" && len(c2.Args) == 1 && objOf(info, c2.Args[0]) == xObj {
							stackedLit = true
						}
					})
					if heldIn != nil && tNamed != nil && stackedLit {
						n++
						judgeStackedWrapper(r, p, info, tNamed, heldIn)
					}
				}
				return true
			}
			call, ok := stripParens(as.Rhs[0]).(*ast.CallExpr)
			if !ok {
				return true
			}
			ctor := callee(info, call)
			if ctor == nil || ctor.Pkg() != pkg.Types {
				return true
			}
			argIdx := -1
			for i, a := range call.Args {
				if fv := fieldOf(info, a); fv != nil && fv.Name() == "CurrentBuilder" {
					argIdx = i
				}
			}
			if argIdx < 0 {
				return true
			}
			stacked := false
			inspectCalls(info, f.Decl.Body, func(c2 *ast.CallExpr, cal *types.Func) {
				if cal != nil && cal.Name() == "StackBuilder" && len(c2.Args) == 1 && objOf(info, c2.Args[0]) == xObj {
					stacked = true
				}
			})
			if !stacked {
				return true
			}
			// the field of T that receives the constructor's parameter
			cd := p.FuncDecl(ctor)
			if cd == nil || cd.Body == nil {
				return true
			}
			csig := ctor.Type().(*types.Signature)
			if argIdx >= csig.Params().Len() {
				return true
			}
			cparam := csig.Params().At(argIdx)
			var heldIn *types.Var
			var tNamed *types.Named
			ast.Inspect(cd.Body, func(k ast.Node) bool {
				lit, ok := k.(*ast.CompositeLit)
				if !ok {
					return true
				}
				for _, el := range lit.Elts {
					if kv, ok := el.(*ast.KeyValueExpr); ok && objOf(info, kv.Value) == cparam {
						if fv, ok := objOf(info, kv.Key).(*types.Var); ok {
							heldIn = fv
							tNamed = namedOf(info.TypeOf(lit))
						}
					}
				}
				return true
			})
			if heldIn == nil || tNamed == nil {
				return true
			}
			n++
			judgeStackedWrapper(r, p, info, tNamed, heldIn)
			return true
		})
	}
	r.Floor("C09.stacked-wrapper", "builders stacked on top of the builder they hold", n, 1)
}

func judgeStackedWrapper(r *core.Run, p *core.Program, info *types.Info, tNamed *types.Named, heldIn *types.Var) {
	term := p.LookupFunc("builder", tNamed.Obj().Name()+".BuildArtificiallyEndContainer")
	td := p.FuncDecl(term)
	if td == nil || td.Body == nil {
		r.Undecided("C09.stacked-wrapper", "builder."+tNamed.Obj().Name()+".BuildArtificiallyEndContainer")
		return
	}
	var bad token.Pos
	inspectCalls(info, td.Body, func(c3 *ast.CallExpr, cal *types.Func) {
		if cal == nil || (cal.Name() != "BuildArtificiallyEndContainer" && cal.Name() != "BuildEndContainer") {
			return
		}
		if sel, ok := c3.Fun.(*ast.SelectorExpr); ok && fieldOf(info, sel.X) == heldIn {
			bad = c3.Pos()
		}
	})
	r.Check("C09.stacked-wrapper", "builder."+tNamed.Obj().Name()+"|artificial end is not forwarded to the builder below", posOr(bad, td.Pos()), !bad.IsValid(),
		"builder."+tNamed.Obj().Name()+" is stacked on top of the builder it holds in "+heldIn.Name()+" and forwards the artificial end of input to it: when the input ends right after a marker (`[1 &a:`) the enclosing container is closed while the marker builder is still stacked, and the partial result contains a copy of (or a reference to) itself")
}
