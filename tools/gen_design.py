#!/usr/bin/env python3
"""Assembles /verif/DESIGN.md from tools/design_head.md, the rule texts in evidence/*.json (written by the checks),
tools/claims.json, known_findings.json, seeded/*/meta.json and tools/design_tail.md."""
import re, json, os, glob, textwrap
V = '/verif'
props = [json.loads(l) for l in open(V + '/properties.jsonl')]
claims = json.load(open(V + '/tools/claims.json'))
kf = json.load(open(V + '/known_findings.json'))['findings']
out = [open(V + '/tools/design_head.md').read().rstrip(), '', '-' * 98, '',
       '## 4. Rules per property (as built; rule texts are those the checks print into their evidence)', '']
notdec = []
for p in props:
    pid = p['id']
    c = claims.get(pid)
    evp = V + '/evidence/%s.json' % pid
    out.append('### %s — %s (level: %s)' % (pid, p['title'], (c or {}).get('level', 'other')))
    out.append('')
    if not c:
        out.append('not claimed.')
        continue
    out.append('Claim: ' + c['text'])
    out.append('')
    if os.path.exists(evp):
        ev = json.load(open(evp))
        cov = ev['coverage']
        for rid in sorted(cov.get('rules', {})):
            pr = cov.get('per_rule', {}).get(rid, {})
            out.append('* **%s** (%d obligations on the pinned tree) — %s' % (rid, pr.get('obligations', 0), cov['rules'][rid]))
        out.append('')
        an = cov.get('analysed', {})
        if an:
            out.append('Analysed (instance counts, each with a floor in the rule): ' + '; '.join('%s = %d' % (k, an[k]) for k in sorted(an) if k != 'packages') + '.')
            out.append('')
        nd = cov.get('not_decided') or []
        if nd:
            notdec.append((pid, nd, ev.get('assumptions') or []))
    out.append('Trusted / notes: ' + c['note'])
    out.append('')
out += ['-' * 98, '', '## 5. Genuine defects found by the rules', '',
        'Each entry was reproduced against the real code (failing input in the `what` column) before it was recorded.',
        '`fixed` = repaired by the named unguarded `fix:` commit in /repo (the existing suite, unedited, stays green);',
        'the check passes on the repaired tree and reports the defect again if it returns. `open` = recorded, not',
        'repaired (feature-sized, pinned by unit tests, or not executable here); the check prints KNOWN-FINDING for exactly',
        'that `rule|construct` key and still reports any other violation of the same rule.', '']
for status in ('fixed', 'open'):
    out.append('**%s**' % status)
    out.append('')
    out.append('| property | rule | construct | what fails | commit |')
    out.append('|---|---|---|---|---|')
    seen = set()
    for f in kf:
        if f['status'] != status:
            continue
        what = f['what'].replace('|', '\\|')
        if status == 'fixed':
            # one line per (property, commit): several keys of one defect collapse
            k = (f['property'], f.get('commit'), what[:60])
            if k in seen:
                continue
            seen.add(k)
        cons = f['construct'].replace('|', ' ¦ ')
        if f['property'] == 'C26' and status == 'open' and f['rule'] != 'C26.probe':
            k = ('C26', f['rule'])
            if k in seen:
                continue
            seen.add(k)
            cons = '(each reinterpreting fast path of arrays_impurego.go: %d keys)' % sum(1 for g in kf if g['property'] == 'C26' and g['rule'] == f['rule'])
        out.append('| %s | %s | `%s` | %s | %s |' % (f['property'], f['rule'], cons, what, f.get('commit', '')))
    out.append('')
out += ['-' * 98, '', '## 6. Clauses not decided (never claimed), per property', '']
for pid, nd, assume in notdec:
    out.append('* **%s** — not decided: %s.%s' % (pid, '; '.join(nd), (' Assumptions: ' + '; '.join(assume) + '.') if assume else ''))
out += ['', 'No property is declared wholly not-applicable: each has at least one structural clause that is a necessary condition',
        'of the behaviour and that realistic edits break. The clauses above are outside static analysis here; nothing is',
        'substituted for them (no test run, no solver).', '',
        '-' * 98, '', '## 7. Seeded changes and which check catches which', '',
        'Independent sub-agents were given only the text of one property and a scratch worktree of /repo (nothing from /verif) and',
        'asked for realistic changes that break the property while compiling and keeping the 188 tests green, each with a',
        'demonstration that fails with the change and passes without. Every change below was confirmed here (`tools/try_seed.sh`:',
        'suite green with the change, demo fails with / passes without) before it was stored under `seeded/<id>/`. `tools/reseed.py`',
        're-applies each stored change to a scratch copy of the current /repo and records which check reports it; the thorough tier',
        'of each check repeats that for its own property (both-ways self-test). Hand-made variants live in `mutants/`.', '',
        '| seeded change | breaks | what it needs to manifest (from the sub-agent\'s README) | reported by |', '|---|---|---|---|']
nd_, nt_ = 0, 0
for d in sorted(glob.glob(V + '/seeded/*')):
    m = json.load(open(d + '/meta.json'))
    readme = ''
    rp = d + '/README.md'
    if os.path.exists(rp):
        lines = [l.strip() for l in open(rp) if l.strip()]
        title = next((l.lstrip('# ').strip() for l in lines if l.startswith('#')), '')
        readme = title[:150]
    det = ', '.join(m.get('detected_by') or []) or '**not detected**'
    nt_ += 1
    nd_ += 1 if m['property'] in (m.get('detected_by') or []) else 0
    if m.get('detected_by') and m['property'] not in m['detected_by']:
        no_ = globals().get('no_', 0) + 1
    out.append('| %s | %s | %s | %s |' % (os.path.basename(d), m['property'], readme.replace('|', '/'), det))
out += ['', '%d of %d seeded changes are reported by the check of the property they break; %d more only by the check of another property (listed in the last column); the rest are marked **not detected** and discussed in section 9.' % (nd_, nt_, globals().get('no_', 0)), '']
ms = sorted(glob.glob(V + '/mutants/C*/*.patch'))
if ms:
    out.append('Hand-made variants (each reported by its property\'s check): ' + ', '.join(os.path.relpath(m, V) for m in ms) + '.')
    out.append('')
out.append(open(V + '/tools/design_tail.md').read().rstrip())
out.append('')
# ---- refactoring corpus
refs = sorted(glob.glob(V + '/refactors/*/meta.json'))
if refs:
    out += ['### Refactoring corpus: verdict per behaviour-preserving change', '',
            '| refactoring | what it is (from the sub-agent\'s README) | verdict of the 29 checks |', '|---|---|---|']
    ns = 0
    for f in refs:
        m = json.load(open(f))
        title = ''
        rp = os.path.dirname(f) + '/README.md'
        if os.path.exists(rp):
            lines = [l.strip() for l in open(rp) if l.strip()]
            title = next((l.lstrip('# ').strip() for l in lines if l.startswith('#')), lines[0] if lines else '')[:140]
        v = m['verdict']
        if v == 'silent':
            ns += 1
        else:
            rules = sorted(set(re.findall(r': (C\d\d\.[A-Za-z0-9/.-]+):', ' '.join(m.get('alarms', [])))))
            v = '**false alarm**: ' + ', '.join(r for r in rules if '.shared/' not in r)[:160]
        out.append('| %s | %s | %s |' % (m['id'], title.replace('|', '/'), v))
    out += ['', '%d of %d refactorings leave all 29 checks silent.' % (ns, len(refs)), '']

open(V + '/DESIGN.md', 'w').write('\n'.join(out))
print('DESIGN.md written: %d lines' % len(out))
