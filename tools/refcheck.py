#!/usr/bin/env python3
"""Runs every claimed check on scratch copies of /repo with one behaviour-preserving refactoring applied each
(refactors/<id>/patch.diff, or new ones from /tmp/wtrout/Cxx/k). Any exit 1 is a FALSE ALARM.
usage: tools/refcheck.py [--import]   (--import first copies /tmp/wtrout/*/*/ into /verif/refactors/)"""
import json, os, subprocess, sys, glob, shutil, tempfile
from concurrent.futures import ThreadPoolExecutor
V = '/verif'
env = dict(os.environ, GOFLAGS='-mod=mod', GOPROXY='off', GOSUMDB='off', GOTOOLCHAIN='local')
env.pop('GOWORK', None)
if '--import' in sys.argv:
    for d in sorted(glob.glob('/tmp/wtrout/C*/[0-9]*')):
        prop, k = d.split('/')[-2], d.split('/')[-1]
        if not os.path.exists(d + '/patch.diff'):
            continue
        dst = V + '/refactors/%s-%s' % (prop, k)
        os.makedirs(dst, exist_ok=True)
        shutil.copy(d + '/patch.diff', dst + '/patch.diff')
        if os.path.exists(d + '/README.md'):
            shutil.copy(d + '/README.md', dst + '/README.md')
only = [a for a in sys.argv[1:] if a.startswith('C')]
BIN = os.environ.get('CECHECK_BIN', V + '/bin/cecheck')
if 'CECHECK_BIN' not in os.environ:
    subprocess.run([V + '/setup.sh'], check=True, env=env)
checks = [c['property_id'] for c in json.load(open(V + '/MANIFEST.json'))['checks']]
refs = sorted(glob.glob(V + '/refactors/*/patch.diff'))
if only:
    refs = [r for r in refs if r.split('/')[-2].split('-')[0] in only]

def run(ref):
    name = ref.split('/')[-2]
    tmp = tempfile.mkdtemp(prefix='refchk-')
    try:
        subprocess.run('git -C /repo archive HEAD | tar -x -C ' + tmp, shell=True, check=True)
        a = subprocess.run(['patch', '-p1', '-s', '-f', '-i', ref], cwd=tmp, capture_output=True, text=True, stdin=subprocess.DEVNULL)
        if a.returncode != 0:
            return (name, 'PATCH-FAILS', [])
        b = subprocess.run(['go', 'build', '-trimpath', './...'], cwd=tmp, capture_output=True, text=True, env=env)
        if b.returncode != 0:
            return (name, 'BUILD-FAILS', [b.stderr[:200]])
        os.makedirs(tmp + '/.v')
        shutil.copy(V + '/known_findings.json', tmp + '/.v/known_findings.json')
        alarms = []
        o = subprocess.run([BIN, 'ALL', '--repo', tmp, '--verif', tmp + '/.v'], capture_output=True, text=True, env=env)
        if o.returncode != 0:
            import re
            for l in o.stdout.splitlines():
                if l.startswith('KNOWN-FINDING') or l.startswith('VIOLATION'):
                    continue
                if re.match(r'^\S+: C\d\d[.]', l) or 'CHECKER-BROKEN' in l:
                    alarms.append(l[:300])
        return (name, 'silent' if not alarms else 'FALSE-ALARM', alarms)
    finally:
        shutil.rmtree(tmp, ignore_errors=True)

with ThreadPoolExecutor(max_workers=5) as ex:
    results = list(ex.map(run, refs))
bad = 0
for name, verdict, alarms in results:
    print('%-12s %s' % (name, verdict))
    for a in alarms:
        print('      ' + a)
    if verdict != 'silent':
        bad += 1
    meta = {'id': name, 'kind': 'behaviour-preserving refactoring by an independent sub-agent (suite passes with it)', 'verdict': verdict, 'alarms': alarms}
    json.dump(meta, open(V + '/refactors/%s/meta.json' % name, 'w'), indent=1)
print('%d refactorings, %d not silent' % (len(results), bad))
