#!/usr/bin/env python3
"""Regenerates /verif/MANIFEST.json from the claim table in tools/claims.json.
Properties without a claim are listed under not_applicable with their reason."""
import json, os
here = os.path.dirname(os.path.abspath(__file__))
root = os.path.dirname(here)
props = [json.loads(l) for l in open(os.path.join(root, 'properties.jsonl'))]
claims = json.load(open(os.path.join(here, 'claims.json')))
# rules of other properties' checks that a check also runs (checker/rules/shared.go, table Includes)
import re
inc = {}
src = open(os.path.join(root, 'checker', 'rules', 'shared.go')).read()
for m in re.finditer(r'^\t"(C\d\d)":\s*\{([^}]*)\}', src, re.M):
    inc[m.group(1)] = re.findall(r'"([^"]+)"', m.group(2))
checks, na = [], []
for p in props:
    pid = p['id']
    c = claims.get(pid)
    if not c or c.get('not_applicable'):
        na.append({"property_id": pid, "reason": (c or {}).get('not_applicable', "check not built yet (work in progress; see DESIGN.md section 4)")})
        continue
    checks.append({
        "property_id": pid,
        "quick_cmd": "./check %s" % pid,
        "thorough_cmd": "./check %s --thorough" % pid,
        "evidence_file": "/verif/evidence/%s.json" % pid,
        "replay_cmd_template": "./check %s --replay {path}" % pid,
        "engine": "cecheck",
        "level_claimed": {"category": c.get('level', 'other'), "text": c['text'] + ((" The check also runs, as further necessary conditions of this property, these rules of other properties' checks (prefix = all rules of that property; reported as %s.shared/<rule>): %s." % (pid, ", ".join(inc[pid]))) if inc.get(pid) else ""), "design_ref": "DESIGN.md section 4, %s" % pid},
        "level_note": c['note'],
        "technique": c['technique'],
    })
m = {
    "version": 1,
    "setup_cmd": "./setup.sh",
    "hooks": {"guard": "verif", "enable": "no hooks: the checks analyse /repo's source statically under the default build tags (thorough tier adds -tags purego and GOARCH=arm64; the pinned tree does not type-check under GOARCH=386)",
              "baseline_off_cmd": "cd /repo && GOFLAGS=-mod=mod GOPROXY=off GOSUMDB=off go test -vet=off -count=1 -timeout 25m ./...",
              "source_commits": [], "add_only": True},
    "engines": [{"name": "cecheck", "path": "/verif/checker", "serves_properties": [c["property_id"] for c in checks],
                 "kind_free_text": "repository-specific static analyser (go/packages + go/types + go/ssa, golang.org/x/tools v0.29.0): table extraction, receiver matrices, path/guard rules, dataflow, grammar reader"}],
    "checks": checks,
    "not_applicable": na,
    "notes": "Technique family: static analysis only. Every check loads /repo's current working tree, never executes library code. exit 0 = all obligations discharged or listed in known_findings.json (printed as KNOWN-FINDING); exit 1 = VIOLATION lines; exit 2 = checker broken. See DESIGN.md.",
}
json.dump(m, open(os.path.join(root, 'MANIFEST.json'), 'w'), indent=1)
print("checks:", len(checks), "not_applicable:", len(na))
