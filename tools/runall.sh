#!/bin/bash
# usage: tools/runall.sh [--thorough]   runs every claimed check and prints one line each
# quick: all in parallel; thorough: 4 at a time (each thorough check runs up to 3 self-test copies of the whole program)
cd /verif
ids=$(jq -r '.checks[].property_id' MANIFEST.json)
one() { p=$1; shift; ./check $p "$@" > /tmp/runall.$p.out 2>&1; echo "$p exit=$? kf=$(grep -c '^KNOWN-FINDING' /tmp/runall.$p.out) viol=$(grep -c '^VIOLATION' /tmp/runall.$p.out) $(grep -c CHECKER-BROKEN /tmp/runall.$p.out | sed 's/^0$//;s/^[1-9].*/BROKEN/')"; }
export -f one
if [ "$1" = "--thorough" ]; then
  echo $ids | tr ' ' '\n' | xargs -P 4 -I{} bash -c 'one {} --thorough'
else
  for p in $ids; do one $p "$@" & done; wait
fi
