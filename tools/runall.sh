#!/bin/bash
# usage: tools/runall.sh [--thorough]   runs every claimed check in parallel and prints one line each
cd /verif
ids=$(jq -r '.checks[].property_id' MANIFEST.json)
for p in $ids; do ( ./check $p "$@" > /tmp/runall.$p.out 2>&1; echo "$p exit=$? kf=$(grep -c '^KNOWN-FINDING' /tmp/runall.$p.out) viol=$(grep -c '^VIOLATION' /tmp/runall.$p.out) $(grep -c CHECKER-BROKEN /tmp/runall.$p.out | sed 's/^0$//;s/^[1-9].*/BROKEN/')" ) & done; wait
