#!/usr/bin/env python3
"""usage: kf.py <property> <rule> <construct> <status open|fixed> <what> [commit]"""
import json,sys
p='/verif/known_findings.json'; d=json.load(open(p))
prop,rule,construct,status,what=sys.argv[1:6]
commit=sys.argv[6] if len(sys.argv)>6 else None
e={"property":prop,"rule":rule,"construct":construct,"what":(("fixed: property=%s %s %s"%(prop,commit,what)) if status=="fixed" else what),"status":status}
if commit: e["commit"]=commit
d["findings"]=[x for x in d["findings"] if not (x["property"]==prop and x["rule"]==rule and x["construct"]==construct)]+[e]
json.dump(d,open(p,'w'),indent=1)
