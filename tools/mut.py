#!/usr/bin/env python3
"""usage: mut.py <file under /repo> <old> <new> [count]  -- exact-text edit used to seed variants"""
import sys
p='/repo/'+sys.argv[1]; s=open(p).read()
old,new=sys.argv[2],sys.argv[3]
if old not in s: print("OLD TEXT NOT FOUND"); sys.exit(1)
s=s.replace(old,new,int(sys.argv[4]) if len(sys.argv)>4 else 1)
open(p,'w').write(s)
