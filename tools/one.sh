#!/bin/bash
# usage: tools/one.sh <patch.diff> [props]   applies a stored patch to a scratch copy of /repo HEAD and runs the checks on it
export GOFLAGS=-mod=mod GOPROXY=off GOSUMDB=off GOTOOLCHAIN=local; unset GOWORK
t=$(mktemp -d /tmp/one-XXXXXX)
git -C /repo archive HEAD | tar -x -C $t
( cd $t && patch -p1 -s -f -i "$1" < /dev/null ) || { echo PATCH-FAILS; rm -rf $t; exit 3; }
mkdir -p $t/.v && cp /verif/known_findings.json $t/.v/
${CECHECK_BIN:-/verif/bin/cecheck} ${2:-ALL} --repo $t --verif $t/.v 2>&1 | grep -v "^KNOWN-FINDING" | grep -E "^[^ ]+: C[0-9][0-9]\.|CHECKER-BROKEN" | cut -c1-${WIDTH:-260}
rm -rf $t
