#!/bin/bash
# usage: tools/try_seed.sh Cxx k <demo destination relative path, e.g. rules/demo_c12_1_test.go> [checks to run, default: the property itself]
# Confirms a sub-agent's seeded change in its scratch worktree (suite green with change, demo fails with / passes without),
# then applies it to /repo, runs the listed checks, restores /repo, and stores it under /verif/seeded/.
prop=$1; k=$2; dest=$3; shift 3; checks=${@:-$prop}
src=/tmp/wtout/$prop/$k; wt=/tmp/wt/$prop
export GOFLAGS=-mod=mod GOPROXY=off GOSUMDB=off GOTOOLCHAIN=local; unset GOWORK
[ -f $src/patch.diff ] || { echo "no patch"; exit 2; }
cd $wt && git checkout -q -- . && git clean -fdq
git apply $src/patch.diff || { echo "PATCH DOES NOT APPLY in worktree"; exit 2; }
go build ./... || { echo "BUILD FAILS"; git checkout -q -- .; exit 2; }
/verif/tools/runtests.sh $wt > /tmp/seed_suite.txt 2>&1; suite=$?
mkdir -p $(dirname $wt/$dest); cp $src/demo_test.go.txt $wt/$dest
pkgdir=$(dirname $dest)
(cd $wt && go test $RACEFLAG -vet=off -count=1 ./$pkgdir -run 'Demo|demo|Seed|C[0-9]' > /tmp/seed_demo_with.txt 2>&1); with=$?
git apply -R $src/patch.diff
(cd $wt && go test $RACEFLAG -vet=off -count=1 ./$pkgdir -run 'Demo|demo|Seed|C[0-9]' > /tmp/seed_demo_without.txt 2>&1); without=$?
git checkout -q -- . ; git clean -fdq
echo "suite_with_change=$suite ($(head -1 /tmp/seed_suite.txt)) demo_with_change=$with demo_without=$without"
if [ $suite != 0 ] || [ $with = 0 ] || [ $without != 0 ]; then echo "NOT CONFIRMED"; tail -5 /tmp/seed_demo_with.txt; tail -5 /tmp/seed_demo_without.txt; exit 3; fi
# run checks on /repo
cd /verif
[ -z "$(git -C /repo status --porcelain)" ] || { echo "/repo dirty"; exit 2; }
git -C /repo apply $src/patch.diff || { echo "PATCH DOES NOT APPLY to /repo"; exit 2; }
detected=""
for c in $checks; do
  ./check $c > /tmp/seed_check_$c.txt 2>&1; code=$?
  if [ $code = 1 ]; then detected="$detected $c"; echo "== $c DETECTS:"; grep -v '^KNOWN-FINDING\|^VIOLATION' /tmp/seed_check_$c.txt | head -3 | cut -c1-300; else echo "== $c silent (exit $code)"; fi
done
git -C /repo checkout -- .
id=$prop-agent-$k
mkdir -p seeded/$id
cp $src/patch.diff seeded/$id/patch.diff; cp $src/demo_test.go.txt seeded/$id/demo_test.go.txt; cp $src/README.md seeded/$id/README.md
python3 - "$id" "$prop" "$dest" "$detected" "$checks" <<'PY'
import json,sys
id,prop,dest,detected,checks=sys.argv[1:6]
json.dump({"id":id,"property":prop,"source":"independent sub-agent given only the property text and a scratch worktree",
 "demo_placement":dest,"needs":"see README.md","confirmed":{"suite_passes_with_change":True,"demo_fails_with_change":True,"demo_passes_without_change":True,
 "how":"tools/try_seed.sh: git apply in a scratch worktree, go test ./... (188 top-level tests pass), demo placed and run with and without the change"},
 "checks_run":checks.split(),"detected_by":detected.split()},open('/verif/seeded/%s/meta.json'%id,'w'),indent=1)
PY
echo "stored seeded/$id detected_by=[$detected ]"
