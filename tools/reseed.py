#!/usr/bin/env python3
"""Re-evaluates every stored seeded change (seeded/*/patch.diff) and hand-made mutant (mutants/Cxx/*.patch)
against the current checker: each patch is applied to its own scratch copy of /repo's HEAD tree (outside /repo and
/verif, removed afterwards), the check of its property is run with --repo on that copy, and seeded/*/meta.json
detected_by is updated.  usage: tools/reseed.py [Cxx ...] [--also C07,C16]  (default: all)"""
import json, os, subprocess, sys, glob, shutil, tempfile
from concurrent.futures import ThreadPoolExecutor
V = '/verif'
props = [a for a in sys.argv[1:] if a.startswith('C')]
claimed = [c['property_id'] for c in json.load(open(V + '/MANIFEST.json'))['checks']]
registered = set(claimed)
env = dict(os.environ, GOFLAGS='-mod=mod', GOPROXY='off', GOSUMDB='off', GOTOOLCHAIN='local')
env.pop('GOWORK', None)
BIN = os.environ.get('CECHECK_BIN', V + '/bin/cecheck')
if 'CECHECK_BIN' not in os.environ:
    subprocess.run([V + '/setup.sh'], check=True, env=env)
jobs = []
for d in sorted(glob.glob(V + '/seeded/*')):
    m = json.load(open(d + '/meta.json'))
    if props and m['property'] not in props:
        continue
    jobs.append((os.path.basename(d), m['property'], d + '/patch.diff', d + '/meta.json'))
for f in sorted(glob.glob(V + '/mutants/C*/*.patch')):
    p = f.split('/')[-2]
    if props and p not in props:
        continue
    jobs.append(('mutants/' + p + '/' + os.path.basename(f), p, f, None))

def run(job):
    name, prop, patch, meta = job
    tmp = tempfile.mkdtemp(prefix='reseed-')
    try:
        subprocess.run('git -C /repo archive HEAD | tar -x -C ' + tmp, shell=True, check=True)
        a = subprocess.run(['git', 'apply', '--directory', tmp, '--unsafe-paths', patch], cwd=tmp, capture_output=True, text=True)
        if a.returncode != 0:
            a = subprocess.run(['patch', '-p1', '-s', '-f', '-i', patch], cwd=tmp, capture_output=True, text=True, stdin=subprocess.DEVNULL)
            if a.returncode != 0:
                return (name, prop, 'PATCH-FAILS', '')
        o = subprocess.run([BIN, prop, '--repo', tmp, '--verif', tmp + '/.verif-out'], capture_output=True, text=True, env=env)
        first = ''
        for l in o.stdout.splitlines():
            if not l.startswith('KNOWN-FINDING') and not l.startswith('VIOLATION') and ': C' in l:
                first = l[:230]
                break
        return (name, prop, {0: 'silent', 1: 'DETECTED', 2: 'BROKEN'}.get(o.returncode, str(o.returncode)), first)
    finally:
        shutil.rmtree(tmp, ignore_errors=True)

def prep_verif(tmp):
    pass

# the checker reads known_findings.json from --verif: give each run a private dir with a copy
def run2(job):
    name, prop, patch, meta = job
    tmp = tempfile.mkdtemp(prefix='reseed-')
    try:
        os.makedirs(tmp + '/.verif-out')
        shutil.copy(V + '/known_findings.json', tmp + '/.verif-out/known_findings.json')
        return run_in(job, tmp)
    finally:
        shutil.rmtree(tmp, ignore_errors=True)

def run_in(job, tmp):
    name, prop, patch, meta = job
    subprocess.run('git -C /repo archive HEAD | tar -x -C ' + tmp, shell=True, check=True)
    a = subprocess.run(['patch', '-p1', '-s', '-f', '-i', patch], cwd=tmp, capture_output=True, text=True, stdin=subprocess.DEVNULL)
    if a.returncode != 0:
        return (name, prop, 'PATCH-FAILS', a.stdout[:100], [])
    o = subprocess.run([BIN, 'ALL', '--repo', tmp, '--verif', tmp + '/.verif-out'], capture_output=True, text=True, env=env)
    import re
    firsts, detected, broken = {}, [], False
    for l in o.stdout.splitlines():
        m = re.match(r'^\S+: (C\d\d)[.]', l)
        if m and not l.startswith('KNOWN-FINDING') and m.group(1) not in firsts:
            firsts[m.group(1)] = l[:230]
        m = re.match(r'^(C\d\d) \[quick\]: .* (\d+) violated', l)
        if m and int(m.group(2)) > 0:
            detected.append(m.group(1))
        if 'CHECKER-BROKEN' in l:
            broken = True
    verdict = 'DETECTED' if prop in detected else ('BROKEN' if broken else ('other:' + ','.join(detected) if detected else 'silent'))
    return (name, prop, verdict, firsts.get(prop, next(iter(firsts.values()), '')), detected)

with ThreadPoolExecutor(max_workers=6) as ex:
    results = list(ex.map(run2, jobs))
for (name, prop, verdict, first, detected), job in zip(results, jobs):
    print('%-42s %-4s %-10s %s' % (name, prop, verdict, first))
    if job[3] and verdict != 'PATCH-FAILS' and verdict != 'BROKEN':
        m = json.load(open(job[3]))
        det = ([prop] if prop in detected else []) + [d for d in detected if d != prop]
        m['detected_by'] = det
        m['checks_run'] = ['ALL']
        json.dump(m, open(job[3], 'w'), indent=1)
n = sum(1 for r in results if r[2] == 'DETECTED')
n2 = sum(1 for r in results if r[2].startswith('other:'))
print('detected by own check %d, only by another property\'s check %d, of %d' % (n, n2, len(results)))
