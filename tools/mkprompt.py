#!/usr/bin/env python3
import json,sys
pid=sys.argv[1]; n=sys.argv[2] if len(sys.argv)>2 else "3"; first=int(sys.argv[3]) if len(sys.argv)>3 else 1
props={json.loads(l)['id']:json.loads(l) for l in open('/verif/properties.jsonl')}
p=props[pid]
t=open('/verif/tools/agent_prompt.txt').read()
prop="%s — %s\n  %s\n  (quantified over: %s)"%(pid,p['title'],p['statement'],p['quantifier']['text'])
print(t.replace('@WT@','/tmp/wt/'+pid).replace('@OUT@','/tmp/wtout/'+pid).replace('@PROP@',prop).replace('@N@',n).replace('@FIRST@',str(first)).replace('@LAST@',str(first+int(n)-1)))
