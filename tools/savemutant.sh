#!/bin/sh
# usage: tools/savemutant.sh Cxx name [--silent]
# Takes the uncommitted edit currently in /repo as a seeded variant: checks it builds and the test suite
# passes, stores it as /verif/mutants/Cxx/name.patch, runs the check (expect exit 1; with --silent expect exit 0,
# stored under mutants-silent/), and restores /repo.
prop=$1; name=$2; mode=$3
cd /verif || exit 2
export GOFLAGS=-mod=mod GOPROXY=off GOSUMDB=off GOTOOLCHAIN=local; unset GOWORK
if [ -z "$(git -C /repo status --porcelain)" ]; then echo "no edit in /repo"; exit 2; fi
(cd /repo && go build ./... ) || { echo "DOES NOT BUILD"; git -C /repo checkout -- .; exit 2; }
if [ "$SKIPTESTS" != 1 ]; then
 /verif/tools/runtests.sh >/tmp/mut_tests.txt 2>&1 || { echo "TESTS FAIL (variant not kept):"; cat /tmp/mut_tests.txt; git -C /repo checkout -- .; exit 3; }
fi
dir=mutants/$prop; [ "$mode" = "--silent" ] && dir=mutants-silent/$prop
mkdir -p $dir
git -C /repo diff > $dir/$name.patch
./check $prop > /tmp/mut_out.txt 2>&1; code=$?
git -C /repo checkout -- .
grep -v '^KNOWN-FINDING' /tmp/mut_out.txt | head -${LINES_SHOWN:-6}
if [ "$mode" = "--silent" ]; then
  [ $code = 0 ] && echo "OK silent" || echo "UNEXPECTED ALARM (exit $code)"
else
  [ $code = 1 ] && echo "OK detected" || { echo "NOT DETECTED (exit $code)"; }
fi
