#!/bin/sh
# Runs the repository's pinned test suite offline (guard off) and prints a pass/fail summary.
export GOFLAGS=-mod=mod GOPROXY=off GOSUMDB=off GOTOOLCHAIN=local
unset GOWORK
cd "${1:-/repo}" || exit 2
out=$(go test -json -vet=off -count=1 -timeout 25m ./... 2>&1)
pass=$(printf '%s\n' "$out" | grep -c '"Action":"pass","Package":"[^"]*","Test":"[^"/]*"')
fail=$(printf '%s\n' "$out" | grep -c '"Action":"fail","Package":"[^"]*","Test":"[^"/]*"')
echo "top-level tests: pass=$pass fail=$fail"
printf '%s\n' "$out" | grep '"Action":"fail"' | grep '"Test"' | head -20
printf '%s\n' "$out" | grep -i 'build failed\|cannot\|\[setup failed\]' | head
[ "$fail" = 0 ] && [ "$pass" -ge 188 ]
