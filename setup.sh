#!/bin/sh
# Builds the checker binary offline from files on disk only.
set -e
cd "$(dirname "$0")"
export GOFLAGS=-mod=mod GOPROXY=off GOSUMDB=off GOTOOLCHAIN=local
unset GOWORK
mkdir -p bin evidence replays
cd checker
go build -o ../bin/cecheck ./cmd/cecheck
